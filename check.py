#!/usr/bin/env python3
"""Single entry point.
  ./check.py --setup                       build everything once (repo objects, Lean library, drivers)
  ./check.py C33 [--tier quick|thorough]   decide one property on /repo's current working tree
  ./check.py C33 --replay <file>           re-run the case stored in a replay file
Environment: VERIF_SEED (default 1), VERIF_TIER.
"""
import importlib, os, sys, time, traceback, glob, json

HERE = os.path.dirname(os.path.abspath(__file__))
sys.path.insert(0, HERE)
from vlib import core, build_repo


def setup():
    t = time.time()
    ok, log, dt = build_repo.build("o1")
    print(log[-1500:])
    print("repo build o1: ok=%s %.1fs" % (ok, dt))
    if not ok:
        return 1
    # run the translators of every property so that Gen/*.lean exist before the library is built
    for p in sorted(glob.glob(os.path.join(HERE, "vlib", "props", "c[0-9]*.py"))):
        name = os.path.basename(p)[:-3]
        try:
            mod = importlib.import_module("vlib.props." + name)
            if hasattr(mod, "translate"):
                ctx = core.Ctx(mod.ID, "quick", 1)
                try:
                    mod.translate(ctx)
                finally:
                    ctx.cleanup()
        except Exception as ex:
            print("setup: translator of %s failed: %s" % (name, ex))
    rc, out, err = core.sh(["lake", "build"], cwd=core.LEAN, timeout=7200)
    print((out + err)[-3000:])
    if rc != 0:
        print("setup: lake build of the library failed (checks will report it per property)")
    # drivers
    import re
    exes = re.findall(r'\[\[lean_exe\]\]\s*name\s*=\s*"([^"]+)"', open(os.path.join(core.LEAN, "lakefile.toml")).read())
    if exes:
        rc2, out, err = core.sh(["lake", "build"] + exes, cwd=core.LEAN, timeout=7200)
        print((out + err)[-1500:])
    print("setup done in %.1fs" % (time.time() - t))
    return 0


def main(argv):
    if len(argv) >= 2 and argv[1] == "--setup":
        return setup()
    if len(argv) < 2:
        print(__doc__)
        return 2
    pid = argv[1].upper()
    tier = os.environ.get("VERIF_TIER", "quick")
    replay = None
    i = 2
    while i < len(argv):
        if argv[i] == "--tier":
            tier = argv[i + 1]; i += 2
        elif argv[i] == "--replay":
            replay = argv[i + 1]; i += 2
        else:
            i += 1
    seed = int(os.environ.get("VERIF_SEED", "1"))
    mod = importlib.import_module("vlib.props." + pid.lower())
    ctx = core.Ctx(pid, tier, seed)
    res = core.Result(ctx, mod.LEVEL)
    try:
        try:
            ctx.build_repo()
            if replay:
                return mod.replay(ctx, res, json.load(open(replay)))
            mod.run(ctx, res)
        except core.CheckBroken as ex:
            res.oblig("machinery", False, "machinery", str(ex))
        except Exception:
            res.oblig("machinery", False, "machinery", traceback.format_exc())
        return core.finish(ctx, res, getattr(mod, "RULE", ""), getattr(mod, "EXPLANATION", ""))
    finally:
        ctx.cleanup()


if __name__ == "__main__":
    sys.exit(main(sys.argv))

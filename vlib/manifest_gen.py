#!/usr/bin/env python3
"""Regenerate MANIFEST.json from the property modules present in vlib/props (keeps it valid at all times)."""
import glob, importlib, json, os, sys
HERE = os.path.dirname(os.path.dirname(os.path.abspath(__file__)))
sys.path.insert(0, HERE)

def main():
    props = [json.loads(l) for l in open(os.path.join(HERE, "properties.jsonl"))]
    checks, na = [], []
    engines = []
    extra_na = json.load(open(os.path.join(HERE, "vlib", "not_applicable.json"))) if os.path.exists(os.path.join(HERE, "vlib", "not_applicable.json")) else {}
    claimed = set(json.load(open(os.path.join(HERE, "vlib", "claimed.json"))))
    tech = json.load(open(os.path.join(HERE, "vlib", "technique.json")))
    for p in props:
        pid = p["id"]
        mp = os.path.join(HERE, "vlib", "props", pid.lower() + ".py")
        if not os.path.exists(mp) or pid in extra_na or pid not in claimed:
            na.append(dict(property_id=pid, reason=extra_na.get(pid, "no Lean model with a checked tie to the code has been built for this property yet (see DESIGN.md section 5." + pid + " for the planned model); nothing is claimed")))
            continue
        mod = importlib.import_module("vlib.props." + pid.lower())
        cat = "proof" if mod.LEVEL == "proof" else "other"
        checks.append(dict(
            property_id=pid,
            quick_cmd="./check.py %s --tier quick" % pid,
            thorough_cmd="./check.py %s --tier thorough" % pid,
            evidence_file="/verif/evidence/%s.json" % pid,
            replay_cmd_template="./check.py %s --replay {path}" % pid,
            engine="lean4-proof+correspondence",
            level_claimed=dict(category=cat, text=getattr(mod, "LEVEL_TEXT", mod.EXPLANATION), design_ref="DESIGN.md section 5." + pid),
            level_note=getattr(mod, "LEVEL_NOTE", "Trusted: Lean 4.33 kernel with axioms propext/Classical.choice/Quot.sound only; the translator / correspondence harness under /verif tying the model to /repo's working tree; g++/libstdc++. Modelled rather than verified: see DESIGN.md section 5." + pid + " (Outside the model)."),
            technique=getattr(mod, "TECHNIQUE", None) or tech.get(pid) or ("Lean 4 theorems over an executable model; model tied to the code by translator and/or differential correspondence on every run"),
        ))
    m = dict(
        version=1,
        setup_cmd="./check.py --setup",
        hooks=dict(guard="DANMAR_CPPCHECK_VERIF",
                   enable="checks compile /repo's working tree in place with -DDANMAR_CPPCHECK_VERIF (vlib/build_repo.py, ninja, objects under /verif/.build)",
                   baseline_off_cmd="cmake --build /repo/_build -j16 && ctest --test-dir /repo/_build -j8 --timeout 900",
                   source_commits=json.load(open(os.path.join(HERE, "vlib", "hook_commits.json"))) if os.path.exists(os.path.join(HERE, "vlib", "hook_commits.json")) else [],
                   add_only=True),
        engines=[dict(name="lean4-proof+correspondence", path="/verif/check.py", serves_properties=[c["property_id"] for c in checks],
                      kind_free_text="Lean 4 machine-checked theorems about executable models (lean/Cppcheck), tied to the code on every run by translators (source -> generated Lean/tables) and line-protocol correspondence harnesses (C++ in-process against objects built from the working tree vs compiled Lean drivers)")],
        checks=checks,
        notes="Every check rebuilds /repo's working tree (ninja, incremental), rebuilds and audits the Lean obligations, runs the correspondence, and on any break searches for a concrete failing input. Known findings (kind finding / fixed, each with a specific classifier key): /verif/known_findings.json and /verif/known_findings.d/*.json. Seeded changes used to evaluate the checks: /verif/seeded/ (see DESIGN.md section 9.2/9.5). Independent audit of the theorems: /verif/audit/.",
        not_applicable=na,
    )
    json.dump(m, open(os.path.join(HERE, "MANIFEST.json"), "w"), indent=1)
    print("MANIFEST.json: %d checks, %d not_applicable" % (len(checks), len(na)))

if __name__ == "__main__":
    main()

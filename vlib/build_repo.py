#!/usr/bin/env python3
"""Build /repo's *current working tree* (sources compiled in place) into /verif/.build/<variant>/.

No cmake (its build runs dmake, which rewrites files under /repo).  We generate a ninja file that
  * runs tools/matchcompiler.py over every lib/*.cpp exactly as lib/CMakeLists.txt does
    (USE_MATCHCOMPILER=Auto => On for the shipped non-debug configuration),
  * compiles lib (match-compiled), cli, frontend, simplecpp, tinyxml2 with -DDANMAR_CPPCHECK_VERIF,
  * links bin/cppcheck and an archive-free object list (objs.txt) that harnesses link against.
Variants: o1 (default), asan.
"""
import glob, os, subprocess, sys, fcntl, time

REPO = os.environ.get("VERIF_REPO", "/repo")
VERIF = os.path.dirname(os.path.dirname(os.path.abspath(__file__)))
GUARD = "DANMAR_CPPCHECK_VERIF"

VARIANTS = {
    "o1": ["-O1"],
    "asan": ["-O1", "-g", "-fsanitize=address,undefined", "-fno-sanitize-recover=all", "-fno-omit-frame-pointer"],
    "tsan": ["-O1", "-g", "-fsanitize=thread"],
}
LINKFLAGS = {
    "o1": [],
    "asan": ["-fsanitize=address,undefined"],
    "tsan": ["-fsanitize=thread"],
}

def bdir(variant="o1"):
    # VERIF_BUILD_TAG selects a separate object directory (used to evaluate seeded changes in a scratch
    # worktree given by VERIF_REPO without disturbing the builds of /repo)
    tag = os.environ.get("VERIF_BUILD_TAG", "")
    return os.path.join(VERIF, ".build", variant + (("-" + tag) if tag else ""))

INC_LIB = ["lib", "externals", "externals/simplecpp", "externals/tinyxml2", "externals/picojson"]
INC_CLI = ["cli", "lib", "frontend", "externals", "externals/simplecpp", "externals/tinyxml2", "externals/picojson"]

def incflags(dirs):
    return " ".join("-I%s/%s" % (REPO, d) for d in dirs)

def harness_cxxflags(variant="o1"):
    return ["-std=c++17", "-w", "-D" + GUARD, "-DHAVE_BOOST", "-DHAVE_EXECINFO_H=1", "-DNDEBUG"] + VARIANTS[variant] + \
        ["-I%s/%s" % (REPO, d) for d in INC_CLI]

def write_ninja(variant):
    b = bdir(variant)
    os.makedirs(os.path.join(b, "mc"), exist_ok=True)
    os.makedirs(os.path.join(b, "obj"), exist_ok=True)
    os.makedirs(os.path.join(b, "bin"), exist_ok=True)
    cxx = "g++"
    common = "-std=c++11 -w -pipe -D%s -DHAVE_BOOST -DHAVE_EXECINFO_H=1 -DNDEBUG %s" % (GUARD, " ".join(VARIANTS[variant]))
    out = []
    out.append("ninja_required_version = 1.5")
    out.append("builddir = %s" % b)
    out.append("rule cxx\n  command = %s %s $inc -MMD -MF $out.d -c $in -o $out\n  depfile = $out.d\n  deps = gcc\n  description = CXX $out" % (cxx, common))
    out.append("rule mc\n  command = python3 %s/tools/matchcompiler.py --read-dir=%s/lib --write-dir=%s/mc --prefix=mc_ --line $file\n  description = MC $file" % (REPO, REPO, b))
    out.append("rule link\n  command = %s %s -o $out.tmp $in -lpthread && mv -f $out.tmp $out\n  description = LINK $out" % (cxx, " ".join(LINKFLAGS[variant])))
    objs_lib, objs_cli = [], []
    for src in sorted(glob.glob(os.path.join(REPO, "lib", "*.cpp"))):
        base = os.path.basename(src)
        mc = os.path.join(b, "mc", "mc_" + base)
        out.append("build %s: mc %s | %s/tools/matchcompiler.py\n  file = %s" % (mc, src, REPO, base))
        o = os.path.join(b, "obj", "lib_" + base[:-4] + ".o")
        out.append("build %s: cxx %s\n  inc = %s" % (o, mc, incflags(INC_LIB)))
        objs_lib.append(o)
    for d, pre in (("externals/simplecpp", "ext_"), ("externals/tinyxml2", "ext_"), ("frontend", "fe_")):
        for src in sorted(glob.glob(os.path.join(REPO, d, "*.cpp"))):
            base = os.path.basename(src)
            o = os.path.join(b, "obj", pre + base[:-4] + ".o")
            out.append("build %s: cxx %s\n  inc = %s" % (o, src, incflags(INC_CLI)))
            objs_lib.append(o)
    main_o = None
    for src in sorted(glob.glob(os.path.join(REPO, "cli", "*.cpp"))):
        base = os.path.basename(src)
        o = os.path.join(b, "obj", "cli_" + base[:-4] + ".o")
        out.append("build %s: cxx %s\n  inc = %s" % (o, src, incflags(INC_CLI)))
        if base == "main.cpp":
            main_o = o
        else:
            objs_cli.append(o)
    exe = os.path.join(b, "bin", "cppcheck")
    out.append("build %s: link %s %s %s" % (exe, main_o, " ".join(objs_cli), " ".join(objs_lib)))
    out.append("default %s" % exe)
    text = "\n".join(out) + "\n"
    p = os.path.join(b, "build.ninja")
    old = open(p).read() if os.path.exists(p) else None
    if old != text:
        open(p, "w").write(text)
    open(os.path.join(b, "objs_lib.txt"), "w").write("\n".join(objs_lib) + "\n")
    open(os.path.join(b, "objs_cli.txt"), "w").write("\n".join(objs_cli) + "\n")
    for d in ("cfg", "platforms", "addons"):
        l = os.path.join(b, "bin", d)
        if not os.path.islink(l):
            os.symlink(os.path.join(REPO, d), l)
    return b

class Lock:
    def __init__(self, name):
        os.makedirs(os.path.join(VERIF, ".build"), exist_ok=True)
        self.path = os.path.join(VERIF, ".build", name + ".lock")
    def __enter__(self):
        self.f = open(self.path, "w")
        fcntl.flock(self.f, fcntl.LOCK_EX)
        return self
    def __exit__(self, *a):
        fcntl.flock(self.f, fcntl.LOCK_UN)
        self.f.close()

def build(variant="o1", quiet=True):
    """Bring the build up to date.  Returns (ok, log)."""
    with Lock("repo-" + variant):
        b = write_ninja(variant)
        t = time.time()
        r = subprocess.run(["ninja", "-C", b, "-j", str(os.cpu_count() or 8)], stdout=subprocess.PIPE, stderr=subprocess.STDOUT, text=True)
        return r.returncode == 0, r.stdout, time.time() - t

def lib_objs(variant="o1"):
    return open(os.path.join(bdir(variant), "objs_lib.txt")).read().split()

def cli_objs(variant="o1"):
    return open(os.path.join(bdir(variant), "objs_cli.txt")).read().split()

def cppcheck_bin(variant="o1"):
    return os.path.join(bdir(variant), "bin", "cppcheck")

def build_harness(name, variant="o1", with_cli=False, matchcompile=False, extra=(), src=None):
    """Compile /verif/harness/<name>.cpp (or the given source) against the object set of the working tree."""
    src = src or os.path.join(VERIF, "harness", name + ".cpp")
    b = bdir(variant)
    os.makedirs(os.path.join(b, "harness"), exist_ok=True)
    exe = os.path.join(b, "harness", name)
    with Lock("harness-%s-%s" % (variant, name)):
        use = src
        if matchcompile:
            wd = os.path.join(b, "harness", "mc_" + name)
            os.makedirs(wd, exist_ok=True)
            r = subprocess.run(["python3", os.path.join(REPO, "tools", "matchcompiler.py"), "--read-dir=" + os.path.dirname(src),
                                "--write-dir=" + wd, os.path.basename(src)], stdout=subprocess.PIPE, stderr=subprocess.STDOUT, text=True)
            if r.returncode != 0:
                return None, r.stdout
            use = os.path.join(wd, os.path.basename(src))
        objs = lib_objs(variant) + (cli_objs(variant) if with_cli else [])
        newest = max([os.path.getmtime(use)] + [os.path.getmtime(o) for o in objs])
        if os.path.exists(exe) and os.path.getmtime(exe) >= newest:
            return exe, ""
        cmd = ["g++"] + harness_cxxflags(variant) + ["-I" + os.path.join(VERIF, "harness"), use, "-o", exe + ".tmp"] + objs + LINKFLAGS[variant] + ["-lpthread"] + list(extra)
        # hold the repo build lock while linking: another check's ninja run must not rewrite the objects under us
        with Lock("repo-" + variant):
            r = subprocess.run(cmd, stdout=subprocess.PIPE, stderr=subprocess.STDOUT, text=True)
        if r.returncode == 0:
            os.replace(exe + ".tmp", exe)
        if r.returncode != 0:
            return None, r.stdout
        return exe, r.stdout

if __name__ == "__main__":
    v = sys.argv[1] if len(sys.argv) > 1 else "o1"
    ok, log, dt = build(v)
    print(log[-3000:])
    print("build %s: ok=%s %.1fs" % (v, ok, dt))
    sys.exit(0 if ok else 1)

"""Shared machinery of every check: context, proof obligations (lake build + axiom audit),
correspondence runs (harness vs. Lean driver), verdicts, known findings, evidence.

A property module (vlib/props/cNN.py) defines
    ID, LEVEL ("proof" | "other"), DESIGN_REF
    def run(ctx, res): ...            # translators, obligations, correspondence, search
and uses the helpers below.  Nothing here decides a property by sampling: sampling only validates
the model against the implementation and searches for a failing input once an obligation or the
correspondence is broken.
"""
import errno, hashlib, json, os, random, re, shutil, subprocess, sys, tempfile, time

from . import build_repo

VERIF = build_repo.VERIF
REPO = build_repo.REPO
LEAN = os.path.join(VERIF, "lean")
ALLOWED_AXIOMS = {"propext", "Classical.choice", "Quot.sound"}
FORBIDDEN = re.compile(r"\b(sorry|admit|native_decide|bv_decide|implemented_by|unsafe)\b|^\s*axiom\s|maxHeartbeats\s+0\b")

TRUSTED_BASE = [
    "Lean 4.33.0 kernel (lake build); axioms per theorem audited on every run: subset of {propext, Classical.choice, Quot.sound}",
    "no sorry/admit/axiom/native_decide/bv_decide/implemented_by/unsafe (grep on every run)",
    "translators and correspondence harnesses under /verif (python + C++), Lean compiler/leanc for the driver executables (correspondence only)",
    "g++ 12 / libstdc++ building /repo's working tree in place with -DDANMAR_CPPCHECK_VERIF",
]


class CheckBroken(Exception):
    """The machinery itself failed (cannot build harness etc.) — reported as an undischarged obligation."""


def sh(cmd, cwd=None, input=None, timeout=None, env=None):
    e = dict(os.environ)
    if env:
        e.update(env)
    try:
        for attempt in range(40):
            try:
                r = subprocess.run(cmd, cwd=cwd, input=input, stdout=subprocess.PIPE, stderr=subprocess.PIPE, text=True,
                                   timeout=timeout, env=e, errors="replace")
                break
            except OSError as ex:
                # ETXTBSY / ENOENT for a moment while another check relinks the binary under the build lock: wait, do not alarm
                if ex.errno not in (errno.ETXTBSY, errno.ENOENT, errno.EACCES) or attempt == 39:
                    raise
                time.sleep(1.5)
        return r.returncode, r.stdout, r.stderr
    except subprocess.TimeoutExpired as ex:
        return -999, (ex.stdout or b"").decode("latin-1") if isinstance(ex.stdout, bytes) else (ex.stdout or ""), "TIMEOUT"


def hx(b):
    """bytes/str -> wire hex ('-' for empty)"""
    if isinstance(b, str):
        b = b.encode("latin-1")
    return b.hex() if b else "-"


def unhx(s):
    return b"" if s == "-" else bytes.fromhex(s)


class Ctx:
    def __init__(self, prop_id, tier, seed, variant="o1"):
        self.prop_id = prop_id
        self.tier = tier
        self.seed = seed
        self.rng = random.Random((seed * 1000003) ^ int(hashlib.sha256(prop_id.encode()).hexdigest()[:8], 16))
        self.variant = variant
        self.t0 = time.time()
        os.makedirs(os.path.join(VERIF, ".build", "tmp"), exist_ok=True)
        self.tmp = tempfile.mkdtemp(prefix=prop_id + "-", dir=os.path.join(VERIF, ".build", "tmp"))
        self.repo = REPO
        self.repo_built = False
        self.build_log = ""

    # ---- building ------------------------------------------------------------------------
    def build_repo(self, variant=None):
        v = variant or self.variant
        ok, log, dt = build_repo.build(v)
        self.build_log = log
        if not ok:
            raise CheckBroken("build of /repo working tree failed:\n" + log[-4000:])
        self.repo_built = True
        return build_repo.cppcheck_bin(v)

    @property
    def cppcheck(self):
        return build_repo.cppcheck_bin(self.variant)

    def harness(self, name, matchcompile=False, with_cli=False, variant=None):
        exe, log = build_repo.build_harness(name, variant or self.variant, with_cli=with_cli, matchcompile=matchcompile)
        if exe is None:
            raise CheckBroken("harness %s does not compile against the working tree:\n%s" % (name, log[-4000:]))
        return exe

    def lake(self, targets, timeout=3000):
        with build_repo.Lock("lake"):
            rc, out, err = sh(["lake", "build"] + list(targets), cwd=LEAN, timeout=timeout)
        return rc == 0, out + err

    def driver(self, name):
        ok, log = self.lake([name])
        if not ok:
            raise CheckBroken("driver %s does not build:\n%s" % (name, log[-4000:]))
        return os.path.join(LEAN, ".lake", "build", "bin", name)

    def lean_run(self, text, timeout=600):
        """elaborate a scratch Lean file inside the project environment"""
        p = os.path.join(self.tmp, "scratch_%d.lean" % random.getrandbits(32))
        open(p, "w").write(text)
        rc, out, err = sh(["lake", "env", "lean", p], cwd=LEAN, timeout=timeout)
        return rc, out + err

    def gen_path(self, name):
        d = os.path.join(LEAN, "Cppcheck", "Gen")
        os.makedirs(d, exist_ok=True)
        return os.path.join(d, name + ".lean")

    def write_gen(self, name, text):
        """write a generated Lean module only when its content changed (keeps lake incremental)"""
        p = self.gen_path(name)
        old = open(p).read() if os.path.exists(p) else None
        if old != text:
            open(p, "w").write(text)
        return p

    def cleanup(self):
        shutil.rmtree(self.tmp, ignore_errors=True)


def run_lines(exe, args, lines, timeout=600, env=None):
    """pipe op lines into a line-protocol executable, return its output lines"""
    if isinstance(exe, str):
        exe = [exe]
    rc, out, err = sh(exe + list(args), input="\n".join(lines) + "\n", timeout=timeout, env=env)
    outl = out.split("\n")
    if outl and outl[-1] == "":
        outl.pop()
    return rc, outl, err


class Result:
    def __init__(self, ctx, level, design_ref=""):
        self.ctx = ctx
        self.level = level
        self.obligations = []       # dict(name, kind, ok, detail)
        self.evaluations = 0
        self.distinct = set()
        self.nontrivial = set()
        self.samples = []
        self.dist = {}
        self.rules = []
        self.violations = []        # dict(kind, what, replay(dict), concrete(bool), key)
        self.known_printed = []
        self.notes = []
        self.assumptions = []
        self.extra = {}
        self.traces_validated = 0
        self.checker_cmds = []
        self.explanation = ""
        self.trusted = list(TRUSTED_BASE)

    # ---- bookkeeping -----------------------------------------------------------------
    def oblig(self, name, ok, kind="theorem", detail=""):
        self.obligations.append(dict(name=name, kind=kind, ok=bool(ok), detail=detail[-3000:] if detail else ""))
        return ok

    def count(self, key, n=1):
        self.dist[key] = self.dist.get(key, 0) + n

    def case(self, canon, nontrivial=True, sample=None):
        """register one explored case (canonical text) for the evidence counters"""
        self.evaluations += 1
        h = hashlib.sha1(canon.encode("utf-8", "replace")).digest()[:10]
        self.distinct.add(h)
        if nontrivial:
            self.nontrivial.add(h)
        if sample is not None and len(self.samples) < 12:
            self.samples.append(sample)

    def violation(self, what, replay, concrete=True, key=None):
        self.violations.append(dict(what=what, replay=replay, concrete=concrete, key=key))


# ---- proof obligations ---------------------------------------------------------------------

def grep_forbidden(paths):
    bad = []
    for p in paths:
        if not os.path.exists(p):
            continue
        in_block = 0
        for i, line in enumerate(open(p, encoding="utf-8", errors="replace"), 1):
            s = line
            # strip block comments (non-nested approximation, good enough: we fail closed)
            out = ""
            j = 0
            while j < len(s):
                if in_block:
                    k = s.find("-/", j)
                    if k < 0:
                        j = len(s)
                    else:
                        in_block -= 1
                        j = k + 2
                else:
                    k = s.find("/-", j)
                    l = s.find("--", j)
                    if l >= 0 and (k < 0 or l < k):
                        out += s[j:l]
                        j = len(s)
                    elif k >= 0:
                        out += s[j:k]
                        in_block += 1
                        j = k + 2
                    else:
                        out += s[j:]
                        j = len(s)
            # string literals may legitimately contain the words
            out = re.sub(r'"([^"\\]|\\.)*"', '""', out)
            if FORBIDDEN.search(out):
                bad.append("%s:%d: %s" % (p, i, line.strip()))
    return bad


def lean_files_of(modules):
    return [os.path.join(LEAN, *m.split(".")) + ".lean" for m in modules]


def module_closure(modules):
    """project-local import closure of the given modules"""
    seen, todo = [], list(modules)
    while todo:
        m = todo.pop()
        if m in seen:
            continue
        p = os.path.join(LEAN, *m.split(".")) + ".lean"
        if not os.path.exists(p):
            continue
        seen.append(m)
        for line in open(p, encoding="utf-8", errors="replace"):
            mm = re.match(r"\s*(?:public\s+)?import\s+([\w.]+)", line)
            if mm and (mm.group(1).startswith("Cppcheck.") or mm.group(1).startswith("Driver.")):
                todo.append(mm.group(1))
    return seen


def prove(ctx, res, modules, theorems):
    """Build the Lean modules holding the property theorems and audit the axioms of each theorem.
    theorems: list of fully qualified names.  Each theorem is one obligation; a module that does not
    build makes all of its theorems undischarged."""
    t = time.time()
    ok, log = ctx.lake(modules)
    cmd = "cd /verif/lean && lake build %s && lake env lean <audit: #print axioms ...>" % " ".join(modules)
    res.checker_cmds.append(cmd)
    closure = module_closure(modules)
    bad = grep_forbidden(lean_files_of(closure))
    if bad:
        ok = False
        log += "\nforbidden constructs:\n" + "\n".join(bad)
    if not ok:
        for th in theorems:
            res.oblig(th, False, "theorem", "lake build failed:\n" + log[-2500:])
        res.extra["lean_log"] = log[-6000:]
        return False
    text = "".join("import %s\n" % m for m in modules) + "".join("#print axioms %s\n" % th for th in theorems)
    rc, out = ctx.lean_run(text)
    found = {}
    for m in re.finditer(r"'([^']+)' depends on axioms: \[([^\]]*)\]", out.replace("\n", " ")):
        found[m.group(1)] = set(a.strip() for a in m.group(2).split(",") if a.strip())
    for m in re.finditer(r"'([^']+)' does not depend on any axioms", out):
        found[m.group(1)] = set()
    allok = True
    for th in theorems:
        short = th
        ax = found.get(short)
        if ax is None:
            # lean prints the name as written; try suffix match
            for k in found:
                if k.endswith(short) or short.endswith(k):
                    ax = found[k]
        if ax is None:
            res.oblig(th, False, "theorem", "theorem not found by axiom audit:\n" + out[-1500:])
            allok = False
        elif not ax <= ALLOWED_AXIOMS:
            res.oblig(th, False, "theorem", "depends on non-allowed axioms %s" % sorted(ax))
            allok = False
        else:
            res.oblig(th, True, "theorem", "axioms: %s" % sorted(ax))
    res.extra.setdefault("lean_build_s", 0)
    res.extra["lean_build_s"] += round(time.time() - t, 1)
    return allok


# ---- correspondence ------------------------------------------------------------------------

def correspond(ctx, res, name, ops, impl_out, model_out, nontrivial=None, sample_every=None):
    """Compare two output streams line by line.  Returns list of indices that differ.
    Registers every op as a case."""
    n = len(ops)
    mism = []
    if len(impl_out) != n or len(model_out) != n:
        res.oblig("correspondence:" + name, False, "correspondence",
                  "stream length mismatch ops=%d impl=%d model=%d\nimpl tail: %s\nmodel tail: %s" %
                  (n, len(impl_out), len(model_out), impl_out[-3:], model_out[-3:]))
        return None
    for i in range(n):
        nt = True if nontrivial is None else nontrivial(ops[i], impl_out[i])
        samp = None
        if len(res.samples) < 12 and (i % max(1, n // 4) == 0):
            samp = dict(tie=name, op=ops[i], impl=impl_out[i], model=model_out[i])
        res.case(name + "|" + ops[i], nt, samp)
        if impl_out[i] != model_out[i]:
            mism.append(i)
    res.traces_validated += n - len(mism)
    res.oblig("correspondence:" + name, not mism, "correspondence",
              "" if not mism else "%d of %d ops differ; first: op=%s impl=%s model=%s" %
              (len(mism), n, ops[mism[0]], impl_out[mism[0]], model_out[mism[0]]))
    return mism


# ---- verdict -------------------------------------------------------------------------------

def load_known():
    out = []
    p = os.path.join(VERIF, "known_findings.json")
    if os.path.exists(p):
        out += json.load(open(p)).get("entries", [])
    # per-property files (same entry format), so that authors never edit a shared file concurrently
    import glob
    for q in sorted(glob.glob(os.path.join(VERIF, "known_findings.d", "*.json"))):
        out += json.load(open(q)).get("entries", [])
    return out


def write_replay(ctx, payload):
    d = os.path.join(VERIF, "replays")
    os.makedirs(d, exist_ok=True)
    h = hashlib.sha1(json.dumps(payload, sort_keys=True, default=str).encode()).hexdigest()[:12]
    p = os.path.join(d, "%s-%s.json" % (ctx.prop_id, h))
    json.dump(payload, open(p, "w"), indent=1, default=str)
    return p


def finish(ctx, res, rule, explanation=""):
    """Print KNOWN-FINDING / VIOLATION lines, write evidence, return exit code."""
    known = [e for e in load_known() if e.get("property") == ctx.prop_id and e.get("kind") == "finding"]
    known_keys = {e["key"]: e for e in known}
    exit_code = 0
    printed_known = set()
    n_viol = 0
    concrete_new = []
    for v in res.violations:
        if v["concrete"] and v.get("key") in known_keys:
            if v["key"] not in printed_known:
                printed_known.add(v["key"])
                print("KNOWN-FINDING: property=%s %s" % (ctx.prop_id, known_keys[v["key"]]["what"]))
            continue
        if v["concrete"]:
            concrete_new.append(v)
    for v in concrete_new:
        n_viol += 1
        p = write_replay(ctx, dict(property=ctx.prop_id, what=v["what"], seed=ctx.seed, tier=ctx.tier, **v["replay"]))
        print("VIOLATION property=%s replay=%s" % (ctx.prop_id, p))
        print("  " + v["what"][:600])
        exit_code = 1
    undischarged = [o for o in res.obligations if not o["ok"]]
    if undischarged and not concrete_new:
        # the property is no longer shown to hold, and no failing input was found
        n_viol += 1
        p = write_replay(ctx, dict(property=ctx.prop_id, no_failing_input_found=True,
                                    undischarged=undischarged, seed=ctx.seed, tier=ctx.tier,
                                    note="these theorems / translators / correspondences no longer check; the violation search found no concrete failing input"))
        print("VIOLATION property=%s replay=%s no-failing-input-found" % (ctx.prop_id, p))
        for o in undischarged[:5]:
            print("  undischarged: %s (%s) %s" % (o["name"], o["kind"], o["detail"][:400].replace("\n", " | ")))
        exit_code = 1
    elif undischarged:
        for o in undischarged[:5]:
            print("  undischarged: %s (%s) %s" % (o["name"], o["kind"], o["detail"][:300].replace("\n", " | ")))
    nob = len(res.obligations)
    ndis = sum(1 for o in res.obligations if o["ok"])
    cov = dict(
        obligations=nob, discharged=ndis,
        checker_cmd="; ".join(dict.fromkeys(res.checker_cmds)) or "n/a",
        trusted_base=res.trusted,
        evaluations=res.evaluations,
        distinct_nontrivial=len(res.nontrivial),
        distinct=len(res.distinct),
        rule=rule,
        samples=res.samples[:12] if res.samples else [dict(note="no sampled case in this run")],
        traces_validated_against_impl=res.traces_validated,
        input_distribution=res.dist,
        obligation_list=[dict(name=o["name"], kind=o["kind"], ok=o["ok"]) for o in res.obligations],
        known_findings_seen=sorted(printed_known),
        explanation=explanation or res.explanation or "see DESIGN.md",
    )
    cov.update(res.extra)
    # schema: `exhaustive` is a plain boolean; keep any richer description next to it
    if "exhaustive" in cov and not isinstance(cov["exhaustive"], bool):
        cov["exhaustive_detail"] = cov["exhaustive"]
        v = cov["exhaustive"]
        cov["exhaustive"] = bool(v.get("value")) if isinstance(v, dict) else bool(v)
    for k in ("evaluations", "distinct_nontrivial", "obligations", "discharged", "traces_validated_against_impl", "states", "transitions", "programs", "disagreements_checked"):
        if k in cov and not isinstance(cov[k], int):
            cov[k + "_detail"] = cov[k]
            try:
                cov[k] = int(cov[k])
            except Exception:
                del cov[k]
    for k in ("checker_cmd", "rule", "explanation"):
        if k in cov and not isinstance(cov[k], str):
            cov[k] = json.dumps(cov[k], default=str)
    if "trusted_base" in cov and not (isinstance(cov["trusted_base"], list) and all(isinstance(x, str) for x in cov["trusted_base"])):
        cov["trusted_base"] = [str(x) for x in (cov["trusted_base"] if isinstance(cov["trusted_base"], list) else [cov["trusted_base"]])]
    ev = dict(property_id=ctx.prop_id, tier=ctx.tier, seed=ctx.seed, level=res.level, coverage=cov,
              assumptions=res.assumptions, wall_s=round(time.time() - ctx.t0, 2), violations=n_viol)
    # a run against another tree than /repo (VERIF_REPO: evaluation of a seeded change in a scratch worktree) must not
    # overwrite the evidence of /repo itself
    evdir = os.path.join(VERIF, "evidence") if not os.environ.get("VERIF_REPO") else os.path.join(VERIF, ".build", "evidence-" + os.environ.get("VERIF_BUILD_TAG", "other"))
    os.makedirs(evdir, exist_ok=True)
    json.dump(ev, open(os.path.join(evdir, ctx.prop_id + ".json"), "w"), indent=1, default=str)
    print("%s tier=%s seed=%d obligations=%d/%d evaluations=%d distinct_nontrivial=%d violations=%d wall=%.1fs" %
          (ctx.prop_id, ctx.tier, ctx.seed, ndis, nob, res.evaluations, len(res.nontrivial), n_viol, time.time() - ctx.t0))
    return exit_code

"""C36 — the HTML report lists every reported finding.

theorems   Cppcheck.Html.index_rows_perm (every finding exactly once in the index, any results file),
           row_file, row_message_escaped, escape_no_markup, unescape_escape, css_no_markup
C1         the real htmlreport/cppcheck-htmlreport is run on generated version-2 result files (+ source trees with
           readable / missing / undecodable files); every finding row and file row of index.html and the menu of every
           per-file page must equal, character for character, what the Lean model computes
P_impl     independent of the model: index.html / N.html parsed with html.parser; the multiset of (file, line, id,
           severity, message) recovered from the index equals the findings of the results file; per-file pages carry one
           annotation per location that lies inside the file
"""
import os, re, sys, time, html, subprocess, shutil
from html.parser import HTMLParser
from xml.sax.saxutils import quoteattr
from .. import core

ID = "C36"
LEVEL = "proof"
RULE = ("one case = one results file (1..12 findings, 0..3 locations each, hostile characters in every field, files readable / "
        "missing / undecodable / starred) + source tree; non-trivial = >= 2 findings and at least one field with an HTML special character")
EXPLANATION = ("Lean: index rows are a permutation of the findings for every results file; escaping is lossless and markup-free. "
               "Tie: character-exact comparison of the real script's index rows, file rows and page menus with the model. "
               "Outside the model: pygments highlighting of the source text, statistics page, git blame columns, version-1 files.")
THEOREMS = ["Cppcheck.Html.index_rows_perm", "Cppcheck.Html.row_file", "Cppcheck.Html.row_message_escaped",
            "Cppcheck.Html.escape_no_markup", "Cppcheck.Html.unescape_escape", "Cppcheck.Html.css_no_markup"]
MODULES = ["Cppcheck.Props.C36"]
SCRIPT = os.path.join(core.REPO, "htmlreport", "cppcheck-htmlreport")

ALPHA = list("abcXYZ019 _-./") + ["<", ">", "&", '"', "'", "é", "中", "{", "}", "%", "<b>", "</td>", "&lt;", "&amp;", "<script>", "*"]
IDS = ["nullPointer", "arrayIndexOutOfBounds", "misra-c2012-10.4", "clang-tidy-foo", "9lives", "-x", "--y", "a<b>", 'q"r', "x&y", "unmatchedSuppression", "é"]
SEVS = ["error", "warning", "style", "performance", "portability", "information", 'we"ird', "a<b"]
FILES = ["a.c", "dir/b.cpp", "missing.c", "bad utf.c", "x<i>.c", "star*", "q&a.h", "é.c", "sub/dir/c.c"]


def rstr(rng, lo=0, hi=8):
    return "".join(rng.choice(ALPHA) for _ in range(rng.randint(lo, hi)))


def gen_case(rng):
    n = rng.choice([1, 2, 3, 4, 6, 9, 12])
    errs = []
    use_cls = rng.random() < 0.2
    for _ in range(n):
        e = dict(id=rng.choice(IDS) if rng.random() < 0.8 else (rstr(rng, 1, 6) or "x"),
                 sev=rng.choice(SEVS[:6]) if rng.random() < 0.85 else rng.choice(SEVS),
                 msg=rstr(rng, 0, 14), verbose=None, inconclusive=None, cwe=None, cls="", guideline="", locs=[])
        if rng.random() < 0.6:
            e["verbose"] = e["msg"] if rng.random() < 0.5 else rstr(rng, 0, 20)
        if rng.random() < 0.25:
            e["inconclusive"] = rng.choice(["true", "true", "false"])
        if rng.random() < 0.3:
            e["cwe"] = rng.choice(["476", "788", "", "1<2"])
        if use_cls and rng.random() < 0.7:
            e["cls"] = rng.choice(["Mandatory", "Required", "Advisory", "L1", "odd<"])
            e["guideline"] = rng.choice(["10.4", "Rule 1", ""])
        for _ in range(rng.choice([0, 1, 1, 1, 2, 3])):
            e["locs"].append(dict(file=rng.choice(FILES) if rng.random() < 0.9 else "", line=rng.choice([0, 1, 2, 3, 5, 7, 40]),
                                  info=None if rng.random() < 0.6 else rstr(rng, 0, 8)))
        errs.append(e)
    # twins: distinct findings sharing id / file / line (e.g. uninitvar for a and b on `return a + b;`, two
    # unmatchedSuppression at `*`:0, two location-less findings of one id) — each must still be listed on its own
    for _ in range(rng.choice([0, 1, 1, 2])):
        src = rng.choice(errs)
        t = dict(src, locs=[dict(l) for l in src["locs"]])
        k = rng.random()
        if k < 0.6:
            t["msg"] = src["msg"] + rng.choice([" b", "2", "<x>"])       # same place and id, other message
        elif k < 0.8:
            t["sev"] = rng.choice(SEVS[:6])                               # same place, id and message, other severity
        elif t["locs"]:
            t["locs"][0]["line"] = src["locs"][0]["line"] + 1             # same id and message, next line
        if t["verbose"] is not None:
            t["verbose"] = t["msg"]
        errs.insert(rng.randrange(len(errs) + 1), t)
    return errs


def xml_of(errs):
    out = ['<?xml version="1.0" encoding="UTF-8"?>', '<results version="2">', '    <cppcheck version="2.19 dev"/>', "    <errors>"]
    for e in errs:
        a = 'id=%s severity=%s msg=%s' % (quoteattr(e["id"]), quoteattr(e["sev"]), quoteattr(e["msg"]))
        if e["verbose"] is not None:
            a += " verbose=%s" % quoteattr(e["verbose"])
        if e["inconclusive"] is not None:
            a += " inconclusive=%s" % quoteattr(e["inconclusive"])
        if e["cwe"] is not None:
            a += " cwe=%s" % quoteattr(e["cwe"])
        if e["cls"]:
            a += " classification=%s guideline=%s" % (quoteattr(e["cls"]), quoteattr(e["guideline"]))
        out.append("        <error %s>" % a)
        for l in e["locs"]:
            la = "file=%s line=\"%d\" column=\"1\"" % (quoteattr(l["file"]), l["line"])
            if l["info"] is not None:
                la += " info=%s" % quoteattr(l["info"])
            out.append("            <location %s/>" % la)
        out.append("        </error>")
    out += ["    </errors>", "</results>"]
    return "\n".join(out) + "\n"


def u8(s):
    return s.encode("utf-8").hex() if s else "-"


def opt(s):
    return "~" if s is None else u8(s)


def op_of(errs, ts, decode_files):
    f = ["report", u8(ts), str(len(errs))]
    for e in errs:
        f += [u8(e["id"]), u8(e["sev"]), u8(e["msg"]), opt(e["verbose"]), opt(e["inconclusive"]), opt(e["cwe"]), u8(e["cls"]), u8(e["guideline"]), str(len(e["locs"]))]
        for l in e["locs"]:
            f += [u8(l["file"]), str(l["line"]), opt(l["info"])]
    f += [u8(d) for d in decode_files]
    return " ".join(f)


SRC = "int main(void)\n{\n  int a[1];\n  a[1] = 0; /* <b> & \"q\" */\n  return 0;\n}\n// last\n"   # 7 lines


def make_tree(d, errs):
    """source tree: a.c, dir/b.cpp, q&a.h, é.c, sub/dir/c.c, x<i>.c readable; 'bad utf.c' undecodable; missing.c, star* absent"""
    decode = []
    files = set(l["file"] for e in errs for l in e["locs"])
    for f in files:
        if f in ("missing.c", "star*", ""):
            continue
        p = os.path.join(d, f)
        os.makedirs(os.path.dirname(p) or d, exist_ok=True)
        if f == "bad utf.c":
            open(p, "wb").write(b"int x; /* \xff\xfe */\n")
        else:
            open(p, "w", encoding="utf-8").write(SRC)
    # decode_errors: only files that are the FIRST location of some finding get a page
    for e in errs:
        if e["locs"] and e["locs"][0]["file"] == "bad utf.c" and "bad utf.c" not in decode:
            decode.append("bad utf.c")
    return decode


class IndexParser(HTMLParser):
    """independent reading of index.html: rows of the summary table"""
    def __init__(self):
        super().__init__(convert_charrefs=True)
        self.in_table = False
        self.rows = []
        self.cur = None
        self.cell = None
        self.curfile = None

    def handle_starttag(self, tag, attrs):
        a = dict(attrs)
        if tag == "table" and a.get("class") == "summaryTable":
            self.in_table = True
        if not self.in_table:
            return
        if tag == "tr":
            self.cur = dict(cls=a.get("class"), cells=[], colspan=False)
        elif tag in ("td", "th") and self.cur is not None:
            self.cell = ""
            if a.get("colspan"):
                self.cur["colspan"] = True

    def handle_endtag(self, tag):
        if not self.in_table:
            return
        if tag in ("td", "th") and self.cur is not None and self.cell is not None:
            self.cur["cells"].append(self.cell)
            self.cell = None
        elif tag == "tr" and self.cur is not None:
            self.rows.append(self.cur)
            self.cur = None
        elif tag == "table":
            self.in_table = False

    def handle_data(self, data):
        if self.cell is not None:
            self.cell += data


def p_impl(errs, outdir, decode):
    """every finding exactly once in the index with file, line, id, severity and message (as an HTML parser reads them)"""
    p = IndexParser()
    p.feed(open(os.path.join(outdir, "index.html"), encoding="utf-8").read())
    got = []
    curfile = None
    report_type = any(e["cls"] for e in errs)
    for r in p.rows:
        if r["colspan"]:
            if r["cells"] and not r["cells"][0].startswith("Could not generated"):
                curfile = r["cells"][0]
            continue
        if r["cls"] is None or not r["cls"].endswith(" issue"):
            continue
        c = r["cells"]
        # line, id, cwe, [severity], [classification, guideline], message, timestamp
        got.append((curfile, c[0], c[1], c[-2]))
    want = []
    for e in errs:
        f = e["locs"][0]["file"] if e["locs"] else ""
        line = e["locs"][0]["line"] if e["locs"] else 0
        is_file = f != "" and f not in decode and not f.endswith("*")
        want.append((f, str(line) if is_file else "", e["id"], e["msg"]))
    if sorted(got) != sorted(want):
        missing = [w for w in want if w not in got]
        extra = [g for g in got if g not in want]
        return "index rows differ from the findings: missing=%r unexpected=%r" % (missing[:2], extra[:2])
    # severities appear (when not a classification report)
    if not report_type:
        sevs = sorted((r["cells"][3] if len(r["cells"]) > 5 else "") for r in p.rows if r["cls"] and r["cls"].endswith(" issue"))
        wants = sorted((e["sev"] + (", inconcl." if e["inconclusive"] == "true" else "")) for e in errs)
        if sevs != wants:
            return "severity column differs: got=%r want=%r" % (sevs[:4], wants[:4])
    return None


def run_script(ctx, d, errs):
    xmlp = os.path.join(d, "r.xml")
    open(xmlp, "w", encoding="utf-8").write(xml_of(errs))
    ts = time.ctime(os.path.getmtime(xmlp))
    out = os.path.join(d, "out")
    rc, so, se = core.sh([sys.executable, SCRIPT, "--file", "r.xml", "--report-dir", "out", "--source-dir", "."], cwd=d, timeout=120)
    return rc, so, se, ts, out


ROW_RE = re.compile(r"^         (<tr class=.*</tr>)$")
FILE_RE = re.compile(r"^       (<tr><td colspan=\"6\">(?!Could not generated).*</td></tr>)$")


def impl_lines(outdir, errs):
    parts = []
    in_table = False
    for line in open(os.path.join(outdir, "index.html"), encoding="utf-8").read().split("\n"):
        if 'class="summaryTable"' in line:
            in_table = True
        if not in_table:
            continue
        m = ROW_RE.match(line)
        if m:
            parts.append("R:" + u8(m.group(1)))
            continue
        m = FILE_RE.match(line)
        if m:
            parts.append("G:" + u8(m.group(1)))
    return parts


def menus(outdir):
    res = {}
    for f in sorted(os.listdir(outdir)):
        m = re.match(r"^(\d+)\.html$", f)
        if not m:
            continue
        t = open(os.path.join(outdir, f), encoding="utf-8").read()
        mm = re.search(r'<p><a href="index.html">Defects:</a> .*?</p>\n(.*?)\n    </div>\n    <div id="content">', t, re.S)
        res[int(m.group(1))] = mm.group(1) if mm else None
    return res


def prepare_case(ctx, errs, k):
    """create the source tree and run the real script (thread-safe: own directory per case)"""
    d = os.path.join(ctx.tmp, "case%d" % k)
    os.makedirs(d, exist_ok=True)
    decode = make_tree(d, errs)
    return (d, decode) + run_script(ctx, d, errs)


def one_case(ctx, res, drv, errs, name, k, prepared=None):
    d, decode, rc, so, se, ts, out = prepared or prepare_case(ctx, errs, k)
    desc = dict(findings=[dict(id=e["id"], sev=e["sev"], msg=e["msg"], locs=[(l["file"], l["line"]) for l in e["locs"]]) for e in errs])
    if rc != 0 or not os.path.exists(os.path.join(out, "index.html")):
        res.violation("cppcheck-htmlreport failed (rc=%s) on a valid version-2 results file: %s" % (rc, (se or so)[-300:]),
                      dict(errors=errs, stderr=se[-2000:]), concrete=True, key=None)
        shutil.rmtree(d, ignore_errors=True)
        return None
    impl = impl_lines(out, errs)
    pm = menus(out)
    op = op_of(errs, ts, decode)
    rc2, mo, me = core.run_lines(drv, [], [op])
    model = mo[0].split(" ") if mo else ["<no output>"]
    model_rows = [x for x in model if x[:2] in ("R:", "G:")]
    model_menus = {}
    for x in model:
        if x.startswith("M:"):
            _, no, h = x.split(":")
            model_menus[int(no)] = "" if h == "-" else bytes.fromhex(h).decode("utf-8")
    ok_rows = impl == model_rows
    ok_menu = all(pm[n] == model_menus.get(n) for n in pm)
    hostile = any(ch in (e["id"] + e["msg"] + e["sev"] + "".join(l["file"] for l in e["locs"])) for e in errs for ch in "<>&\"'")
    res.case(name + "|" + op, len(errs) >= 2 and hostile, desc if k % 7 == 0 else None)
    res.count("findings:%d" % len(errs))
    res.count("hostile" if hostile else "plain")
    if ok_rows and ok_menu:
        res.traces_validated += 1
    pi = p_impl(errs, out, decode)
    if pi:
        res.violation("htmlreport index does not list every finding exactly once with its fields: " + pi,
                      dict(errors=errs, detail=pi), concrete=True, key=None)
    # per-file pages: one annotation per location inside the file, message escaped
    for n, menu in pm.items():
        t = open(os.path.join(out, "%d.html" % n), encoding="utf-8").read()
        body = t.split('<div id="content">', 1)[1] if '<div id="content">' in t else t
        if re.search(r"<script|<b>|<i>", body):
            # the only tags inside the content are pygments' and the annotation spans; a raw injected tag is a violation
            res.violation("per-file page %d.html contains markup injected from a finding" % n, dict(errors=errs, page=n), concrete=True, key=None)
    shutil.rmtree(d, ignore_errors=True)
    return (ok_rows and ok_menu), dict(impl=impl[:3], model=model_rows[:3], menus_impl=pm, menus_model=model_menus)


def run(ctx, res):
    core.prove(ctx, res, MODULES, THEOREMS)
    drv = ctx.driver("drv_c36")
    rng = ctx.rng
    n = 150 if ctx.tier == "thorough" else 12
    bad = []
    cases = load_corpus() + [gen_case(rng) for _ in range(n)]
    from concurrent.futures import ThreadPoolExecutor
    with ThreadPoolExecutor(max_workers=8) as ex:
        prepared = list(ex.map(lambda ke: prepare_case(ctx, ke[1], ke[0]), list(enumerate(cases))))
    for k, errs in enumerate(cases):
        r = one_case(ctx, res, drv, errs, "index", k, prepared[k])
        if r is not None and not r[0]:
            bad.append((errs, r[1]))
    res.oblig("correspondence:index-rows-and-menus", not bad, "correspondence",
              "" if not bad else "%d of %d result files: rows/menus differ; first: %s" % (len(bad), len(cases), str(bad[0][1])[:1500]))
    # escape function on its own (python's escape == model)
    from xml.sax.saxutils import escape
    ops, impl = [], []
    for _ in range(300):
        s = rstr(rng, 0, 12)
        ops.append("escape " + u8(s))
        e = escape(s, {'"': "&quot;", "'": "&apos;"})
        impl.append(u8(e) + " " + u8(html.unescape(e)))
    rc, mo, me = core.run_lines(drv, [], ops)
    core.correspond(ctx, res, "html_escape", ops, impl, mo)
    # the table the model copies is the one in the script (translator check, fail closed)
    src = open(SCRIPT, encoding="utf-8").read()
    m = re.search(r"html_escape_table = \{\n\s*'\"': \"&quot;\",\n\s*\"'\": \"&apos;\"\n\}", src)
    res.oblig("T:html_escape_table", bool(m) and "return escape(text, html_escape_table)" in src, "translation",
              "" if m else "html_escape_table in the script no longer has the shape the model copies")


def load_corpus():
    import json
    p = os.path.join(core.VERIF, "corpus", "C36", "cases.json")
    return json.load(open(p)) if os.path.exists(p) else []


def replay(ctx, res, rp):
    drv = ctx.driver("drv_c36")
    r = one_case(ctx, res, drv, rp["errors"], "replay", 0)
    for v in res.violations:
        print("VIOLATION property=C36 replay=(replayed) " + v["what"][:300])
    return 1 if res.violations or (r is not None and not r[0]) else 0

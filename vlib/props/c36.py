"""C36 — the HTML report lists every reported finding.

theorems   Cppcheck.Html.* (Props/C36.lean): index_rows_perm (every finding exactly once in the index, any results file), row_file,
           the columns of a row (row_id_cell, row_cwe_cell, row_line_cell, row_severity_cell, row_classification_cells,
           row_message_cell + counterexamples), the per-file pages (page_entries, page_lists_every_finding,
           page_exactly_once_counterexample / _partial, annot_shows_message, page_annotations_in_order + counterexamples),
           injection freedom of every piece of output (row / fileRow / menu / annot _injection_free, dynamic_ok,
           wellEscaped_no_markup), escape_no_markup, unescape_escape, css_no_markup
C1         the real htmlreport/cppcheck-htmlreport is run on generated version-2 result files (+ source trees with
           readable / missing / undecodable files); every finding row and file row of index.html, the menu of every per-file
           page and the annotation text behind every source line of every page must equal, character for character, what the
           Lean model computes
P_impl     independent of the model: index.html / N.html parsed with html.parser; the multiset of (file, line, id,
           severity, message) recovered from the index equals the findings of the results file; per-file pages carry one menu
           entry and one annotation per finding; deviations of the known classes carry their finding key, everything else is a
           violation
"""
import os, re, sys, time, html, json, subprocess, shutil
from html.parser import HTMLParser
from xml.sax.saxutils import quoteattr
from .. import core

ID = "C36"
LEVEL = "proof"
RULE = ("one case = one results file (1..12 findings, 0..3 locations each, hostile characters in every field, files readable / "
        "missing / undecodable / starred, lines 0..beyond the end of the source, inconclusive true/false, classifications, cwe, "
        "location infos, verbose texts with \\012) + source tree; non-trivial = >= 2 findings and at least one field with an HTML special character")
EXPLANATION = ("Lean (proved): INDEX - the rows are a permutation of the findings for every results file (no hypothesis on the sources); "
               "each row sits under its file and carries the escaped id, cwe, message; the line when the source is decodable (not for "
               "undecodable / starred files: finding F36c); the severity unless some finding of the file has a classification (then no "
               "row shows a severity: finding F36b). PER-FILE PAGES - every finding with a location is listed on the page of its file, "
               "once PER LOCATION in that file, not once per finding (finding F36a; exactly once when each finding has one location "
               "there); each entry is annotated behind its source line with its escaped message, once and in order when the texts have no "
               "newline of their own (finding F36e for \\012 in verbose), unless inconclusive is present and not 'true' (finding F36d) or "
               "the line is not a line of the source. ESCAPING - every piece of every row, file row, menu and annotation is a fixed "
               "template literal, the time stamp, or an html_escape'd / to_css_selector'ed / decimal value, and those contain no markup. "
               "Tie: character-exact comparison of the real script's index rows, file rows, page menus and line annotations with the "
               "model. Outside the model: pygments' highlighting of the source text itself, whether a page is generated (readability of "
               "the source is an input of the model), statistics page, git blame columns, version-1 files, remote source dirs.")
THEOREMS = ["Cppcheck.Html.index_rows_perm", "Cppcheck.Html.row_file",
            "Cppcheck.Html.row_id_cell", "Cppcheck.Html.row_cwe_cell", "Cppcheck.Html.row_line_cell", "Cppcheck.Html.row_line_cell_nofile",
            "Cppcheck.Html.row_line_undecodable_counterexample", "Cppcheck.Html.row_severity_cell", "Cppcheck.Html.row_classification_cells",
            "Cppcheck.Html.row_severity_classification_counterexample", "Cppcheck.Html.row_cells_length", "Cppcheck.Html.row_message_cell",
            "Cppcheck.Html.page_entries", "Cppcheck.Html.menu_entries_perm", "Cppcheck.Html.page_lists_every_finding",
            "Cppcheck.Html.page_exactly_once_counterexample", "Cppcheck.Html.page_exactly_once_partial",
            "Cppcheck.Html.annot_shows_message", "Cppcheck.Html.annot_missing_counterexample", "Cppcheck.Html.lineAnnot_single",
            "Cppcheck.Html.lineAnnot_none", "Cppcheck.Html.page_annotations_in_order", "Cppcheck.Html.page_annotations_counterexample",
            "Cppcheck.Html.row_injection_free", "Cppcheck.Html.fileRow_injection_free", "Cppcheck.Html.menu_injection_free",
            "Cppcheck.Html.annot_injection_free", "Cppcheck.Html.dynamic_ok", "Cppcheck.Html.wellEscaped_no_markup",
            "Cppcheck.Html.escape_no_markup", "Cppcheck.Html.unescape_escape", "Cppcheck.Html.css_no_markup"]
MODULES = ["Cppcheck.Props.C36"]
SCRIPT = os.path.join(core.REPO, "htmlreport", "cppcheck-htmlreport")
ASSUMPTIONS = [
    "whether a per-file page exists (source readable and decodable) and the number of its source lines are inputs of the model",
    "the highlighted source line itself (pygments) is a parameter of annotateLine; the tie compares the text from the first annotation "
    "marker of a line to its last newline",
    "the HTML parser used by P_impl (python html.parser) decodes the five entities html_escape emits like a browser does",
]
NLINES = 7

ALPHA = list("abcXYZ019 _-./") + ["<", ">", "&", '"', "'", "é", "中", "{", "}", "%", "<b>", "</td>", "&lt;", "&amp;", "<script>", "*"]
IDS = ["nullPointer", "arrayIndexOutOfBounds", "misra-c2012-10.4", "clang-tidy-foo", "9lives", "-x", "--y", "a<b>", 'q"r', "x&y", "unmatchedSuppression", "é"]
SEVS = ["error", "warning", "style", "performance", "portability", "information", 'we"ird', "a<b"]
FILES = ["a.c", "dir/b.cpp", "missing.c", "bad utf.c", "x<i>.c", "star*", "q&a.h", "é.c", "sub/dir/c.c"]


def rstr(rng, lo=0, hi=8):
    return "".join(rng.choice(ALPHA) for _ in range(rng.randint(lo, hi)))


def gen_case(rng):
    n = rng.choice([1, 2, 3, 4, 6, 9, 12])
    errs = []
    use_cls = rng.random() < 0.2
    for _ in range(n):
        e = dict(id=rng.choice(IDS) if rng.random() < 0.8 else (rstr(rng, 1, 6) or "x"),
                 sev=rng.choice(SEVS[:6]) if rng.random() < 0.85 else rng.choice(SEVS),
                 msg=rstr(rng, 0, 14), verbose=None, inconclusive=None, cwe=None, cls="", guideline="", locs=[])
        if rng.random() < 0.6:
            k = rng.random()
            e["verbose"] = e["msg"] if k < 0.45 else (rstr(rng, 0, 20) if k < 0.85 else rstr(rng, 1, 6) + "\\012" + rstr(rng, 0, 6))
        if rng.random() < 0.25:
            e["inconclusive"] = rng.choice(["true", "true", "false"])
        if rng.random() < 0.3:
            e["cwe"] = rng.choice(["476", "788", "", "1<2"])
        if use_cls and rng.random() < 0.7:
            e["cls"] = rng.choice(["Mandatory", "Required", "Advisory", "L1", "odd<"])
            e["guideline"] = rng.choice(["10.4", "Rule 1", ""])
        for j in range(rng.choice([0, 1, 1, 1, 2, 3])):
            f = rng.choice(FILES) if rng.random() < 0.9 else ""
            if j > 0 and rng.random() < 0.45:
                f = e["locs"][0]["file"]                    # a further location in the same file: a second entry on its page
            k = rng.random()
            e["locs"].append(dict(file=f, line=rng.choice([0, 1, 2, 3, 3, 5, 7, 40]),
                                  info=None if k < 0.5 else ("" if k < 0.6 else rstr(rng, 0, 8))))
        errs.append(e)
    # twins: distinct findings sharing id / file / line (e.g. uninitvar for a and b on `return a + b;`, two
    # unmatchedSuppression at `*`:0, two location-less findings of one id) — each must still be listed on its own
    for _ in range(rng.choice([0, 1, 1, 2])):
        src = rng.choice(errs)
        t = dict(src, locs=[dict(l) for l in src["locs"]])
        k = rng.random()
        if k < 0.6:
            t["msg"] = src["msg"] + rng.choice([" b", "2", "<x>"])       # same place and id, other message
        elif k < 0.8:
            t["sev"] = rng.choice(SEVS[:6])                               # same place, id and message, other severity
        elif t["locs"]:
            t["locs"][0]["line"] = src["locs"][0]["line"] + 1             # same id and message, next line
        if t["verbose"] is not None:
            t["verbose"] = t["msg"]
        errs.insert(rng.randrange(len(errs) + 1), t)
    return errs


def xml_of(errs):
    out = ['<?xml version="1.0" encoding="UTF-8"?>', '<results version="2">', '    <cppcheck version="2.19 dev"/>', "    <errors>"]
    for e in errs:
        a = 'id=%s severity=%s msg=%s' % (quoteattr(e["id"]), quoteattr(e["sev"]), quoteattr(e["msg"]))
        if e["verbose"] is not None:
            a += " verbose=%s" % quoteattr(e["verbose"])
        if e["inconclusive"] is not None:
            a += " inconclusive=%s" % quoteattr(e["inconclusive"])
        if e["cwe"] is not None:
            a += " cwe=%s" % quoteattr(e["cwe"])
        if e["cls"]:
            a += " classification=%s guideline=%s" % (quoteattr(e["cls"]), quoteattr(e["guideline"]))
        out.append("        <error %s>" % a)
        for l in e["locs"]:
            la = "file=%s line=\"%d\" column=\"1\"" % (quoteattr(l["file"]), l["line"])
            if l["info"] is not None:
                la += " info=%s" % quoteattr(l["info"])
            out.append("            <location %s/>" % la)
        out.append("        </error>")
    out += ["    </errors>", "</results>"]
    return "\n".join(out) + "\n"


def u8(s):
    return s.encode("utf-8").hex() if s else "-"


def opt(s):
    return "~" if s is None else u8(s)


def op_of(errs, ts, decode_files):
    f = ["report", u8(ts), str(NLINES), str(len(errs))]
    for e in errs:
        f += [u8(e["id"]), u8(e["sev"]), u8(e["msg"]), opt(e["verbose"]), opt(e["inconclusive"]), opt(e["cwe"]), u8(e["cls"]), u8(e["guideline"]), str(len(e["locs"]))]
        for l in e["locs"]:
            f += [u8(l["file"]), str(l["line"]), opt(l["info"])]
    f += [u8(d) for d in decode_files]
    return " ".join(f)


SRC = "int main(void)\n{\n  int a[1];\n  a[1] = 0; /* <b> & \"q\" */\n  return 0;\n}\n// last\n"   # NLINES lines
UNREADABLE = ("missing.c", "star*", "")


def make_tree(d, errs):
    """source tree: a.c, dir/b.cpp, q&a.h, é.c, sub/dir/c.c, x<i>.c readable; 'bad utf.c' undecodable; missing.c, star* absent"""
    decode = []
    files = set(l["file"] for e in errs for l in e["locs"])
    for f in files:
        if f in UNREADABLE:
            continue
        p = os.path.join(d, f)
        os.makedirs(os.path.dirname(p) or d, exist_ok=True)
        if f == "bad utf.c":
            open(p, "wb").write(b"int x; /* \xff\xfe */\n")
        else:
            open(p, "w", encoding="utf-8").write(SRC)
    # decode_errors: only files that are the FIRST location of some finding get a page
    for e in errs:
        if e["locs"] and e["locs"][0]["file"] == "bad utf.c" and "bad utf.c" not in decode:
            decode.append("bad utf.c")
    return decode


class IndexParser(HTMLParser):
    """independent reading of index.html: rows of the summary table"""
    def __init__(self):
        super().__init__(convert_charrefs=True)
        self.in_table = False
        self.rows = []
        self.cur = None
        self.cell = None
        self.curfile = None

    def handle_starttag(self, tag, attrs):
        a = dict(attrs)
        if tag == "table" and a.get("class") == "summaryTable":
            self.in_table = True
        if not self.in_table:
            return
        if tag == "tr":
            self.cur = dict(cls=a.get("class"), cells=[], colspan=False)
        elif tag in ("td", "th") and self.cur is not None:
            self.cell = ""
            if a.get("colspan"):
                self.cur["colspan"] = True

    def handle_endtag(self, tag):
        if not self.in_table:
            return
        if tag in ("td", "th") and self.cur is not None and self.cell is not None:
            self.cur["cells"].append(self.cell)
            self.cell = None
        elif tag == "tr" and self.cur is not None:
            self.rows.append(self.cur)
            self.cur = None
        elif tag == "table":
            self.in_table = False

    def handle_data(self, data):
        if self.cell is not None:
            self.cell += data


class PageParser(HTMLParser):
    """independent reading of a per-file page: menu entries (id, line) and the messages of the annotations"""
    def __init__(self):
        super().__init__(convert_charrefs=True)
        self.div = []           # stack of div ids / classes
        self.menu = []
        self.annots = []
        self.a = None
        self.span = None        # [depth, text] of the annotation span being read
        self.in_menu = False

    def handle_starttag(self, tag, attrs):
        a = dict(attrs)
        if tag == "div":
            self.div.append(a.get("id") or a.get("class") or "")
            self.in_menu = "menu" in self.div
        elif tag == "a" and self.in_menu and "#line-" in (a.get("href") or ""):
            self.a = ""
        elif tag == "span":
            if self.span is not None:
                self.span[0] += 1
            elif a.get("class") in ("error2", "inconclusive2"):
                self.span = [1, ""]

    def handle_endtag(self, tag):
        if tag == "div" and self.div:
            self.div.pop()
            self.in_menu = "menu" in self.div
        elif tag == "a" and self.a is not None:
            t = self.a.strip()
            i, _, ln = t.rpartition(" ")
            self.menu.append((i, ln))
            self.a = None
        elif tag == "span" and self.span is not None:
            self.span[0] -= 1
            if self.span[0] == 0:
                t = self.span[1]
                if t.endswith(" [+]"):
                    t = t[:-4]
                self.annots.append(t[5:] if t.startswith("<--- ") else "?" + t)
                self.span = None

    def handle_data(self, data):
        if self.a is not None:
            self.a += data
        if self.span is not None:
            self.span[1] += data


def first_file(e):
    return e["locs"][0]["file"] if e["locs"] else ""


def p_impl(errs, outdir, decode, pages):
    """python's own reading of the property, on the generated HTML: list of (what, finding-key or None)"""
    out = []
    p = IndexParser()
    p.feed(open(os.path.join(outdir, "index.html"), encoding="utf-8").read())
    got = []
    curfile = None
    report_type = any(e["cls"] for e in errs)
    for r in p.rows:
        if r["colspan"]:
            if r["cells"] and not r["cells"][0].startswith("Could not generated"):
                curfile = r["cells"][0]
            continue
        if r["cls"] is None or not r["cls"].endswith(" issue"):
            continue
        c = r["cells"]
        # line, id, cwe, [severity], [classification, guideline], message, timestamp
        got.append((curfile, c[0], c[1], c[-2]))
    want, want_full = [], []
    for e in errs:
        f = first_file(e)
        line = e["locs"][0]["line"] if e["locs"] else 0
        is_file = f != "" and f not in decode and not f.endswith("*")
        want.append((f, str(line) if is_file else "", e["id"], e["msg"]))
        want_full.append((f, str(line) if e["locs"] else "", e["id"], e["msg"]))
    if sorted(got) != sorted(want):
        missing = [w for w in want if w not in got]
        extra = [g for g in got if g not in want]
        out.append(("index rows differ from the findings: missing=%r unexpected=%r" % (missing[:2], extra[:2]), None))
    elif sorted(got) != sorted(want_full):
        lost = [w for w in want_full if w not in got]
        out.append(("index row without the line of the finding (source undecodable or starred): %r" % (lost[:2],), "line-missing-undecodable-or-starred-source"))
    # severities
    sevs = sorted((r["cells"][3] if len(r["cells"]) > 5 else "") for r in p.rows if r["cls"] and r["cls"].endswith(" issue"))
    wants = sorted((e["sev"] + (", inconcl." if e["inconclusive"] == "true" else "")) for e in errs)
    if not report_type:
        if sevs != wants:
            out.append(("severity column differs: got=%r want=%r" % (sevs[:4], wants[:4]), None))
    else:
        html_text = open(os.path.join(outdir, "index.html"), encoding="utf-8").read()
        table = html_text.split('class="summaryTable"', 1)[1]
        if not all((">" + html.escape(w.split(",")[0], quote=False)) in table for w in wants if w):
            out.append(("classification report: the rows do not show the severity of their findings (%r)" % (wants[:3],), "severity-missing-in-classification-report"))
    # per-file pages
    for n, f in pages.items():
        pp = PageParser()
        pp.feed(open(os.path.join(outdir, "%d.html" % n), encoding="utf-8").read())
        group = [e for e in errs if first_file(e) == f]
        want_menu, want_ann, ninloc = [], [], []
        dup012 = set()
        for e in group:
            inloc = [l for l in e["locs"] if l["file"] == f]
            ninloc.append(len(inloc))
            for l in inloc:
                want_menu.append((e["id"].strip(), str(l["line"])))
                m = l["info"] if l["info"] else e["msg"]
                vb = None if l["info"] else e["verbose"]
                if not (1 <= l["line"] <= NLINES):
                    continue                                # no such source line: menu entry only
                if vb and vb != m and "\\012" in vb and e["inconclusive"] in (None, "true"):
                    dup012.add(l["line"])
                want_ann.append((l["line"], m, e["inconclusive"]))
        got_menu = [(i.strip(), ln) for (i, ln) in pp.menu]
        if sorted(got_menu) != sorted(want_menu):
            out.append(("page %d.html (%s): menu entries %r differ from the locations of the findings in the file %r" % (n, f, sorted(got_menu)[:3], sorted(want_menu)[:3]), None))
        elif any(k >= 2 for k in ninloc):
            out.append(("page %d.html (%s): a finding with %d locations in the file has that many entries (menu, annotations), not one" % (n, f, max(ninloc)), "page-entry-per-location"))
        exp = sorted(m for (ln, m, inc) in want_ann if inc in (None, "true"))
        gota = sorted(pp.annots)
        if gota != exp:
            extra, missing = list(gota), []
            for x in exp:
                if x in extra:
                    extra.remove(x)
                else:
                    missing.append(x)
            if not missing and dup012 and all(any(ln in dup012 and m == x for (ln, m, inc) in want_ann) for x in extra):
                out.append(("page %d.html (%s): annotation written twice - once inside the verbose text (\\012) of an earlier finding of the line" % (n, f), "page-annotation-duplicated-after-012"))
            else:
                out.append(("page %d.html (%s): annotations %r differ from the messages of the entries %r" % (n, f, gota[:4], exp[:4]), None))
        if any(inc not in (None, "true") for (ln, m, inc) in want_ann):
            out.append(("page %d.html (%s): a finding whose inconclusive attribute is not 'true' has no annotation" % (n, f), "page-annotation-missing-inconclusive-not-true"))
        body = open(os.path.join(outdir, "%d.html" % n), encoding="utf-8").read()
        body = body.split('<div id="content">', 1)[1] if '<div id="content">' in body else body
        if re.search(r"<script|<b>|<i>", body):
            # the only tags inside the content are pygments' and the annotation spans; a raw injected tag is a violation
            out.append(("per-file page %d.html contains markup injected from a finding" % n, None))
    return out


HELPER = r"""
import sys, os, io, runpy, contextlib
script = sys.argv[1]
for line in sys.stdin:
    d = line.rstrip("\n")
    if not d:
        continue
    os.chdir(d)
    sys.argv = [script, "--file", "r.xml", "--report-dir", "out", "--source-dir", "."]
    out, err, rc = io.StringIO(), io.StringIO(), 0
    try:
        with contextlib.redirect_stdout(out), contextlib.redirect_stderr(err):
            runpy.run_path(script, run_name="__main__")
    except SystemExit as e:
        rc = e.code if isinstance(e.code, int) else (0 if e.code is None else 1)
    except BaseException as e:
        rc = 70
        err.write(repr(e))
    open(os.path.join(d, "rc.txt"), "w").write("%d\n%s" % (rc, err.getvalue()[-3000:]))
"""


def run_many(ctx, dirs, workers):
    """the real script, executed by the real interpreter on every case directory; one interpreter serves several cases
    (runpy executes the script file as __main__ each time), so that start-up and the pygments import are paid once"""
    from concurrent.futures import ThreadPoolExecutor
    chunks = [dirs[i::workers] for i in range(workers)]
    def work(ch):
        if ch:
            core.sh([sys.executable, "-c", HELPER, SCRIPT], input="".join(x + "\n" for x in ch), timeout=1800)
    with ThreadPoolExecutor(max_workers=workers) as ex:
        list(ex.map(work, chunks))


def prepare_dir(ctx, errs, k):
    d = os.path.join(ctx.tmp, "case%d" % k)
    os.makedirs(d, exist_ok=True)
    decode = make_tree(d, errs)
    xmlp = os.path.join(d, "r.xml")
    open(xmlp, "w", encoding="utf-8").write(xml_of(errs))
    return d, decode, time.ctime(os.path.getmtime(xmlp))


def run_cli(ctx, d):
    """the script as a process of its own (command line as a user runs it)"""
    rc, so, se = core.sh([sys.executable, SCRIPT, "--file", "r.xml", "--report-dir", "out", "--source-dir", "."], cwd=d, timeout=600)
    open(os.path.join(d, "rc.txt"), "w").write("%d\n%s" % (rc, (se or so)[-3000:]))


ROW_RE = re.compile(r"^         (<tr class=.*</tr>)$")
FILE_RE = re.compile(r"^       (<tr><td colspan=\"6\">(?!Could not generated).*</td></tr>)$")


def impl_lines(outdir, errs):
    parts = []
    in_table = False
    for line in open(os.path.join(outdir, "index.html"), encoding="utf-8").read().split("\n"):
        if 'class="summaryTable"' in line:
            in_table = True
        if not in_table:
            continue
        m = ROW_RE.match(line)
        if m:
            parts.append("R:" + u8(m.group(1)))
            continue
        m = FILE_RE.match(line)
        if m:
            parts.append("G:" + u8(m.group(1)))
    return parts


ANCHOR_RE = re.compile(r'<a id="line-(\d+)" name="line-\d+"></a>')
MARKERS = ('<span class="error2">', '<span class="inconclusive2">', '<div class="verbose expandable">')


def pages_of(outdir):
    """per page: menu text, and for every source line the text from the first annotation marker to the last newline"""
    res = {}
    for f in sorted(os.listdir(outdir)):
        m = re.match(r"^(\d+)\.html$", f)
        if not m:
            continue
        t = open(os.path.join(outdir, f), encoding="utf-8").read()
        mm = re.search(r'<p><a href="index.html">Defects:</a> .*?</p>\n(.*?)\n    </div>\n    <div id="content">', t, re.S)
        ann = {}
        code = t.split('<td class="code">', 1)[1].split("</pre>", 1)[0] if '<td class="code">' in t else ""
        pieces = ANCHOR_RE.split(code)
        for i in range(1, len(pieces) - 1, 2):
            ln, seg = int(pieces[i]), pieces[i + 1]
            idx = min([seg.find(mk) for mk in MARKERS if mk in seg] or [-1])
            if idx >= 0:
                ann[ln] = seg[idx:seg.rfind("\n") + 1]
        res[int(m.group(1))] = dict(menu=mm.group(1) if mm else None, ann=ann, nlines=len(pieces) // 2)
    return res


FINDING_KEYS = ("page-entry-per-location", "severity-missing-in-classification-report", "line-missing-undecodable-or-starred-source",
                "page-annotation-missing-inconclusive-not-true", "page-annotation-duplicated-after-012")


def one_case(ctx, res, drv, errs, name, k, d, decode, ts, mline=None):
    out = os.path.join(d, "out")
    rcp = os.path.join(d, "rc.txt")
    rct = open(rcp).read().split("\n", 1) if os.path.exists(rcp) else ["99", "the script was not run"]
    rc, se = int(rct[0]), rct[1] if len(rct) > 1 else ""
    desc = dict(findings=[dict(id=e["id"], sev=e["sev"], msg=e["msg"], locs=[(l["file"], l["line"]) for l in e["locs"]]) for e in errs])
    if rc != 0 or not os.path.exists(os.path.join(out, "index.html")):
        res.violation("cppcheck-htmlreport failed (rc=%s) on a valid version-2 results file: %s" % (rc, se[-300:]),
                      dict(errors=errs, stderr=se[-2000:]), concrete=True, key=None)
        shutil.rmtree(d, ignore_errors=True)
        return None
    impl = impl_lines(out, errs)
    pg = pages_of(out)
    op = op_of(errs, ts, decode)
    if mline is None:
        rc2, mo, me = core.run_lines(drv, [], [op])
        mline = mo[0] if mo else "<no output>"
    model = mline.split(" ")
    model_rows = [x for x in model if x[:2] in ("R:", "G:")]
    model_menus, model_ann, page_file = {}, {}, {}
    for x in model:
        if x.startswith("M:"):
            _, no, h = x.split(":")
            model_menus[int(no)] = "" if h == "-" else bytes.fromhex(h).decode("utf-8")
        elif x.startswith("A:"):
            _, no, ln, h = x.split(":")
            model_ann.setdefault(int(no), {})[int(ln)] = bytes.fromhex(h).decode("utf-8")
    # page number -> file (dict insertion order of the first locations), python's own reading
    order = []
    for e in errs:
        if first_file(e) not in order:
            order.append(first_file(e))
    pages = {n: order[n] for n in pg if n < len(order)}
    ok_rows = impl == model_rows
    ok_menu = all(pg[n]["menu"] == model_menus.get(n) for n in pg)
    ok_ann = all(pg[n]["ann"] == model_ann.get(n, {}) and pg[n]["nlines"] == NLINES for n in pg)
    hostile = any(ch in (e["id"] + e["msg"] + e["sev"] + "".join(l["file"] for l in e["locs"])) for e in errs for ch in "<>&\"'")
    res.case(name + "|" + op, len(errs) >= 2 and hostile, desc if k % 25 == 0 else None)
    res.count("findings:%d" % len(errs))
    res.count("hostile" if hostile else "plain")
    # what the case exercises (evidence; run() fails closed when a class is never seen)
    files = set(first_file(e) for e in errs)
    for cls, present in (("source:readable(page)", bool(pg)), ("source:missing", "missing.c" in files), ("source:undecodable", "bad utf.c" in files),
                         ("source:starred", "star*" in files), ("finding:no-location", any(not e["locs"] for e in errs)),
                         ("finding:2+locations-in-one-file", any(sum(1 for l in e["locs"] if l["file"] == first_file(e)) >= 2 for e in errs)),
                         ("report:classification", any(e["cls"] for e in errs)), ("finding:cwe", any(e["cwe"] for e in errs)),
                         ("finding:inconclusive-true", any(e["inconclusive"] == "true" for e in errs)),
                         ("finding:inconclusive-other", any(e["inconclusive"] not in (None, "true") for e in errs)),
                         ("location:info", any(l["info"] for e in errs for l in e["locs"])),
                         ("finding:verbose-differs", any(e["verbose"] and e["verbose"] != e["msg"] for e in errs)),
                         ("finding:line-not-in-source", any(l["line"] == 0 or l["line"] > NLINES for e in errs for l in e["locs"])),
                         ("findings:same-file-same-line", len(set((first_file(e), e["locs"][0]["line"]) for e in errs if e["locs"])) < sum(1 for e in errs if e["locs"])),
                         ("page:line-with-2+annotations", any(a.count("&lt;--- ") >= 2 for n in pg for a in pg[n]["ann"].values()))):
        if present:
            res.count("class:" + cls)
    if ok_rows and ok_menu and ok_ann:
        res.traces_validated += 1
    for what, key in p_impl(errs, out, decode, pages):
        res.violation("htmlreport: " + what, dict(errors=errs, detail=what), concrete=True, key=key)
    shutil.rmtree(d, ignore_errors=True)
    bad_ann = {n: dict(impl=pg[n]["ann"], model=model_ann.get(n, {})) for n in pg if pg[n]["ann"] != model_ann.get(n, {})}
    return (ok_rows and ok_menu and ok_ann), dict(impl=impl[:3], model=model_rows[:3], menus_impl={n: pg[n]["menu"] for n in pg}, menus_model=model_menus,
                                                  annotations=bad_ann, errors=errs)


REQUIRED_CLASSES = ["source:readable(page)", "source:missing", "source:undecodable", "source:starred", "finding:no-location",
                    "finding:2+locations-in-one-file", "report:classification", "finding:inconclusive-true", "finding:inconclusive-other",
                    "location:info", "finding:verbose-differs", "finding:line-not-in-source", "findings:same-file-same-line",
                    "page:line-with-2+annotations"]


def run(ctx, res):
    res.assumptions = list(ASSUMPTIONS)
    core.prove(ctx, res, MODULES, THEOREMS)
    drv = ctx.driver("drv_c36")
    rng = ctx.rng
    n = 600 if ctx.tier == "thorough" else 110
    bad = []
    corpus = load_corpus()
    cases = corpus + [gen_case(rng) for _ in range(n)]
    prepared = [prepare_dir(ctx, errs, k) for k, errs in enumerate(cases)]
    t0 = time.time()
    # the corpus cases through the command line (a process each), the generated ones through long-lived interpreters
    from concurrent.futures import ThreadPoolExecutor
    with ThreadPoolExecutor(max_workers=4) as ex:
        fut = [ex.submit(run_cli, ctx, prepared[k][0]) for k in range(len(corpus))]
        run_many(ctx, [prepared[k][0] for k in range(len(corpus), len(cases))], 6)
        [f.result() for f in fut]
    res.extra["script_runs_s"] = round(time.time() - t0, 1)
    rc, mo, me = core.run_lines(drv, [], [op_of(errs, prepared[k][2], prepared[k][1]) for k, errs in enumerate(cases)])
    if len(mo) != len(cases):
        raise core.CheckBroken("C36 driver answered %d of %d ops: %s" % (len(mo), len(cases), me[-300:]))
    for k, errs in enumerate(cases):
        d, decode, ts = prepared[k]
        r = one_case(ctx, res, drv, errs, "index", k, d, decode, ts, mo[k])
        if r is not None and not r[0]:
            bad.append(r[1])
    res.oblig("correspondence:index-rows-menus-annotations", not bad, "correspondence",
              "" if not bad else "%d of %d result files: rows / menus / line annotations differ; first: %s" % (len(bad), len(cases), str({k: v for k, v in bad[0].items() if k != "errors"})[:1500]))
    for b in bad[:3]:
        res.violation("htmlreport output differs from the model (rows / menus / annotations)", dict(errors=b["errors"], detail=str({k: v for k, v in b.items() if k != "errors"})[:1500]), concrete=True, key=None)
    # a broken implementation fails on most cases: keep the first few new failing inputs, every known-finding observation
    _new = [v for v in res.violations if v.get("key") is None]
    res.violations = [v for v in res.violations if v.get("key") is not None] + _new[:6]
    if len(_new) > 6:
        res.extra["further_failing_inputs_not_stored"] = len(_new) - 6
    missing = [c for c in REQUIRED_CLASSES if not res.dist.get("class:" + c)]
    res.oblig("coverage:input-classes", not missing, "correspondence",
              "" if not missing else "input classes never exercised in this run: %s" % missing)
    # escape function on its own (python's escape == model)
    from xml.sax.saxutils import escape
    ops, impl = [], []
    for _ in range(300):
        s = rstr(rng, 0, 12)
        ops.append("escape " + u8(s))
        e = escape(s, {'"': "&quot;", "'": "&apos;"})
        impl.append(u8(e) + " " + u8(html.unescape(e)))
    rc, mo, me = core.run_lines(drv, [], ops)
    core.correspond(ctx, res, "html_escape", ops, impl, mo)
    # the table the model copies is the one in the script (translator check, fail closed)
    src = open(SCRIPT, encoding="utf-8").read()
    m = re.search(r"html_escape_table = \{\n\s*'\"': \"&quot;\",\n\s*\"'\": \"&apos;\"\n\}", src)
    res.oblig("T:html_escape_table", bool(m) and "return escape(text, html_escape_table)" in src, "translation",
              "" if m else "html_escape_table in the script no longer has the shape the model copies")
    # the annotation templates the model copies (fail closed)
    tm = ['HTML_ERROR = "<span class=\\"error2\\">&lt;--- %s</span>\\n"', 'HTML_INCONCLUSIVE = "<span class=\\"inconclusive2\\">&lt;--- %s</span>\\n"',
          'HTML_EXPANDABLE_ERROR = "<div class=\\"verbose expandable\\"><span class=\\"error2\\">&lt;--- %s <span class=\\"marker\\">[+]</span></span><div class=\\"content\\">%s</div></div>\\n"',
          'HTML_EXPANDABLE_INCONCLUSIVE = "<div class=\\"verbose expandable\\"><span class=\\"inconclusive2\\">&lt;--- %s <span class=\\"marker\\">[+]</span></span><div class=\\"content\\">%s</div></div>\\n"']
    miss = [t for t in tm if t not in src]
    res.oblig("T:annotation-templates", not miss, "translation", "" if not miss else "annotation template changed: %s" % miss[0][:80])


def load_corpus():
    p = os.path.join(core.VERIF, "corpus", "C36", "cases.json")
    return json.load(open(p)) if os.path.exists(p) else []


def replay(ctx, res, rp):
    drv = ctx.driver("drv_c36")
    d, decode, ts = prepare_dir(ctx, rp["errors"], 0)
    run_cli(ctx, d)
    r = one_case(ctx, res, drv, rp["errors"], "replay", 0, d, decode, ts)
    known = set(e["key"] for e in core.load_known() if e.get("property") == ID and e.get("kind") == "finding")
    new = [v for v in res.violations if v.get("key") not in known]
    for v in new:
        print("VIOLATION property=C36 replay=(replayed) " + v["what"][:300])
    return 1 if new or r is None or not r[0] else 0

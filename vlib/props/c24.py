"""C24 — unmatched suppressions are reported exactly.

Obligations
  theorems   Cppcheck.Unmatched.* (flags_exact, unmatched_exact, never_for_matched, merge_commutes, …)
  C1         in-process: one real SuppressionList driven through generated op sequences
             (add | isSuppressed | isSuppressedExplicitly | markUnmatchedInlineSuppressionsAsChecked | updateSuppressionState |
              ProcessExecutor::handleRead(REPORT_SUPPR*) | thread propagation | getUnmatched* | reportUnmatchedSuppressions);
             the full flag state is compared with the Lean model after every op.  The verdict of one suppression on one
             message, PathMatch::match, matchglob and isValidGlobPattern are parameters: the harness reports the real answers.
  C2         CLI: small projects with command-line and inline suppressions under the three executors (with and without
             build dir): the unmatchedSuppression lines of every run = the model's report for the run's op sequence
P_impl       (a) in-process: on sequences of the sequential machine, the real report = the history-based specification
                 (never for a suppression that matched; exactly the checked/applicable ones), computed without the model;
             (b) CLI: the unmatchedSuppression lines do not depend on the executor, never name a suppression that matches a
                 finding of the reference run, and name every applicable suppression that matches none
"""
import json, os, re, subprocess, time
from .. import core, build_repo
from . import c25 as cli

ID = "C24"
LEVEL = "proof"
RULE = ("in-process cases = op sequences (10-40 ops) over suppressions drawn from ids x files (local / wildcard / global) x lines x symbol x "
        "hash x inline types, messages biased to near misses of the suppressions present; one case per op, distinct by the whole prefix; "
        "non-trivial = the op changes a flag, answers from a non-empty list, or reports; CLI cases = project x suppression set x executor")
EXPLANATION = ("Lean theorems: reported <=> history (reported_iff_history: no call matched it, and by scope a call or token line checked it), "
               "composed from flags = history (flags_exact) and report = filter conditions (unmatched_exact); every token position is marked "
               "(mark_complete); a matched suppression is never reported; the message sits at the suppression's own location; executors: the "
               "parent's merge is independent of the arrival order (merge_commutes), folds an initial entry's worker copies to its sequential flags "
               "(merge_equals_sequential), and a worker's logger leaves the flags of the single call (worker_reportErr_equals_single_call); "
               "thread propagation, entries added inside workers and report(parallel) = report(sequential) are correspondence/CLI only. "
               "Tie: real SuppressionList / reportUnmatchedSuppressions / handleRead in process, state compared after every op; CLI with "
               "three executors. Matching itself (C23) is a parameter.")
THEOREMS = ["Cppcheck.Unmatched.reported_iff_history", "Cppcheck.Unmatched.flags_exact", "Cppcheck.Unmatched.unmatched_exact",
            "Cppcheck.Unmatched.never_for_matched", "Cppcheck.Unmatched.mark_complete", "Cppcheck.Unmatched.worker_reportErr_equals_single_call",
            "Cppcheck.Unmatched.message_location", "Cppcheck.Unmatched.reported_has_origin",
            "Cppcheck.Unmatched.merge_commutes", "Cppcheck.Unmatched.merge_equals_sequential",
            "Cppcheck.Unmatched.wire_keeps_key",
            "Cppcheck.Unmatched.line_suppression_needs_inline_counterexample", "Cppcheck.Unmatched.hash_lost_on_wire_counterexample",
            "Cppcheck.Unmatched.local_hides_from_global_counterexample"]
MODULES = ["Cppcheck.Props.C24"]

VARIANT = dict(markAlways=False, skipHash=False, showGlobal=False)     # set by extract() from the source on every run
KEY_LINE = "line-suppression-unchecked-without-inline-suppr"
KEY_HASH = "hash-suppression-duplicated-by-process-executor"
KEY_LOCAL = "global-suppression-not-shown-findings-hidden-by-local-suppression-in-workers"

IDS = ["nullPointer", "uninitvar", "zerodiv", "memleak", "unusedFunction", "unmatchedSuppression", "checkersReport", "null*", "*", "uninit*",
       "misra-c2012-1.1", "premium-x", "a.b"]
BAD_IDS = ["1abc", "bad id", "x;y", "caf\xe9"]
MSG_IDS = ["nullPointer", "uninitvar", "zerodiv", "memleak", "unusedFunction", "unmatchedSuppression", "", "nullPointerRedundantCheck", "misra-c2012-1.1"]
FILES = ["a.c", "b.c", "src/a.c", "h.h", "*.c", "src/*", "*", "", "a?.c", "src"]
MSG_FILES = ["a.c", "b.c", "src/a.c", "h.h", "", "src/b.c"]
LINES = [-1, -1, 1, 2, 3, 10]
SYMS = ["", "", "", "x", "p*"]


def suppr_tok(s):
    return ":".join([core.hx(s["id"]), core.hx(s["file"]), str(s["line"]), core.hx(s["sym"]), str(s["hash"]), "1" if s["tanl"] else "0",
                     str(s["type"]), str(s["lb"]), str(s["le"]), str(s["col"]), "1" if s["inline"] else "0", "1" if s["poly"] else "0",
                     "1" if s["chk"] else "0", "1" if s["mat"] else "0", core.hx(s.get("mac", ""))])


def parse_tok(t):
    p = t.split(":")
    return dict(id=core.unhx(p[0]).decode("latin-1"), file=core.unhx(p[1]).decode("latin-1"), line=int(p[2]), sym=core.unhx(p[3]).decode("latin-1"),
                hash=int(p[4]), tanl=p[5] == "1", type=int(p[6]), lb=int(p[7]), le=int(p[8]), col=int(p[9]), inline=p[10] == "1", poly=p[11] == "1",
                chk=p[12] == "1", mat=p[13] == "1", mac=core.unhx(p[14]).decode("latin-1"))


def gen_suppr(rng, worker=False):
    s = dict(id=rng.choice(IDS), file=rng.choice(FILES), line=rng.choice(LINES), sym=rng.choice(SYMS), hash=0, tanl=False, type=0, lb=-1, le=-1,
             col=0, inline=False, poly=rng.random() < 0.04, chk=False, mat=False)
    if rng.random() < 0.04:
        s["id"] = rng.choice(BAD_IDS)
    if rng.random() < 0.05:
        s["hash"] = 5
        if rng.random() < 0.4:
            s["id"] = ""
    if s["file"] == "":
        s["line"] = -1
    if rng.random() < 0.3:
        # inline suppression: concrete file, line, column, one of the inline types
        s["inline"] = True
        s["file"] = rng.choice(["a.c", "b.c", "h.h", "src/a.c"])
        s["line"] = rng.choice([1, 2, 3, 10])
        s["col"] = rng.choice([1, 5, 9])
        s["type"] = rng.choice([0, 0, 0, 1, 2, 5])
        s["tanl"] = s["type"] == 0 and rng.random() < 0.15
        if s["type"] == 2:
            s["lb"] = s["line"]; s["le"] = s["line"] + rng.choice([0, 1, 7])
        if s["type"] == 5:
            s["mac"] = rng.choice(["M1", "M2"])
    if worker:
        s["chk"] = rng.random() < 0.7
        s["mat"] = s["chk"] and rng.random() < 0.4
    return s


def gen_msg(rng, present):
    """a message near one of the suppressions present (same file/line/id with one field perturbed) or a random one"""
    if present and rng.random() < 0.75:
        s = rng.choice(present)
        mid = s["id"] if not any(ch in s["id"] for ch in "*?") else rng.choice(["nullPointer", "uninitvar"])
        f = s["file"] if (s["file"] and not any(ch in s["file"] for ch in "*?") and s["file"] != "src") else rng.choice(MSG_FILES)
        ln = s["line"] if s["line"] > 0 else rng.choice([1, 2, 3])
        k = rng.random()
        if k < 0.2:
            mid = rng.choice(MSG_IDS)
        elif k < 0.35:
            ln += rng.choice([1, -1])
        elif k < 0.45:
            f = rng.choice(MSG_FILES)
        sym = rng.choice(["", "x", "p1\nx", "q"])
        return dict(id=mid, file=f, line=ln, sym=sym, hash=rng.choice([0, 0, 0, 5, 6]))
    return dict(id=rng.choice(MSG_IDS), file=rng.choice(MSG_FILES), line=rng.choice([-1, 0, 1, 2, 3, 10]), sym=rng.choice(["", "x"]), hash=rng.choice([0, 0, 5]))


def gen_token_stream(rng, present):
    """(file, line) positions of a token stream: runs of lines inside a file, file changes (#include) both at changed and at
    UNCHANGED line numbers, repeated positions (several tokens per line); biased to the scopes of the suppressions present"""
    files = ["a.c", "b.c", "h.h", "src/a.c"]
    locs = []
    n = rng.choice([1, 2, 3, 5, 8])
    f = rng.choice(files)
    l = rng.choice([1, 2, 3, 10])
    for _ in range(n):
        k = rng.random()
        if k < 0.3:
            f = rng.choice([x for x in files if x != f])          # the stream enters another file, same line number
        elif k < 0.45:
            f = rng.choice(files); l = rng.choice([1, 2, 3, 4, 10, 11])
        elif k < 0.6 and present:
            s = rng.choice(present)
            if s["file"] in files:
                # arrive at the suppression's own position from another file on the same line
                l = s["line"] if s["line"] > 0 else l
                locs.append((rng.choice([x for x in files if x != s["file"]]), l))
                f = s["file"]
        elif k < 0.8:
            l += 1
        locs.append((f, l))
        if rng.random() < 0.2:
            locs.append((f, l))
    return locs


def gen_sequence(rng, kind, length):
    """kind: 'seq' (sequential machine: add / sup / mark, then getters and report), 'mix' (everything)"""
    ops = [("new",)]
    present = []
    for _ in range(length):
        r = rng.random()
        if r < 0.28 or not present:
            s = gen_suppr(rng)
            ops.append(("add", s)); present.append(s)
        elif r < 0.62:
            m = gen_msg(rng, present)
            if rng.random() < 0.1:
                m = dict(id="", file=rng.choice(["a.c", "b.c", "src/a.c"]), line=-1, sym="", hash=0)      # the dummy call of CppCheck::check
            ops.append(("sup", rng.random() < 0.75, m))
        elif r < 0.72:
            ops.append(("mark", gen_token_stream(rng, present)))
        elif kind == "mix" and r < 0.75:
            ops.append(("supx", rng.random() < 0.75, gen_msg(rng, present)))
        elif kind == "mix" and r < 0.79:
            ops.append(("werr", gen_msg(rng, present)))
        elif kind == "mix" and r < 0.84:
            s = dict(rng.choice(present)) if rng.random() < 0.7 else gen_suppr(rng, True)
            s["chk"] = rng.random() < 0.7; s["mat"] = s["chk"] and rng.random() < 0.4
            if s["id"] not in IDS:
                s["id"] = "nullPointer"       # a worker's list holds only entries addSuppression accepted; `;` would also break the pipe format
            ops.append((rng.choice(["recv", "recv", "upd"]), s))
        elif kind == "mix" and r < 0.88:
            ops.append(("thread",))
        elif kind == "mix" and r < 0.92:
            ops.append(("wire",))
        elif r < 0.95:
            ops.append((rng.choice(["ul", "ug", "ui"]), rng.choice(["a.c", "b.c", "src/a.c"])))
        else:
            ops.append(gen_report(rng))
    ops.append(("ug", ""))
    ops.append(("ui", ""))
    ops.append(("ul", "a.c"))
    ops.append(gen_report(rng))
    return ops


def gen_report(rng):
    files = rng.sample(["a.c", "b.c", "src/a.c"], rng.choice([1, 2, 3]))
    filters = rng.sample(["unusedFunction", "misra-*", "premium-*", "null*"], rng.choice([0, 1, 3]))
    return ("report", rng.random() < 0.6, files, filters)


def harness_line(op):
    k = op[0]
    if k in ("new", "thread"):
        return k
    if k == "wire":
        return "wire %d" % (1 if VARIANT["skipHash"] else 0)
    if k in ("add", "upd", "recv"):
        return "%s %s" % (k, suppr_tok(op[1]))
    if k in ("sup", "supx"):
        m = op[2]
        return "%s %d %s %s %d %s %d" % (k, 1 if op[1] else 0, core.hx(m["id"]), core.hx(m["file"]), m["line"], core.hx(m["sym"]), m["hash"])
    if k == "werr":
        m = op[1]
        return "werr %d %s %s %d %s %d" % (1 if VARIANT["showGlobal"] else 0, core.hx(m["id"]), core.hx(m["file"]), m["line"], core.hx(m["sym"]), m["hash"])
    if k == "mark":
        return "mark %d %s" % (len(op[1]), " ".join("%s %d" % (core.hx(f), l) for f, l in op[1]))
    if k == "ul":
        return "ul %s" % core.hx(op[1])
    if k in ("ug", "ui"):
        return k
    if k == "report":
        return "report %d %d %s %d %s" % (1 if op[1] else 0, len(op[2]), " ".join(core.hx(f) for f in op[2]), len(op[3]), " ".join(core.hx(f) for f in op[3]))
    raise ValueError(k)


def driver_line(op, params):
    k = op[0]
    if k in ("new", "thread", "ug", "ui"):
        return k
    if k == "wire":
        return "wire %d" % (1 if VARIANT["skipHash"] else 0)
    if k in ("add", "recv"):
        return "%s %s %s" % (k, params.get("g", "1"), suppr_tok(op[1]))
    if k == "upd":
        return "upd %s" % suppr_tok(op[1])
    if k in ("sup", "supx"):
        return "%s %d %s %s" % (k, 1 if op[1] else 0, core.hx(op[2]["id"]), params.get("vs", "-"))
    if k == "werr":
        return "werr %d %s %s %s" % (1 if VARIANT["showGlobal"] else 0, core.hx(op[1]["id"]), params.get("vs", "-"), params.get("vs2", "-"))
    if k == "mark":
        return harness_line(op)
    if k == "ul":
        return "ul %s" % params.get("pm", "-")
    if k == "report":
        pms = params.get("pm", "-").split(",") if op[2] else []
        return "report %d %d %s %s" % (1 if op[1] else 0, len(op[2]), " ".join(pms), params.get("f", "-"))
    raise ValueError(k)


def parse_params(p):
    d = {}
    if p.strip() == "-":
        return d
    for part in p.strip().split(";"):
        if "=" in part:
            a, b = part.split("=", 1)
            d[a] = b
    return d


# ---- history-based specification (P_impl for the in-process tie), independent of the Lean model -------------------
def is_wild(s):
    return any(c in s["file"] for c in "*?")


def is_local(s):
    return bool(s["file"]) and not is_wild(s)


def same_params(a, b):
    return all(a.get(k, "") == b.get(k, "") for k in ("id", "file", "line", "sym", "hash", "tanl", "type", "lb", "le", "mac"))


def spec_sequence(ops, outs):
    """Walk a 'seq' sequence using only the real code's verdict strings / pm / filter bits; yields for every report op the expected
    multiset of (poly, id, file, line, col).  History facts are kept per entry, never read from the real flags."""
    hist = []   # per entry: dict(s=..., checked=bool, matched=bool)
    res = []
    for op, (params, result, state) in zip(ops, outs):
        k = op[0]
        if k == "new":
            hist = []
        elif k == "add":
            if result == "ok":
                hist.append(dict(s=op[1], checked=False, matched=False))
        elif k == "sup":
            vs = params.get("vs", "-")
            vs = "" if vs == "-" else vs
            m = op[2]
            for h, v in zip(hist, vs):
                s = h["s"]
                if not (op[1] or is_local(s)):
                    continue
                if m["id"] == "unmatchedSuppression" and s["id"] != m["id"]:
                    continue
                if v in "CM":
                    h["checked"] = True
                if v == "M":
                    h["matched"] = True
        elif k == "mark":
            for (f, l) in op[1]:
                for h in hist:
                    s = h["s"]
                    if s["file"] != f:
                        continue
                    if s["type"] == 0 and s["line"] != l:
                        continue
                    if s["type"] == 2 and not (s["lb"] <= l <= s["le"]):
                        continue
                    h["checked"] = True
        elif k == "report":
            exp = []
            bail = any(h["s"]["id"] == "unmatchedSuppression" and h["s"]["file"] in ("", "*") and h["s"]["line"] == -1 for h in hist)
            if not bail:
                pms = params.get("pm", "-").split(",") if op[2] else []
                fb = params.get("f", "-")
                fb = "" if fb == "-" else fb

                def candidates_local(j):
                    pm = "" if pms[j] == "-" else pms[j]
                    return [h for h, b in zip(hist, pm) if b == "1" and not h["s"]["inline"] and is_local(h["s"]) and h["s"]["type"] != 5 and
                            (h["s"]["line"] == -1 or h["checked"])]
                groups = [candidates_local(j) for j in range(len(op[2]))]
                if op[1]:
                    groups.append([h for h in hist if h["s"]["inline"] and h["checked"]])
                groups.append([h for h in hist if not h["s"]["inline"] and not is_local(h["s"]) and (h["checked"] or not is_wild(h["s"]))])
                filt = {id(h): (b == "1") for h, b in zip(hist, fb)}
                for g in groups:
                    g = [h for h in g if not h["matched"] and h["s"]["hash"] == 0 and (h["s"]["inline"] or h["s"]["id"] != "checkersReport")]
                    for h in g:
                        s = h["s"]
                        sup = any(h2["s"]["id"] == "unmatchedSuppression" and h2["s"]["file"] in ("", "*", s["file"]) and h2["s"]["line"] in (-1, s["line"]) for h2 in g)
                        if sup or filt.get(id(h), False):
                            continue
                        exp.append("%d:%s:%s:%d:%d" % (1 if s["poly"] else 0, core.hx(s["id"]), core.hx(s["file"]) if s["file"] else "-",
                                                         0 if s["line"] == -1 else s["line"], s["col"] if s["file"] else 0))
            res.append(sorted(exp))
    return res


# ---- CLI tie ------------------------------------------------------------------------------------------------------------
def gen_cli_project(rng, k):
    files = {"h.h": "static inline void hh%d(void){ int *hp = 0; *hp = 1; }\n" % k}
    names = ["g%d_%d.c" % (k, i) for i in range(rng.choice([2, 3]))]
    inline = []
    for i, n in enumerate(names):
        lines = []
        if i < 2 and rng.random() < 0.6:
            lines.append('#include "h.h"')
        for j in range(rng.choice([1, 2, 3])):
            kind = rng.choice(["np", "zd", "clean", "clean"])
            cm = ""
            r = rng.random()
            if r < 0.25:
                cm = "// cppcheck-suppress %s" % rng.choice(["nullPointer", "zerodiv", "uninitvar"])
            if cm:
                lines.append(cm)
            t = "%d_%d_%d" % (k, i, j)
            if kind == "np":
                lines.append("void np%s(void){ int *p = 0; *p = 1; }" % t)
            elif kind == "zd":
                lines.append("int zd%s(int x){ return x / 0; }" % t)
            else:
                lines.append("int ok%s(int x){ return x + 1; }" % t)
        files[n] = "\n".join(lines) + "\n"
    return dict(files=files, order=names, enable="information", name="q%d" % k)


def cli_unmatched(lines):
    return sorted(f["text"] for f in lines if f["id"].startswith("unmatched"))


def ask(harness25, pdir, nomsg, f):
    q = " ".join(["q", str(len(nomsg))] + [core.hx(x) for x in nomsg] + ["0", core.hx(f["id"]), core.hx(f["file"]), str(f["line"]), "-"])
    r = subprocess.run([harness25], input=q + "\n", cwd=pdir, stdout=subprocess.PIPE, text=True, timeout=60)
    m = re.match(r"^b ([01]{5})", r.stdout)
    return m.group(1) if m else "00000"


def classify_executor_diff(pdir, harness25, sup, raw, got, single):
    """F24c: the -j run names, in addition to the -j1 lines, only global / wildcard suppressions every matching finding of which is
    also matched by a file-local suppression of the same command line (the worker's logger stops at the local one)"""
    extra = list(got)
    for u in single:
        if u in extra:
            extra.remove(u)
        else:
            return None          # a line of the -j1 run is missing: another class
    if not extra:
        return None
    local = [x for x in sup if len(x.split(":")) > 1 and not any(c in x.split(":")[1] for c in "*?")]
    for u in extra:
        p = u.split("|")
        name = p[5][len("Unmatched suppression: "):] if p[5].startswith("Unmatched suppression: ") else None
        cands = [x for x in sup if x not in local and x.split(":")[0] == name and (p[1] == "nofile" if len(x.split(":")) == 1 else p[1] == x.split(":")[1])]
        if not cands:
            return None
        g = cands[0]
        hit = [f for f in raw if ask(harness25, pdir, [g], f)[1] == "1"]
        if not hit or not all(ask(harness25, pdir, local, f)[0] == "1" for f in hit):
            return None
    return KEY_LOCAL


def run_cli(ctx, res, rng, thorough, viol):
    runner = cli.Runner(ctx, ctx.cppcheck)
    harness25 = cli.robust_harness(ctx, "c25")
    nproj = 6 if thorough else 2
    nsets = 8 if thorough else 3
    ncases = 0
    for k in range(nproj):
        proj = gen_cli_project(rng, k)
        pdir = os.path.join(ctx.tmp, proj["name"])
        cli.write_project(pdir, proj)
        # reference findings (no suppressions; inline suppressions not honoured)
        rc, out, err = runner.run(pdir, ["-q", cli.TEMPLATE, "--template-location=", "--emit-duplicates"] + proj["order"])
        raw = [f for f in cli.parse_lines(err) if f["id"] != "checkersReport"]
        pool = []
        for f in raw:
            pool += [f["id"], "%s:%s" % (f["id"], f["file"]), "%s:%s:%d" % (f["id"], f["file"], f["line"]), "%s:%s:%d" % (f["id"], f["file"], f["line"] + 1),
                     "%s:*.c" % f["id"], f["id"][:4] + "*"]
        for n in proj["order"]:
            pool += ["uninitvar:%s" % n, "memleak:%s:1" % n, "memleak:%s:2" % n, "unmatchedSuppression:%s" % n]
        pool += ["memleak", "bogus*", "uninitvar:*.c", "uninitvar:*.x", "unusedFunction", "misra-c2012-1.1", "unmatchedSuppression:*", "zerodiv:nosuch.c"]
        for t in range(nsets):
            sup = list(dict.fromkeys(rng.sample(pool, min(len(pool), rng.choice([1, 2, 3, 4])))))
            inline = rng.random() < 0.5
            results = {}
            for (ex, bd) in [("single", False), ("thread", False), ("process", False), ("single", True), ("process", True)] if (thorough or t == 0) else \
                    [("single", False), ("thread", False), ("process", False)]:
                case = dict(order=list(proj["order"]), executor=ex, inline=inline)
                bdir = runner.new_bd(pdir) if bd else None
                args = cli.base_args(case, proj, bdir) + ["--suppress=" + s for s in sup]
                rc, out, err = runner.run(pdir, args)
                lines = cli.parse_lines(err)
                results[(ex, bd)] = (cli_unmatched(lines), args, lines)
                ncases += 1
                res.count("cli-executor:" + ex)
            ref = results[("single", False)]
            canon = json.dumps(dict(files=proj["files"], sup=sup, inline=inline), sort_keys=True)
            res.case("cli|" + canon, bool(ref[0]) or True, dict(tie="cli", args=" ".join(ref[1]), unmatched=ref[0]) if t == 0 else None)
            # (b1) executor independence
            for key, (um, args, lines) in results.items():
                if um != ref[0]:
                    k2 = classify_executor_diff(pdir, harness25, sup, raw, um, ref[0]) if key[0] != "single" else None
                    viol.append(("unmatchedSuppression lines differ between executors: %s -> %s ; single -> %s" % (" ".join(args), um, ref[0]),
                                 dict(kind="cli", project=proj, suppress=sup, inline=inline, executor=key[0], builddir=key[1], got=um, single=ref[0]), k2))
            # (b2) never for a suppression that matches a reference finding; every applicable one is named
            shown = [f for f in ref[2] if f["id"] not in ("checkersReport",) and not f["id"].startswith("unmatched")]
            for s in sup:
                q = []
                for f in raw:
                    q.append(" ".join(["q", "1", core.hx(s), "0", core.hx(f["id"]), core.hx(f["file"]), str(f["line"]), "-"]))
                r = subprocess.run([harness25], input="\n".join(q) + "\n", cwd=pdir, stdout=subprocess.PIPE, text=True, timeout=60)
                ans = r.stdout.split("\n")[:-1]
                matches = any(a.startswith("b ") and a[3] == "1" for a in ans)
                parts = s.split(":")
                named = [u for u in ref[0] if u.split("|")[5] == "Unmatched suppression: " + parts[0] and
                         (len(parts) == 1 and u.split("|")[1] == "nofile" or len(parts) > 1 and u.split("|")[1] == parts[1])]
                if matches and named and not inline:
                    viol.append(("unmatchedSuppression reported for a suppression that matches a finding: --suppress=%s : %s" % (s, named),
                                 dict(kind="cli", project=proj, suppress=sup, inline=inline, which=s), None))
                if not matches and not named and not inline:
                    # applicable?  global id; or local file that was analysed; line-specific: the line carries code of an analysed file
                    key = None
                    applicable = False
                    if len(parts) == 1:
                        applicable = not any(c in parts[0] for c in "*?") or True
                    elif parts[1] in proj["files"] and len(parts) == 2:
                        applicable = parts[1] in proj["order"]
                    elif len(parts) == 3 and parts[1] in proj["order"]:
                        text = proj["files"][parts[1]].split("\n")
                        ln = int(parts[2])
                        applicable = 1 <= ln <= len(text) and bool(text[ln - 1].strip()) and not text[ln - 1].startswith(("//", "#"))
                        key = KEY_LINE
                    elif len(parts) == 2 and parts[1] == "*.c":
                        applicable = True
                    sel = any(x.startswith("unmatchedSuppression") for x in sup) or parts[0] in ("unusedFunction",) or parts[0].startswith(("misra", "premium"))
                    if applicable and not sel:
                        viol.append(("no unmatchedSuppression for an applicable suppression that matches nothing: --suppress=%s (%s)" % (s, " ".join(ref[1])),
                                     dict(kind="cli", project=proj, suppress=sup, inline=inline, which=s), key))
    res.extra["cli_runs"] = runner.n
    return ncases


def run_cli_boundary(ctx, res, rng, thorough, viol):
    """#include layouts where the token stream changes file at an UNCHANGED line number, with a suppression (command line
    id:file:line / inline) exactly on the first line of the new file that matches nothing: the property demands one
    unmatchedSuppression there, with every executor"""
    runner = cli.Runner(ctx, ctx.cppcheck)
    n = 6 if thorough else 2
    for k in range(n):
        N = rng.choice([2, 3, 4, 5])
        pdir = os.path.join(ctx.tmp, "bnd%d" % k)
        os.makedirs(pdir, exist_ok=True)
        hdr = "".join("// h%d\n" % i for i in range(N - 1)) + "int shared_%d(void);\n" % k              # last token on line N
        files = {"bh.h": hdr}
        # (1) command line suppression on the includer's first code line after the #include, which is line N as well
        files["m.c"] = "".join("int f%d_%d;\n" % (k, i) for i in range(N - 2)) + '#include "bh.h"\n' + "int tot%d(int n){ return n + 1; }\n" % k
        # (2) the same with an inline suppression (header's last line = N + 1)
        files["bh2.h"] = "".join("// h%d\n" % i for i in range(N)) + "int shared2_%d(void);\n" % k
        files["i.c"] = "".join("int g%d_%d;\n" % (k, i) for i in range(N - 2)) + '#include "bh2.h"\n// cppcheck-suppress nullPointer\n' + "int toti%d(int n){ return n + 2; }\n" % k
        # (3) reverse: the header's first code line (inline suppression above it) has the line number of the includer's last token
        files["rh.h"] = "".join("// r%d\n" % i for i in range(N - 2)) + "// cppcheck-suppress nullPointer\n" + "int rh_%d(void);\n" % k
        files["r.c"] = "".join("// c%d\n" % i for i in range(N - 1)) + "int before%d;\n" % k + '#include "rh.h"\n' + "int after%d;\n" % k
        # control: no include in front of the suppressed line
        files["p.c"] = "".join("int p%d_%d;\n" % (k, i) for i in range(N - 1)) + "int totp%d(int n){ return n + 3; }\n" % k
        for name, text in files.items():
            open(os.path.join(pdir, name), "w").write(text)
        exp = sorted(["unmatchedSuppression|m.c|%d|0|information|Unmatched suppression: nullPointer" % N,
                      "unmatchedSuppression|i.c|%d|1|information|Unmatched suppression: nullPointer" % (N + 1),
                      "unmatchedSuppression|rh.h|%d|1|information|Unmatched suppression: nullPointer" % N,
                      "unmatchedSuppression|p.c|%d|0|information|Unmatched suppression: nullPointer" % N])
        for ex in (["single"], ["thread", "-j2", "--executor=thread"], ["process", "-j2", "--executor=process"]):
            args = ["-q", cli.TEMPLATE, "--template-location=", "--enable=information", "--inline-suppr",
                    "--suppress=nullPointer:m.c:%d" % N, "--suppress=nullPointer:p.c:%d" % N] + ex[1:] + ["m.c", "i.c", "r.c", "p.c"]
            rc, out, err = runner.run(pdir, args)
            um = cli_unmatched(cli.parse_lines(err))
            res.case("cli-boundary|" + json.dumps(files, sort_keys=True) + ex[0], True,
                     dict(tie="cli-boundary", args=" ".join(args), unmatched=um) if k == 0 and ex[0] == "single" else None)
            res.count("cli-boundary:" + ex[0])
            if um != exp:
                viol.append(("a suppression on an analysed line that matches nothing is not reported (token stream changes file at line %d): cppcheck %s prints %s, specified %s"
                             % (N, " ".join(args), um, exp),
                             dict(kind="cli-witness", name="include-boundary-%s" % ex[0], files=files, args=args[3:], got=um, specified=exp), None))


def translate(ctx):
    pass


def extract(root):
    """T: the call sites / helper code the model and the harness copy, fail closed.  Returns (variant, errors)."""
    T = cli
    errs = []
    var = dict(markAlways=None, skipHash=None, showGlobal=None)

    def rd(rel):
        return open(os.path.join(root, rel), encoding="utf-8", errors="replace").read()

    def guard(fn):
        try:
            fn()
        except (T.Unrecognised, ValueError, OSError) as ex:
            errs.append(str(ex))

    def t_cppcheck():
        cc = rd("lib/cppcheck.cpp")
        b = T.function_body(cc, "unsigned int CppCheck::check(const FileWithDetails &file)")
        T.need(b, 'ErrorMessage msg({}, file.spath(), Severity::information, "", "", Certainty::normal); '
                  "(void)mSuppressions.nomsg.isSuppressed(SuppressionList::ErrorMessage::fromErrorMessage(msg, {}), true);", "CppCheck::check (dummy call)")
        b = T.function_body(cc, "unsigned int CppCheck::checkInternal(const FileWithDetails& file, const std::string &cfgname, const CreateTokenListFn& createTokenList)")
        T.need(b, "preprocessor.inlineSuppressions(mSuppressions.nomsg);", "checkInternal")
        T.need(b, "mSuppressions.nomsg.markUnmatchedInlineSuppressionsAsChecked(tokenizer.list);", "checkInternal")
        legacy = "if (mSettings.inlineSuppressions) { mSuppressions.nomsg.markUnmatchedInlineSuppressionsAsChecked(tokenizer.list); }"
        if b.count(legacy) == 1:
            var["markAlways"] = False
        elif "mSettings.inlineSuppressions" not in b:
            var["markAlways"] = True
        else:
            raise T.Unrecognised("checkInternal: the call of markUnmatchedInlineSuppressionsAsChecked has neither the guarded nor the unguarded form")
        b = T.function_body(cc, "void reportErr(const ErrorMessage &msg) override")
        T.need(b, "if (mSuppressions.nomsg.isSuppressed(errorMessage, mUseGlobalSuppressions)) {", "CppCheckLogger::reportErr")
        T.need(b, "if (suppressed) return; if (!mSuppressions.nofail.isSuppressed(errorMessage) && !mSuppressions.nomsg.isSuppressed(errorMessage)) {", "CppCheckLogger::reportErr")
        tail_a = "suppressed = true; } std::string errmsg = msg.toString("
        tail_b = "suppressed = true; if (!mUseGlobalSuppressions) (void)mSuppressions.nomsg.isSuppressed(errorMessage, true); } std::string errmsg = msg.toString("
        if b.count(tail_a) == 1 and b.count(tail_b) == 0:
            var["showGlobal"] = False
        elif b.count(tail_b) == 1 and b.count(tail_a) == 0:
            var["showGlobal"] = True
        else:
            raise T.Unrecognised("CppCheckLogger::reportErr: unexpected statements after `suppressed = true;`")
        pp = rd("lib/preprocessor.cpp")
        b = T.function_body(pp, "void Preprocessor::inlineSuppressions(SuppressionList &suppressions)")
        T.need(b, "if (!mSettings.inlineSuppressions) return;", "Preprocessor::inlineSuppressions")
    guard(t_cppcheck)

    def t_process():
        pe = rd("cli/processexecutor.cpp")
        b = T.function_body(pe, "void writeSuppr(const SuppressionList &supprs) const")
        legacy = "{ for (const auto& suppr : supprs.getSuppressions()) { if (suppr.isInline) writeToPipe(REPORT_SUPPR_INLINE, suppressionToString(suppr)); " \
                 "else if (suppr.checked) writeToPipe(REPORT_SUPPR, suppressionToString(suppr)); } }"
        patched = "{ for (const auto& suppr : supprs.getSuppressions()) { if (suppr.hash > 0) continue; if (suppr.isInline) writeToPipe(REPORT_SUPPR_INLINE, suppressionToString(suppr)); " \
                  "else if (suppr.checked) writeToPipe(REPORT_SUPPR, suppressionToString(suppr)); } }"
        if b == legacy:
            var["skipHash"] = False
        elif b == patched:
            var["skipHash"] = True
        else:
            raise T.Unrecognised("PipeWriter::writeSuppr has neither the known legacy nor the patched form: " + b[:300])
        b = T.function_body(pe, "static std::string suppressionToString(const SuppressionList::Suppression &suppr)")
        if b != '{ std::string suppr_str = suppr.toString(); suppr_str += ";"; suppr_str += std::to_string(suppr.column); suppr_str += ";"; ' \
                'suppr_str += suppr.checked ? "1" : "0"; suppr_str += ";"; suppr_str += suppr.matched ? "1" : "0"; suppr_str += ";"; ' \
                "suppr_str += suppr.extraComment; return suppr_str; }":
            raise T.Unrecognised("PipeWriter::suppressionToString changed (the harness writes the same format into the pipe): " + b[:300])
        b = T.function_body(pe, "bool ProcessExecutor::handleRead(int rpipe, unsigned int &result, const std::string& filename)")
        T.need(b, "auto suppr = SuppressionList::parseLine(parts[0]); suppr.isInline = (type == PipeWriter::REPORT_SUPPR_INLINE); suppr.column = strToInt<int>(parts[1]); "
                  'suppr.checked = parts[2] == "1"; suppr.matched = parts[3] == "1"; suppr.extraComment = parts[4];', "handleRead")
        T.need(b, "const std::string err = mSuppressions.nomsg.addSuppression(suppr); if (!err.empty()) { mSuppressions.nomsg.updateSuppressionState(suppr);", "handleRead")
        c = T.function_body(pe, "unsigned int ProcessExecutor::check()")
        T.need(c, "pipewriter.writeSuppr(supprs.nomsg);", "ProcessExecutor::check")
        T.need(c, "supprs.nomsg.addSuppressions(mSuppressions.nomsg.getSuppressions());", "ProcessExecutor::check")
    guard(t_process)

    def t_thread():
        te = rd("cli/threadexecutor.cpp")
        b = T.function_body(te, "unsigned int check(const FileWithDetails *file, const FileSettings *fs)")
        T.need(b, "for (const auto& suppr : mSuppressions.nomsg.getSuppressions()) { if (suppr.isInline) { const std::string err = mSuppressions.nomsg.addSuppression(suppr); "
                  "if (!err.empty()) { mSuppressions.nomsg.updateSuppressionState(suppr); } continue; } if (!suppr.isLocal()) { mSuppressions.nomsg.updateSuppressionState(suppr); continue; } }",
               "ThreadData::check (propagation loop, repeated in the harness)")
    guard(t_thread)

    def t_mark():
        sp = rd("lib/suppressions.cpp")
        b = T.function_body(sp, "void SuppressionList::markUnmatchedInlineSuppressionsAsChecked(const TokenList &tokenlist)")
        want = ("{ std::lock_guard<std::mutex> lg(mSuppressionsSync); int currLineNr = -1; int currFileIdx = -1; "
                "for (const Token *tok = tokenlist.front(); tok; tok = tok->next()) { "
                "if (currFileIdx != tok->fileIndex() || currLineNr != tok->linenr()) { currLineNr = tok->linenr(); currFileIdx = tok->fileIndex(); "
                "for (auto &suppression : mSuppressions) { if (suppression.type == SuppressionList::Type::unique) { "
                "if (!suppression.checked && (suppression.lineNumber == currLineNr) && (suppression.fileName == tokenlist.file(tok))) { suppression.checked = true; } } "
                "else if (suppression.type == SuppressionList::Type::block) { "
                "if ((!suppression.checked && (suppression.lineBegin <= currLineNr) && (suppression.lineEnd >= currLineNr) && (suppression.fileName == tokenlist.file(tok)))) { suppression.checked = true; } } "
                "else if (!suppression.checked && suppression.fileName == tokenlist.file(tok)) { suppression.checked = true; } } } } }")
        if b != want:
            raise T.Unrecognised("SuppressionList::markUnmatchedInlineSuppressionsAsChecked is not the loop the model `markStream` copies "
                                 "(a token is visited iff file index OR line differs from the previous token): " + b[:400])
        b = T.function_body(sp, "bool SuppressionList::Suppression::isMatch(const SuppressionList::ErrorMessage &errmsg)")
        if b != ("{ switch (isSuppressed(errmsg)) { case Result::None: return false; case Result::Checked: checked = true; return false; "
                 "case Result::Matched: checked = true; matched = true; return true; } cppcheck::unreachable(); }"):
            raise T.Unrecognised("Suppression::isMatch changed: " + b[:300])
    guard(t_mark)

    def t_exec():
        ce = rd("cli/cppcheckexecutor.cpp")
        b = T.function_body(ce, "int CppCheckExecutor::check_internal(const Settings& settings, Suppressions& supprs) const")
        T.need(b, "if ((settings.severity.isEnabled(Severity::information) || settings.checkConfiguration) && !supprs.nomsg.getSuppressions().empty()) {", "check_internal")
        T.need(b, "reportUnmatchedSuppressions(settings, supprs.nomsg, mFiles, mFileSettings, stdLogger", "check_internal")
    guard(t_exec)
    return var, errs


def expected_variant():
    """the statement forms the tree must have: a finding recorded as `fixed` demands the repaired form"""
    kinds = {e.get("key"): e.get("kind") for e in core.load_known() if e.get("property") == "C24"}
    return dict(markAlways=kinds.get(KEY_LINE) == "fixed", skipHash=kinds.get(KEY_HASH) == "fixed", showGlobal=kinds.get(KEY_LOCAL) == "fixed")


def load_corpus():
    p = os.path.join(core.VERIF, "corpus", "C24", "cases.json")
    return json.load(open(p)) if os.path.exists(p) else []


def run_sequences(ctx, res, seqs, name, viol, check_spec=True):
    exe = cli.robust_harness(ctx, "c24", with_cli=True)
    drv = ctx.driver("drv_c24")
    hl = [harness_line(op) for (kind, ops) in seqs for op in ops]
    flat = [(kind, op) for (kind, ops) in seqs for op in ops]
    rc, hout, herr = core.run_lines(exe, [], hl, timeout=900)
    if len(hout) != len(hl):
        raise core.CheckBroken("C24 harness produced %d lines for %d ops (rc=%s): %s" % (len(hout), len(hl), rc, herr[-500:]))
    parsed = []
    for o in hout:
        m = re.match(r"^P (.*?) \| (.*?) \| (.*)$", o)
        if not m:
            raise core.CheckBroken("C24 harness line: %r" % o)
        parsed.append((parse_params(m.group(1)), m.group(2), m.group(3)))
    flagdep = [hl[i] for i, p in enumerate(parsed) if "F" in p[0].get("vs", "") or "F" in p[0].get("vs2", "")]
    res.oblig("assumption:FlagFree(" + name + ")", not flagdep, "assumption",
              "" if not flagdep else "Suppression::isSuppressed gave another verdict with the flags toggled: " + flagdep[0])
    dl = [driver_line(op, p[0]) for (kind, op), p in zip(flat, parsed)]
    rc, mout, merr = core.run_lines(drv, [], dl, timeout=900)
    impl = ["%s | %s" % (p[1], p[2]) for p in parsed]

    def nontrivial(i):
        kind, op = flat[i]
        if op[0] == "new":
            return False
        prev_state = parsed[i - 1][2] if i else "-"
        return parsed[i][2] != prev_state or (op[0] in ("report", "ul", "ug", "ui", "wire") and parsed[i][2] != "-") or op[0] in ("sup", "supx") and parsed[i][2] != "-"
    if len(mout) != len(dl):
        res.oblig("correspondence:" + name, False, "correspondence", "driver produced %d lines for %d ops: %s" % (len(mout), len(dl), merr[-300:]))
        return
    mism = []
    prefix = ""
    for i, ((kind, op), a, b) in enumerate(zip(flat, impl, mout)):
        if op[0] == "new":
            prefix = "s%d" % i
        prefix_key = prefix + "|" + hl[i]
        prefix = str(hash(prefix_key))
        samp = dict(tie=name, op=hl[i], impl=a[:300], model=b[:300]) if (i % max(1, len(flat) // 4) == 7) else None
        res.case(name + "|" + prefix_key, nontrivial(i), samp)
        res.count("op:" + op[0])
        if a != b:
            mism.append(i)
    res.traces_validated += len(flat) - len(mism)
    res.oblig("correspondence:" + name, not mism, "correspondence",
              "" if not mism else "%d of %d ops differ; first: op=%s (driver op %s) impl=[%s] model=[%s]" % (len(mism), len(flat), hl[mism[0]], dl[mism[0]], impl[mism[0]][:400], mout[mism[0]][:400]))
    # ---- the model no longer explains the code: look for a concrete input on which the PROPERTY fails, around the disagreeing ops
    if mism and check_spec and name != "search":
        search_sequences(ctx, res, seqs, flat, parsed, mism, viol)
    # ---- P_impl (a): history-based specification on the sequential sequences
    if check_spec:
        pos = 0
        for (kind, ops) in seqs:
            outs = parsed[pos:pos + len(ops)]
            if kind == "seq":
                exp = spec_sequence(ops, outs)
                got = [sorted(x for x in o[1].split(" ")[1:] if x != "-") for op, o in zip(ops, outs) if op[0] == "report"]
                for e, g, op in zip(exp, got, [op for op in ops if op[0] == "report"]):
                    res.count("spec-report-checked")
                    if e != g:
                        viol.append(("in-process report differs from the history-based specification: expected %s got %s" % (e, g),
                                     dict(kind="seq", ops=[harness_line(o) for o in ops], expected=e, got=g), None))
            pos += len(ops)
    return mism


def search_sequences(ctx, res, seqs, flat, parsed, mism, viol):
    """for every disagreeing op: rebuild the list it ran on from plain `add`s (flags cleared), apply the op, and ask for a report over
    all files - a sequence of the sequential machine, so the model-free history specification (P_impl a) decides it"""
    cand = []
    seen = set()
    for i in mism[:60]:
        kind, op = flat[i]
        if op[0] not in ("mark", "sup"):
            continue
        state = parsed[i - 1][2] if i else "-"
        entries = [] if state == "-" else [parse_tok(t) for t in state.split(" ")]
        ops = [("new",)]
        for e in entries:
            e = dict(e, chk=False, mat=False)
            ops.append(("add", e))
        ops.append(op)
        for inl in (True, False):
            ops.append(("report", inl, ["a.c", "b.c", "src/a.c", "h.h"], []))
        key = json.dumps([harness_line(o) for o in ops])
        if key not in seen:
            seen.add(key)
            cand.append(("seq", ops))
    if cand:
        res.extra["search_sequences"] = len(cand)
        run_sequences(ctx, core.Result(ctx, res.level), cand, "search", viol)


def run(ctx, res):
    rng = ctx.rng
    thorough = ctx.tier == "thorough"
    core.prove(ctx, res, MODULES, THEOREMS)
    res.assumptions += [
        "FlagFree: Suppression::isSuppressed reads no flag (checked on every verdict of every run: asked twice with the flags toggled)",
        "the verdict of a suppression on a message, PathMatch::match, matchglob and isValidGlobPattern are parameters (the harness reports the real answers; property C23)",
        "what CppCheck::check does to the list per file (`fileOps`) is tied by statement extraction and the CLI runs, not executed op by op",
        "executor theorems: arrival order (merge_commutes), flags of an entry of the initial list (merge_equals_sequential), the worker's logger (worker_reportErr_equals_single_call); "
        "threadPropagate, entries added inside a worker and report(parallel) = report(sequential) are covered by the correspondence / CLI runs only"]
    viol = []
    var, errs = extract(core.REPO)
    exp = expected_variant()
    detail = "; ".join(errs)
    for k in ("markAlways", "skipHash", "showGlobal"):
        if var[k] is not None and var[k] != exp[k]:
            detail += " | %s: the source has the %s form but known_findings records the defect as %s" % (
                k, "repaired" if var[k] else "legacy", "fixed" if exp[k] else "open finding")
    res.oblig("T1:form-of-the-three-repairable-statements", all(var[k] == exp[k] for k in exp), "translation", detail)
    res.oblig("T2:copied-helper-code-and-call-sites", not errs, "translation", "; ".join(errs))
    res.extra["variant_seen"] = var
    for k in exp:
        VARIANT[k] = bool(var[k])
    # corpus first
    corpus = load_corpus()
    cseqs = [(c.get("kind", "mix"), [tuple(o) if not isinstance(o, tuple) else o for o in c["ops"]]) for c in corpus if c.get("ops")]
    if cseqs:
        run_sequences(ctx, res, cseqs, "corpus", viol)
    nseq = 400 if thorough else 60
    seqs = []
    for i in range(nseq):
        kind = "seq" if i % 2 == 0 else "mix"
        seqs.append((kind, gen_sequence(rng, kind, rng.choice([10, 20, 30, 40]))))
    run_sequences(ctx, res, seqs, "suppression-state-machine", viol)
    run_cli(ctx, res, rng, thorough, viol)
    run_cli_boundary(ctx, res, rng, thorough, viol)
    # the recorded CLI witnesses of the corpus
    for c in corpus:
        if c.get("cli"):
            replay_cli(ctx, res, c, viol)
    seen = set()
    for (what, rp, key) in viol:
        k = (key, what[:80])
        if k in seen:
            continue
        seen.add(k)
        res.violation(what, dict(rp, replay_cmd="./check.py C24 --replay <this file>"), concrete=True, key=key)
        if len(seen) > 12:
            break


def replay_cli(ctx, res, c, viol):
    """corpus entry with a CLI witness: {cli: {files, args, expect_unmatched: [...] }} – the witness reproduces iff the printed
    unmatchedSuppression lines equal `observed` (the defective behaviour) and differ from `specified`"""
    w = c["cli"]
    pdir = os.path.join(ctx.tmp, "cw_" + c["name"])
    os.makedirs(pdir, exist_ok=True)
    for n, t in w["files"].items():
        open(os.path.join(pdir, n), "w").write(t)
    runner = cli.Runner(ctx, ctx.cppcheck)
    rc, out, err = runner.run(pdir, ["-q", cli.TEMPLATE, "--template-location="] + w["args"])
    um = cli_unmatched(cli.parse_lines(err))
    res.count("corpus-cli")
    if um != sorted(w["specified"]):
        viol.append(("%s: cppcheck %s prints %s, the property specifies %s" % (c["name"], " ".join(w["args"]), um, sorted(w["specified"])),
                     dict(kind="cli-witness", name=c["name"], files=w["files"], args=w["args"], got=um, specified=w["specified"]), c.get("expect_key")))


def replay(ctx, res, rp):
    viol = []
    if rp.get("kind") == "seq":
        ops = []
        print("sequence of %d ops; re-running through harness and model" % len(rp["ops"]))
        exe = cli.robust_harness(ctx, "c24", with_cli=True)
        rc, hout, herr = core.run_lines(exe, [], rp["ops"])
        for l, o in zip(rp["ops"], hout):
            print("  %s\n     -> %s" % (l, o[:300]))
        got = [sorted(x for x in o.split(" | ")[1].split(" ")[1:] if x != "-") for l, o in zip(rp["ops"], hout) if l.startswith("report")]
        bad = bool(got) and got[-1] != rp.get("expected")
        print("replay: %s" % ("still fails" if bad else "passes"))
        return 1 if bad else 0
    if rp.get("kind") == "cli-witness":
        replay_cli(ctx, res, dict(name=rp["name"], cli=dict(files=rp["files"], args=rp["args"], specified=rp["specified"])), viol)
    elif rp.get("kind") == "cli":
        pdir = os.path.join(ctx.tmp, "replay")
        cli.write_project(pdir, rp["project"])
        runner = cli.Runner(ctx, ctx.cppcheck)
        for ex in ("single", "thread", "process"):
            case = dict(order=list(rp["project"]["order"]), executor=ex, inline=rp.get("inline"))
            args = cli.base_args(case, rp["project"], None) + ["--suppress=" + s for s in rp["suppress"]]
            rc, out, err = runner.run(pdir, args)
            print("%s: %s" % (ex, cli_unmatched(cli.parse_lines(err))))
        print("replay: see the lines above (stored: %s)" % rp.get("got"))
        return 1
    for (what, r, k) in viol:
        print("VIOLATION property=C24 replay=(replayed) %s" % what)
    print("replay: %s" % ("still fails" if viol else "passes"))
    return 1 if viol else 0

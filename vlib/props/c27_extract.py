"""C27 translator, part 1: clang JSON AST of the check classes -> pruned function records (cached).

For every lib/check*.cpp that contains an emission (`reportError(` or an `ErrorMessage` construction) the classes defined in the
file are dumped with `clang++-14 -Xclang -ast-dump=json -Xclang -ast-dump-filter=<Class>`; the output (several concatenated JSON
objects) is read with a raw_decode loop, source lines are reconstructed in document order (clang prints file/line only when they
change), and every function with a body (methods defined in the .cpp, inline methods of the class, lambdas stay inside their
function) is kept as a *pruned* tree (only the keys the abstract interpreter in c27_guards.py reads).

Cache: /verif/.build/cache/c27/<sha256(file content, digest of all headers, filter, command)>.pickle
"""
import glob, gzip, hashlib, json, os, pickle, re, subprocess, concurrent.futures

from .. import core

REPO = core.REPO
CACHE = os.path.join(core.VERIF, ".build", "cache", "c27")
INCS = ["lib", "externals", "externals/simplecpp", "externals/tinyxml2", "externals/picojson"]
VERSION = "5"      # bump when the pruning changes


def clang_cmd(flt):
    return ["clang++-14", "-std=gnu++17", "-fsyntax-only", "-w", "-DDANMAR_CPPCHECK_VERIF"] + ["-I%s/%s" % (REPO, d) for d in INCS] + \
        ["-Xclang", "-ast-dump=json", "-Xclang", "-ast-dump-filter=" + flt]


def source_files():
    out = []
    for p in sorted(glob.glob(os.path.join(REPO, "lib", "check*.cpp"))):
        t = open(p, encoding="utf-8", errors="replace").read()
        if "reportError(" in t or re.search(r"\bErrorMessage\s+\w+\s*\(|\bErrorMessage\s*\(", t):
            out.append(p)
    return out


def classes_in(path):
    """class names that have member functions defined in the file (column-0 definitions `T Class::name(`)"""
    t = open(path, encoding="utf-8", errors="replace").read()
    names = set()
    for m in re.finditer(r"^(?![ \t#/}])[^\n;{}()]*?\b([A-Za-z_]\w*)::(~?\w+)\s*\(", t, re.M):
        if m.group(1).startswith("Check"):
            names.add(m.group(1))
    # a filter is a substring match on the qualified name: keep only names that are not covered by a shorter one
    names = sorted(names, key=len)
    keep = []
    for n in names:
        if not any(k in n for k in keep):
            keep.append(n)
    return keep


_hd = None


def headers_digest():
    global _hd
    if _hd is None:
        h = hashlib.sha256()
        for d in INCS:
            for p in sorted(glob.glob(os.path.join(REPO, d, "*.h"))):
                h.update(p.encode())
                h.update(open(p, "rb").read())
        _hd = h.hexdigest()
    return _hd


def ast_objects(s):
    dec = json.JSONDecoder()
    i, n = 0, len(s)
    while i < n:
        while i < n and s[i].isspace():
            i += 1
        if i >= n:
            break
        o, j = dec.raw_decode(s, i)
        yield o
        i = j


class LocState:
    """clang prints file / line only when they differ from the previously printed location: replay that in document order"""

    def __init__(self):
        self.file = None
        self.line = None

    def bare(self, d):
        if "file" in d:
            self.file = d["file"]
        if "line" in d:
            self.line = d["line"]
        if "offset" not in d:
            return None
        return (self.file, self.line)

    def loc(self, d):
        if not isinstance(d, dict):
            return None
        if "spellingLoc" in d or "expansionLoc" in d:
            r = None
            for k in d:
                if k in ("spellingLoc", "expansionLoc"):
                    v = self.bare(d[k])
                    if k == "expansionLoc":
                        r = v
            return r
        return self.bare(d)

    def annotate(self, x):
        if isinstance(x, dict):
            for k, v in list(x.items()):
                if k == "loc":
                    x["_l"] = self.loc(v)
                elif k == "range":
                    b = e = None
                    for kk, vv in v.items():
                        if kk == "begin":
                            b = self.loc(vv)
                        elif kk == "end":
                            e = self.loc(vv)
                    x["_b"], x["_e"] = b, e
                elif isinstance(v, (dict, list)) and not k.startswith("_"):
                    self.annotate(v)
        elif isinstance(x, list):
            for v in x:
                self.annotate(v)


KEEP = ("kind", "id", "name", "opcode", "value", "castKind", "isArrow", "referencedMemberDecl", "hasElse", "hasInit", "hasVar",
        "isPostfix", "mangledName", "parentDeclContextId", "previousDecl", "storageClass", "init", "isImplicit", "valueCategory")


def prune(n):
    """keep only what the interpreter reads; `ln` = first line of the node (expansion location)"""
    if not isinstance(n, dict):
        return n
    o = {}
    for k in KEEP:
        if k in n:
            o[k] = n[k]
    t = n.get("type")
    if isinstance(t, dict):
        o["ty"] = t.get("qualType", "")
        if "desugaredQualType" in t:
            o["dty"] = t["desugaredQualType"]
    r = n.get("referencedDecl")
    if isinstance(r, dict):
        o["ref"] = {"id": r.get("id"), "kind": r.get("kind"), "name": r.get("name"), "ty": (r.get("type") or {}).get("qualType", "")}
    b = n.get("_b") or n.get("_l")
    if b:
        o["ln"] = b[1]
    e = n.get("_e")
    if e:
        o["le"] = e[1]
    if n.get("kind", "").endswith("Decl") and n.get("_l"):
        o["file"] = n["_l"][0]
        o["ln"] = n["_l"][1]
    if n.get("kind") == "StringLiteral" and len(o.get("value", "")) > 120:
        o["value"] = o["value"][:120]
    inner = n.get("inner")
    if inner is not None:
        o["inner"] = [prune(c) for c in inner if not (isinstance(c, dict) and c.get("kind") in ("FullComment", "ParagraphComment", "TextComment"))]
    return o


def renumber(objs):
    """clang's node ids are addresses (different in every run): replace them by numbers in document order, so that the keys
    the interpreter derives from them — and with them the generated Lean table — only depend on the source"""
    m = {}

    def nid(x):
        if x is None:
            return None
        if x not in m:
            m[x] = "n%d" % len(m)
        return m[x]

    def rec(n):
        if not isinstance(n, dict):
            return
        for k in ("id", "referencedMemberDecl", "parentDeclContextId", "previousDecl"):
            if k in n:
                n[k] = nid(n[k])
        r = n.get("ref")
        if isinstance(r, dict) and "id" in r:
            r["id"] = nid(r["id"])
        for c in n.get("inner", []):
            rec(c)
    for o in objs:
        rec(o)


def has_body(fn):
    return any(isinstance(c, dict) and c.get("kind") == "CompoundStmt" for c in fn.get("inner", []))


FUNC_KINDS = ("CXXMethodDecl", "CXXConstructorDecl", "CXXDestructorDecl", "FunctionDecl", "CXXConversionDecl")


def collect(objs, path):
    """-> dict(classes: id -> name, decls: id -> (class, name, mangled), functions: [pruned function with body])"""
    classes, decls, funcs = {}, {}, []
    relpath = os.path.relpath(path, REPO)

    def walk_record(rec, prefix):
        nm = rec.get("name") or "<anon>"
        q = prefix + nm
        classes[rec["id"]] = q
        for c in rec.get("inner", []):
            k = c.get("kind")
            if k in FUNC_KINDS:
                decls[c["id"]] = (q, c.get("name"), c.get("mangledName"))
                if has_body(c):
                    f = dict(c)
                    f["cls"] = q
                    funcs.append(f)
            elif k == "CXXRecordDecl" and not c.get("isImplicit") and c.get("inner"):
                walk_record(c, q + "::")
            elif k == "FunctionTemplateDecl":
                for cc in c.get("inner", []):
                    if cc.get("kind") in FUNC_KINDS:
                        decls[cc["id"]] = (q, cc.get("name"), cc.get("mangledName"))

    for o in objs:
        if o.get("kind") == "CXXRecordDecl" and o.get("inner") and not o.get("isImplicit"):
            # nested records are also printed on their own when they match the filter: the prefix is taken from the parent map
            pre = ""
            pid = o.get("parentDeclContextId")
            if pid in classes:
                pre = classes[pid] + "::"
            if o["id"] not in classes:
                walk_record(o, pre)
    for o in objs:
        if o.get("kind") in FUNC_KINDS:
            pid = o.get("parentDeclContextId")
            cls = classes.get(pid)
            if o["id"] in decls and not has_body(o):
                continue
            decls[o["id"]] = (cls, o.get("name"), o.get("mangledName"))
            if o.get("previousDecl"):
                decls.setdefault(o["previousDecl"], (cls, o.get("name"), o.get("mangledName")))
            if has_body(o) and not any(f["id"] == o["id"] for f in funcs):
                f = dict(o)
                f["cls"] = cls
                funcs.append(f)
    return dict(file=relpath, classes=classes, decls={k: list(v) for k, v in decls.items()}, functions=funcs)


def extract_one(path, flt, fresh=False):
    os.makedirs(CACHE, exist_ok=True)
    cmd = clang_cmd(flt)
    key = hashlib.sha256(("\0".join([VERSION, open(path, "rb").read().decode("latin-1"), headers_digest(), flt] + cmd)).encode("latin-1")).hexdigest()
    cp = os.path.join(CACHE, key + ".pickle")
    if os.path.exists(cp) and not fresh:
        try:
            with open(cp, "rb") as f:
                return pickle.load(f), True
        except Exception:
            pass
    r = subprocess.run(cmd + [os.path.relpath(path, REPO)], cwd=REPO, stdout=subprocess.PIPE, stderr=subprocess.PIPE)
    if r.returncode != 0:
        return dict(error="clang failed on %s (%s): %s" % (path, flt, r.stderr.decode("utf-8", "replace")[-1500:])), False
    objs = list(ast_objects(r.stdout.decode("utf-8", "replace")))
    ls = LocState()
    ls.annotate(objs)
    pr = [prune(o) for o in objs]
    renumber(pr)
    res = collect(pr, path)
    res["filter"] = flt
    tmp = cp + ".%d.tmp" % os.getpid()
    with open(tmp, "wb") as f:
        pickle.dump(res, f, protocol=4)
    os.replace(tmp, cp)
    return res, False


def prune_cache(keep=200):
    try:
        for p in glob.glob(os.path.join(CACHE, "*.json.gz")):
            os.remove(p)
        fs = sorted(glob.glob(os.path.join(CACHE, "[0-9a-f]*.pickle")), key=os.path.getmtime)
        for p in fs[:-keep]:
            os.remove(p)
    except OSError:
        pass


def extract_all(fresh=False, workers=3):
    """-> (list of per-(file, filter) results, stats)"""
    jobs = []
    for p in source_files():
        for c in classes_in(p):
            jobs.append((p, c))
    out, hits = [], 0
    import gc
    was = gc.isenabled()
    gc.disable()            # unpickling millions of small dicts: the cyclic collector only slows it down
    try:
        with concurrent.futures.ThreadPoolExecutor(max_workers=workers) as ex:
            for res, hit in ex.map(lambda j: extract_one(j[0], j[1], fresh), jobs):
                out.append(res)
                hits += 1 if hit else 0
    finally:
        if was:
            gc.enable()
    prune_cache()
    return out, dict(dumps=len(jobs), cache_hits=hits, files=len(set(j[0] for j in jobs)))

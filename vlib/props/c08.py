"""C08 — name resolution agrees with the compiler (scope fragment).

Obligations
  theorems   Cppcheck.VarMap.*  (Lean): the model of VariableMap + setVarIdPass1's scope handling gives every name token
             of every scope program the id lexical scoping gives; declarations get pairwise distinct ids
  C1         real Tokenizer (in-process, C and C++ mode) on the printed program == model `resolve` of the same program
  W          the corpus witnesses of F4 are discriminating: the pre-fix replay order (model `resolveOld`) differs from the
             specification on them (so the comparison would notice the defect coming back)
  C2         clang's referencedDecl for the same text == the SPECIFICATION `specProg` (validates the spec)
  T          statement shape of VariableMap::{enterScope,leaveScope,addVariable} and of every scope / addVariable / lookup site
             of setVarIdPass1 with its guards == corpus/C08/setvarid_shape.json (fail closed on source changes)
  L          link probes (outside the Lean model, sampled): Token::function / Token::variable of calls, members, namespace and
             static members, lambda parameters == the declaration g++ selects (sizeof probes)
  D          (thorough) the ids in `cppcheck --dump` == the ids read in-process
P_impl       every linked name token of the real tokenizer carries the id of the declaration lexical scoping binds it to,
             and no two declarations share an id
"""
import json, os, re, subprocess, concurrent.futures
from .. import core, build_repo

ID = "C08"
LEVEL = "other"
RULE = ("cases = scope programs (globals, prototypes, functions with parameters, nested blocks, if/else/else-if, while, switch, "
        "do-while, for with init declarations, try/catch, declarations with initialisers that mention the declared name, extern "
        "re-declarations in one scope, C++: ::x and condition declarations) printed as C or C++ text, each tracked name on its own "
        "line; non-trivial = some name is used after at least two of its declarations have been seen")
EXPLANATION = ("Lean theorems (all programs of the modelled fragment, unbounded nesting): the undo-log symbol table driven by the "
               "modelled setVarIdPass1 events resolves every name token exactly as lexical scoping does (partial: no enumerator hides a "
               "visible variable, F8b); declaration ids are pairwise distinct in the model, and P_impl checks that on the real ids. Ties on "
               "every run: real Tokenizer::simplifyTokens1 in-process on printed programs (C and C++) vs the compiled model; statement shape "
               "of the VariableMap operations and their guards in setVarIdPass1 extracted from the source and compared fail-closed with "
               "the reading the model encodes (T:setvarid-shape); clang -ast-dump=json as oracle for the specification; thorough: ids of "
               "cppcheck --dump. Level is 'other' because the property quantifies over all programs clang accepts: calls / overloads, "
               "struct members, static members, namespaces, using, lambdas have NO model and no theorem (except the per-class member "
               "table of setVarIdPass2 for members used in out-of-line member functions: Model/ClassVars.lean, classvars_refines); they are only sampled (link "
               "probes: Token::function / Token::variable after the SymbolDatabase vs g++ -fsyntax-only sizeof probes), which exposed "
               "the findings F8c-F8g. Not even sampled: templates, typedef names, structured bindings, inheritance, ADL, default "
               "arguments in ranking, setVarIdPass2 member functions defined outside the class.")
THEOREMS = ["Cppcheck.VarMap.varmap_refines_partial", "Cppcheck.VarMap.varmap_refines", "Cppcheck.VarMap.varmap_enum_counterexample",
            "Cppcheck.VarMap.run_eq_srun_partial", "Cppcheck.VarMap.run_eq_srun_of_noGuse_partial", "Cppcheck.VarMap.run_guse_undeclared_counterexample",
            "Cppcheck.VarMap.resolve_eq_spec_partial", "Cppcheck.VarMap.resolve_enum_counterexample",
            "Cppcheck.VarMap.ids_distinct", "Cppcheck.VarMap.declIds_range",
            "Cppcheck.VarMap.varmap_oldorder_counterexample", "Cppcheck.VarMap.resolveOld_counterexample",
            "Cppcheck.VarMap.classvars_refines_partial", "Cppcheck.VarMap.classvars_refines",
            "Cppcheck.VarMap.classvars_two_bases_counterexample", "Cppcheck.VarMap.classvars_nooverwrite_counterexample"]
MODULES = ["Cppcheck.Props.C08"]

TYPES = ["int", "long", "unsigned", "short"]


def ty_of(x):
    return TYPES[x % len(TYPES)]


# ---- program representation ---------------------------------------------------------------------------
# use      : n  |  ["g", n]                      (x / ::x)
# cond     : ["c", uses] | ["d", x, uses]
# forinit  : ["n"] | ["e", uses] | ["d", x, uses]
# stmt     : ["D", x, uses, attrs] | ["X", uses, attrs] | ["B", stmts, attrs] | ["I", cond, stmts, attrs]
#            | ["J", cond, stmts, stmts, attrs] | ["W", cond, stmts, attrs] | ["O", stmts, uses, attrs]
#            | ["R", forinit, uses, uses, stmts, attrs]
# top      : ["G", x, uses, attrs] | ["F", params, stmts] | ["P", params]
# attrs only select the printed form (extern/static, initialiser, statement shape, braces, else-if, switch, try/catch);
# the Lean side never sees them.

def enc_u(u):
    return "g%d" % u[1] if isinstance(u, list) else str(u)


def enc_us(us):
    return [str(len(us))] + [enc_u(u) for u in us]


def enc_cond(c):
    return ["c"] + enc_us(c[1]) if c[0] == "c" else ["d", str(c[1])] + enc_us(c[2])


def enc_forinit(i):
    if i[0] == "n":
        return ["n"]
    if i[0] == "e":
        return ["e"] + enc_us(i[1])
    return ["d", str(i[1])] + enc_us(i[2])


def enc_stmts(ss):
    out = []
    for s in ss:
        out += enc_stmt(s)
    return out + ["E"]


def enc_stmt(s):
    k = s[0]
    if k == "D":
        return ["D", str(s[1])] + enc_us(s[2])
    if k == "X":
        return ["X"] + enc_us(s[1])
    if k == "N":
        return ["N", str(s[1])] + enc_us(s[2])
    if k == "B":
        return ["B"] + enc_stmts(s[1])
    if k == "I":
        return ["I"] + enc_cond(s[1]) + enc_stmts(s[2])
    if k == "J":
        return ["J"] + enc_cond(s[1]) + enc_stmts(s[2]) + enc_stmts(s[3])
    if k == "W":
        return ["W"] + enc_cond(s[1]) + enc_stmts(s[2])
    if k == "O":
        return ["O"] + enc_stmts(s[1]) + enc_us(s[2])
    if k == "R":
        return ["R"] + enc_forinit(s[1]) + enc_us(s[2]) + enc_us(s[3]) + enc_stmts(s[4])
    raise ValueError(k)


def enc_prog(p):
    out = []
    for t in p:
        if t[0] == "G":
            out += ["G", str(t[1])] + enc_us(t[2])
        elif t[0] == "F":
            out += ["F", str(len(t[1]))] + [str(x) for x in t[1]] + enc_stmts(t[2])
        elif t[0] == "P":
            out += ["P", str(len(t[1]))] + [str(x) for x in t[1]]
        elif t[0] == "M":
            out += ["M", str(t[1])] + enc_us(t[2])
        else:
            raise ValueError(t[0])
    return "prog " + " ".join(out)


def attrs(s):
    return s[-1] if isinstance(s[-1], dict) else {}


# ---- printer: every tracked name occurrence on a line of its own ---------------------------------------

OPS = [" + ", " - ", " * ", " + ", " | ", " & "]


class Printer:
    def __init__(self, cpp, prefix="", header=True):
        self.cpp = cpp
        self.prefix = prefix      # name prefix (the clang oracle puts many programs into one translation unit)
        self.header = header
        self.buf = []
        self.line = 1
        self.off = 0
        self.occ = []       # (line, name, 'd'|'u'|'g', byte offset of the name token)
        self.ncase = 0

    def w(self, s):
        self.buf.append(s)
        self.line += s.count("\n")
        self.off += len(s)

    def name(self, x, kind):
        self.w("\n")
        self.occ.append((self.line, x, kind, self.off))
        self.w("%sv%d\n" % (self.prefix, x))

    def use(self, u):
        if isinstance(u, list):
            self.w("::")
            self.name(u[1], "g")
        else:
            self.name(u, "u")

    def rvalue(self, us, ops=0, empty="1"):
        if not us:
            self.w(empty)
        for j, u in enumerate(us):
            if j:
                self.w(OPS[(ops + j) % len(OPS)])
            if (ops + j) % 5 == 4 and not isinstance(u, list):    # `) :: x` is skipped by setVarIdPass1 (unlinked, see `return`)
                self.w("(int)")
            self.use(u)

    def gexpr(self, us):
        # file-scope initialiser: a constant expression in C as well
        if not us:
            self.w("1")
        for j, u in enumerate(us):
            if j:
                self.w(" + ")
            self.w("sizeof(")
            self.use(u)
            self.w(")")

    def decl(self, x, us, at, glob=False):
        if at.get("ext"):
            self.w("extern ")
        elif at.get("static"):
            self.w("static ")
        self.w(ty_of(x))
        self.name(x, "d")
        if at.get("ini") or us:
            self.w(" = ")
            if glob or at.get("static"):
                self.gexpr(us)
            else:
                self.rvalue(us, at.get("ops", 0))

    def enum(self, x, us, at):
        # `enum { x = e };` / `enum E3 { x };` - the initialiser is a constant expression (sizeof of the uses)
        self.w("enum E%d { " % len(self.occ) if at.get("tag") else "enum { ")
        self.name(x, "e")
        if us or at.get("ini"):
            self.w(" = ")
            self.gexpr(us)
        self.w(" };")

    def cond(self, c, ops=0):
        if c[0] == "c":
            us = c[1]
            if len(us) >= 2:
                self.use(us[0]); self.w([" < ", " == ", " != ", " >= "][ops % 4]); self.rvalue(us[1:], ops)
            else:
                self.rvalue(us)
        else:
            self.decl(c[1], c[2], dict(ini=1, ops=ops))

    def single(self, ss):
        return len(ss) == 1 and ss[0][0] == "X"

    def body(self, ss, ind, nb=False):
        if nb and self.single(ss):
            self.w("\n")
            self.stmt(ss[0], ind + 1)
            self.w("  " * ind)
            return
        self.w("{\n")
        self.stmts(ss, ind + 1)
        self.w("  " * ind + "}")

    def stmts(self, ss, ind):
        j = 0
        while j < len(ss):
            s = ss[j]
            nxt = ss[j + 1] if j + 1 < len(ss) else None
            if (self.cpp and s[0] == "B" and attrs(s).get("try") and nxt is not None and nxt[0] == "B" and attrs(nxt).get("catch")
                    and nxt[1] and nxt[1][0][0] == "D" and not nxt[1][0][2] and not attrs(nxt[1][0]).get("ext")):
                self.w("  " * ind + "try ")
                self.body(s[1], ind)
                d = nxt[1][0]
                self.w(" catch (" + ty_of(d[1])); self.name(d[1], "d"); self.w(") ")
                self.body(nxt[1][1:], ind); self.w("\n")
                j += 2
                continue
            self.stmt(s, ind)
            j += 1

    def stmt(self, s, ind):
        k = s[0]
        at = attrs(s)
        nb = bool(at.get("nb"))
        ops = at.get("ops", 0)
        self.w("  " * ind)
        if k == "D":
            self.decl(s[1], s[2], at); self.w(";\n")
        elif k == "X":
            us, shape = s[1], at.get("shape", 0)
            if shape == 1 or not us:
                self.w("sink(0")
                for u in us:
                    self.w(", "); self.use(u)
                self.w(");\n")
            elif shape == 2:
                # `return ::x` is left without varid by setVarIdPass1 (`%name% :: x` is skipped): an unlinked use, not a
                # wrong link; print `return 0 + ::x` so that the program stays inside the modelled forms
                self.w("return 0 + " if isinstance(us[0], list) else "return "); self.rvalue(us, ops); self.w(";\n")
            elif shape == 3:
                self.use(us[0])
                if len(us) == 1:
                    self.w("++;\n")
                else:
                    self.w(" += "); self.rvalue(us[1:], ops); self.w(";\n")
            elif shape == 4 and len(us) >= 3:
                self.use(us[0]); self.w(" = "); self.use(us[1]); self.w(" ? "); self.rvalue(us[2:], ops); self.w(" : 0;\n")
            else:
                self.use(us[0]); self.w(" = "); self.rvalue(us[1:], ops); self.w(";\n")
        elif k == "N":
            self.enum(s[1], s[2], at); self.w("\n")
        elif k == "B":
            self.body(s[1], ind); self.w("\n")
        elif k == "I":
            self.w("if ("); self.cond(s[1], ops); self.w(") "); self.body(s[2], ind, nb); self.w("\n")
        elif k == "J":
            self.w("if ("); self.cond(s[1], ops); self.w(") "); self.body(s[2], ind, nb)
            e = s[3]
            if at.get("elif") and len(e) == 1 and e[0][0] in ("I", "J"):
                self.w(" else\n"); self.stmt(e[0], ind)
            else:
                self.w(" else "); self.body(e, ind, nb); self.w("\n")
        elif k == "W":
            if at.get("switch") and s[1][0] == "c" and s[2] and all(b[0] == "B" and not attrs(b).get("try") and not attrs(b).get("catch") for b in s[2]):
                self.w("switch ((int)("); self.cond(s[1], ops); self.w(")) {\n")
                for j, b in enumerate(s[2]):
                    self.w("  " * (ind + 1) + ("default: " if j == len(s[2]) - 1 and at.get("default") else "case %d: " % j))
                    self.body(b[1], ind + 1)
                    self.w(" break;\n" if (ops + j) % 3 else "\n")
                self.w("  " * ind + "}\n")
            else:
                self.w("while ("); self.cond(s[1], ops); self.w(") "); self.body(s[2], ind, nb); self.w("\n")
        elif k == "O":
            self.w("do "); self.body(s[1], ind, nb); self.w(" while ("); self.cond(["c", s[2]], ops); self.w(");\n")
        elif k == "R":
            self.w("for (")
            i = s[1]
            if i[0] == "e":
                us = i[1]
                if us:
                    self.use(us[0]); self.w(" = "); self.rvalue(us[1:], ops, empty="0")
            elif i[0] == "d":
                self.decl(i[1], i[2], dict(ini=1, ops=ops))
            self.w("; ")
            self.cond(["c", s[2]], ops) if s[2] else None
            self.w("; ")
            st = s[3]
            if len(st) == 1:
                self.use(st[0]); self.w("++")
            elif st:
                self.use(st[0]); self.w(" += "); self.rvalue(st[1:], ops)
            self.w(") "); self.body(s[4], ind, nb); self.w("\n")
        else:
            raise ValueError(k)

    def prog(self, p):
        if self.header:
            self.w("void sink(int, ...);\n")
        nf = 0
        for t in p:
            if t[0] == "G":
                self.decl(t[1], t[2], t[3], glob=True); self.w(";\n")
            elif t[0] == "M":
                self.enum(t[1], t[2], t[3]); self.w("\n")
            else:
                self.w("int %sf%d(" % (self.prefix, nf))
                nf += 1
                ps = t[1]
                if not ps and not self.cpp:
                    self.w("void")
                for j, x in enumerate(ps):
                    if j:
                        self.w(", ")
                    self.w(ty_of(x)); self.name(x, "d")
                self.w(")")
                if t[0] == "P":
                    self.w(";\n")
                else:
                    self.w(" "); self.body(t[2], 0); self.w("\n")
        return "".join(self.buf)


def print_prog(p, cpp, prefix="", header=True):
    pr = Printer(cpp, prefix, header)
    text = pr.prog(p)
    return text, pr.occ


# ---- generator -------------------------------------------------------------------------------------------

class Gen:
    """Mostly-valid programs.  Names are drawn from the visible declarations; a name is re-declared inside one scope only as
    `extern` (valid C and C++); C++ additionally keeps for-init / condition / catch names out of the outermost block of the
    controlled statement.  `wild` programs (not valid, never sent to clang) also re-declare plainly and use undeclared names."""

    def __init__(self, rng, cpp, wild=False, size=1.0, nnames=6, dupbias=0.12, enums=0.06):
        self.rng, self.cpp, self.wild, self.size, self.nn, self.dupbias = rng, cpp, wild, size, nnames, dupbias
        self.valid = True
        self.gdef = {}         # file scope: name -> set of forms seen ('ext', 'tent', 'init')
        self.genum = set()     # file-scope enumerators
        self.externed = set()  # names declared `extern` somewhere (entities with linkage: no file-scope enumerator of that name)
        self.scopes = []       # block scopes: dict name -> 'plain' | 'ext' | 'enum' (innermost last)
        self.enums = enums
        self.budget = 0

    def visible(self):
        v = set(self.gdef) | self.genum
        for sc in self.scopes:
            v |= set(sc)
        return sorted(v)

    def is_var(self, u):
        """does lexical scoping bind this use to a variable (an lvalue)?"""
        if isinstance(u, list):
            return u[1] in self.gdef
        for sc in reversed(self.scopes):
            if u in sc:
                return sc[u] != "enum"
        return u in self.gdef or (u not in self.genum)

    def uses(self, lo, hi, extra=()):
        n = self.rng.randint(lo, hi)
        vis = sorted(set(self.visible()) | set(extra))
        out = []
        for _ in range(n):
            if self.wild and self.rng.random() < 0.08:
                x = self.rng.randrange(self.nn)
                if x not in vis:
                    self.valid = False
            elif vis:
                x = self.rng.choice(vis)
            else:
                continue
            if self.cpp and self.rng.random() < 0.18 and (x in self.gdef or (self.wild and self.rng.random() < 0.3)):
                if x not in self.gdef:
                    self.valid = False
                out.append(["g", x])
            else:
                out.append(x)
        return out

    def pick_decl(self, blocked=()):
        """name + storage form for a block-scope declaration in the innermost scope"""
        rng = self.rng
        sc = self.scopes[-1]
        for _ in range(8):
            x = rng.randrange(self.nn)
            cur = sc.get(x)
            if x in blocked and not self.wild:
                continue
            if cur is None:
                ext = rng.random() < self.dupbias and x not in self.genum
                sc[x] = "ext" if ext else "plain"
                if ext:
                    self.externed.add(x)
                if x in blocked:
                    self.valid = False
                return x, ext
            if cur == "ext":
                return x, True
            if self.wild and rng.random() < 0.5:
                self.valid = False
                return x, False
        return None, False

    def stmts(self, depth, blocked=()):
        rng = self.rng
        n = rng.choice([0, 1, 2, 2, 3, 3, 4, 5]) if depth < 3 else rng.choice([0, 1, 1, 2])
        out = []
        for _ in range(n):
            if self.budget <= 0:
                break
            self.budget -= 1
            out += self.stmt(depth, blocked)
        return out

    def block(self, depth, blocked=(), pre=None):
        self.scopes.append(dict(pre or {}))
        ss = self.stmts(depth + 1, blocked)
        self.scopes.pop()
        return ss

    def xstmt(self):
        us = self.uses(1, 4)
        shape = self.rng.choice([0, 0, 1, 1, 2, 3, 4])
        if us and shape in (0, 3, 4) and not self.is_var(us[0]):
            if self.wild:
                self.valid = False
            else:
                shape = 1          # an enumerator is not an lvalue
        return ["X", us, dict(shape=shape, ops=self.rng.randrange(30))]

    def pick_enum(self, blocked=()):
        sc = self.scopes[-1]
        for _ in range(6):
            x = self.rng.randrange(self.nn)
            if x not in sc and x not in blocked:
                return x
        return None

    def stmt(self, depth, blocked=()):
        """returns a list of statements (try/catch is a pair)"""
        rng = self.rng
        r = rng.random()
        ops = rng.randrange(30)
        nb = 1 if rng.random() < 0.25 else 0
        if rng.random() < self.enums:
            x = self.pick_enum(blocked)
            if x is not None:
                us = self.uses(0, 2) if rng.random() < 0.5 else []
                self.scopes[-1][x] = "enum"        # visible only after its own initialiser
                return [["N", x, us, dict(ini=rng.randrange(2), tag=rng.randrange(2))]]
        if r < 0.34:
            x, ext = self.pick_decl(blocked)
            if x is not None:
                if ext:
                    return [["D", x, [], dict(ext=1)]]
                static = rng.random() < 0.08
                ini = rng.random() < 0.6
                us = self.uses(0, 3) if ini else []
                if ini and rng.random() < 0.25:
                    us.insert(rng.randrange(len(us) + 1), x)     # the initialiser sees the new x
                return [["D", x, us, dict(ini=1 if ini else 0, ops=ops, static=1 if static else 0)]]
            r = 0.5
        if r < 0.60 or depth >= 4:
            return [self.xstmt()]
        if r < 0.67:
            return [["B", self.block(depth), {}]]
        if r < 0.71 and self.cpp:
            t = self.block(depth)
            x = rng.randrange(self.nn)
            rest = self.block(depth, pre={x: "plain"})
            return [["B", t, dict({"try": 1})], ["B", [["D", x, [], dict(ini=0)]] + rest, dict(catch=1)]]
        if r < 0.81:
            c, pre = self.cond()
            self.scopes.append(pre)      # the condition's scope
            blk = tuple(pre) if self.cpp else ()
            t = self.block(depth, blk)
            if rng.random() < 0.55:
                if rng.random() < 0.3 and depth < 3:
                    # else-if chain: the else branch is exactly one if statement (the tokenizer's elseif() adds the braces)
                    self.scopes.append({})          # scope of the else block
                    c2, pre2 = self.cond()
                    if self.cpp and set(pre2) & set(blk):
                        c2, pre2 = ["c", self.uses(0, 2)], {}    # C++: a condition name may not be re-declared in `else if (...)`
                    self.scopes.append(pre2)
                    t2 = self.block(depth + 1, tuple(pre2) if self.cpp else ())
                    self.scopes.pop()
                    self.scopes.pop()
                    self.scopes.pop()
                    return [["J", c, t, [["I", c2, t2, dict(ops=ops, nb=nb)]], dict(ops=ops, nb=nb, **{"elif": 1})]]
                e = self.block(depth, blk)
                self.scopes.pop()
                return [["J", c, t, e, dict(ops=ops, nb=nb)]]
            self.scopes.pop()
            return [["I", c, t, dict(ops=ops, nb=nb)]]
        if r < 0.85:
            c, pre = self.cond()
            self.scopes.append(pre)
            b = self.block(depth, tuple(pre) if self.cpp else ())
            self.scopes.pop()
            return [["W", c, b, dict(ops=ops, nb=nb)]]
        if r < 0.88:
            c = ["c", self.uses(1, 2)]
            bs = [["B", self.block(depth), {}] for _ in range(rng.choice([1, 2, 3]))]
            return [["W", c, bs, dict(ops=ops, switch=1, default=rng.randrange(2))]]
        if r < 0.91:
            b = self.block(depth)
            return [["O", b, self.uses(0, 2), dict(ops=ops, nb=nb)]]
        # for
        k = rng.random()
        pre = {}
        self.scopes.append(pre)
        if k < 0.6:
            x = rng.randrange(self.nn)
            us = self.uses(0, 2, extra=[x] if rng.random() < 0.2 else ())
            pre[x] = "plain"
            i = ["d", x, us]
        elif k < 0.8:
            i = ["e", self.uses(1, 2)]
            if not i[1] or not self.is_var(i[1][0]):
                i = ["n"]
        else:
            i = ["n"]
        c = self.uses(0, 2)
        s = self.uses(0, 2)
        if s and not self.is_var(s[0]):
            s = []
        b = self.block(depth, tuple(pre) if self.cpp else ())
        self.scopes.pop()
        return [["R", i, c, s, b, dict(ops=ops, nb=nb)]]

    def cond(self):
        rng = self.rng
        if self.cpp and rng.random() < 0.3:
            x = rng.randrange(self.nn)
            us = self.uses(0, 2, extra=[x] if rng.random() < 0.2 else ())
            return ["d", x, us], {x: "plain"}
        return ["c", self.uses(0, 3)], {}

    def params(self):
        n = self.rng.choice([0, 1, 1, 2, 2, 3])
        return self.rng.sample(range(self.nn), min(n, self.nn))

    def gdecl(self):
        rng = self.rng
        x = rng.randrange(self.nn)
        if x in self.genum:
            cand = [y for y in range(self.nn) if y not in self.genum]
            if not cand:
                return ["P", []]
            x = rng.choice(cand)
        seen = self.gdef.get(x, set())
        form = rng.choice(["ext", "tent", "init", "init"])
        # C: at most one initialised definition, tentative definitions may repeat.  C++: at most one non-extern declaration.
        ok = form == "ext" or (form == "init" and "init" not in seen and (not self.cpp or "tent" not in seen)) or \
            (form == "tent" and (not self.cpp or not (seen & {"tent", "init"})))
        if not ok:
            if self.wild and rng.random() < 0.5:
                self.valid = False
            else:
                form = "ext"
        self.gdef.setdefault(x, set()).add(form)
        us = self.uses(0, 2) if form == "init" else []
        return ["G", x, us, dict(ext=1 if form == "ext" else 0, ini=1 if form == "init" else 0)]

    def prog(self):
        rng = self.rng
        p = []
        ntop = rng.choice([2, 3, 3, 4, 5, 6])
        self.budget = int(rng.choice([6, 10, 14, 20, 30]) * self.size)
        for _ in range(ntop):
            r = rng.random()
            if rng.random() < self.enums * 1.5:
                cand = [y for y in range(self.nn) if y not in self.genum and y not in self.gdef and y not in self.externed]
                if cand:
                    x = rng.choice(cand)
                    us = self.uses(0, 2) if rng.random() < 0.4 else []
                    self.genum.add(x)
                    p.append(["M", x, us, dict(ini=rng.randrange(2), tag=rng.randrange(2))])
                    continue
            if r < 0.35:
                p.append(self.gdecl())
            elif r < 0.45:
                p.append(["P", self.params()])
            else:
                ps = self.params()
                self.scopes = [dict((x, "plain") for x in ps)]
                body = self.stmts(0)
                self.scopes = []
                p.append(["F", ps, body])
        return p


def gen_case(rng, tier):
    cpp = rng.random() < 0.5
    wild = rng.random() < 0.12
    g = Gen(rng, cpp, wild, size=2.0 if tier == "thorough" and rng.random() < 0.3 else 1.0,
            nnames=rng.choice([2, 3, 4, 6, 6]), dupbias=rng.choice([0.1, 0.1, 0.3, 0.6]), enums=rng.choice([0, 0.05, 0.05, 0.15]))
    p = g.prog()
    return dict(cpp=cpp, prog=p, valid=g.valid)


# ---- running ------------------------------------------------------------------------------------------------

def parse_ids(s):
    return [] if s == "-" else [int(x) for x in s.split()]


def model_run(drv, cases):
    rc, out, err = core.run_lines(drv, [], [enc_prog(c["prog"]) for c in cases], timeout=900)
    if len(out) != len(cases):
        raise core.CheckBroken("C08 driver produced %d lines for %d ops: %s" % (len(out), len(cases), err[-500:]))
    res = []
    for o in out:
        m = re.match(r"^M (.*) \| S (.*) \| O (.*) \| gok (\d) \| dup (\d) \| nvh (\d)$", o)
        if not m:
            raise core.CheckBroken("C08 driver line: " + o)
        res.append(dict(M=parse_ids(m.group(1)), S=parse_ids(m.group(2)), O=parse_ids(m.group(3)), gok=m.group(4) == "1", dup=m.group(5) == "1", nvh=m.group(6) == "1"))
    return res


CRASHES = []      # inputs on which the real code crashed the harness (a C13 matter; recorded in the evidence, the run continues)


def run_lines_robust(exe, lines, timeout=900):
    """run_lines, but a crash of the real code on one input does not lose the rest: the crashing line gets `err crash`"""
    out = []
    todo = list(lines)
    while todo:
        rc, o, err = core.run_lines(exe, [], todo, timeout=timeout)
        out += o[:len(todo)]
        if len(o) >= len(todo):
            break
        k = len(o)                      # the harness died while working on todo[k]
        CRASHES.append(dict(rc=rc, op=todo[k][:20000]))
        out.append("err crash rc=%s" % rc)
        todo = todo[k + 1:]
    return out


def impl_run(exe, cases):
    """real tokenizer; per case ('ok', A, B) = ids per occurrence after the token-list passes (setVarId) and after the complete
    simplifyTokens1 (None = no token on that line), or ('err'|'conflict', text)"""
    lines, occs = [], []
    for c in cases:
        text, occ = print_prog(c["prog"], c["cpp"])
        c["text"] = text
        occs.append(occ)
        lines.append("%s %s" % ("cpp" if c["cpp"] else "c", core.hx(text)))
    out = run_lines_robust(exe, lines)
    if len(out) != len(cases):
        raise core.CheckBroken("C08 harness produced %d lines for %d ops" % (len(out), len(cases)))
    res = []
    for o, occ in zip(out, occs):
        m = re.match(r"^ok A(.*) \| B(.*)$", o)
        if not m:
            res.append(("err", o))
            continue
        stages, conflict = [], False
        for part in m.groups():
            by_line = {}
            for ent in part.split():
                l, v = ent.split(":")
                l, v = int(l), int(v)
                if l in by_line and by_line[l] != v:
                    conflict = True        # the copies of one source token (simplifyVarDecl) must agree
                by_line.setdefault(l, v)
            stages.append([by_line.get(oc[0]) for oc in occ])
        res.append(("conflict", o) if conflict else ("ok", stages[0], stages[1]))
    return res


def nontrivial(spec_ids, occ):
    """some name is used after at least two of its declarations have been seen"""
    seen = {}
    for oc in occ:
        x, k = oc[1], oc[2]
        if k in ("d", "e"):
            seen[x] = seen.get(x, 0) + 1
        elif seen.get(x, 0) >= 2:
            return True
    return False


def describe(c):
    return "%s %s" % ("c++" if c["cpp"] else "c", json.dumps(c["prog"], separators=(",", ":")))


def p_impl(c, ids, mo, occ):
    """the property evaluated on the implementation: (wrongly linked occurrence indices, unlinked indices, duplicate decl ids)"""
    bad = [j for j, (a, b) in enumerate(zip(ids, mo["S"])) if a != b and a]
    unl = [j for j, (a, b) in enumerate(zip(ids, mo["S"])) if a != b and not a]
    decl_ids = [a for oc, a in zip(occ, ids) if oc[2] == "d" and a]     # id 0 = the declaration is not linked at all
    dup_ids = len(set(decl_ids)) != len(decl_ids)
    return bad, unl, dup_ids


SUBSTMTS = {"B": [1], "I": [2], "J": [2, 3], "W": [2], "O": [1], "R": [4]}


def enum_names(p):
    """names declared as enumerators anywhere in the program"""
    out = set()

    def walk(ss):
        for s in ss:
            if s[0] == "N":
                out.add(s[1])
            for si in SUBSTMTS.get(s[0], []):
                walk(s[si])
    for t in p:
        if t[0] == "M":
            out.add(t[1])
        elif t[0] == "F":
            walk(t[2])
    return out


def classify(c, ids, mo, occ, bad, dup_ids):
    """known classes of a disagreement with lexical scoping"""
    if mo["dup"] and ids == mo["O"] and mo["O"] != mo["M"]:
        return "dup-decl-in-scope"     # F4: the pre-fix leaveScope order (a `fixed` entry: reported as VIOLATION if it returns)
    en = enum_names(c["prog"])
    if ids == mo["M"] and not dup_ids and bad and all(mo["S"][j] == 0 and occ[j][1] in en for j in bad):
        # F8b: every wrongly linked token is one lexical scoping binds to an ENUMERATOR of the program (or to nothing), and
        # the model of the code (VariableMap never told about enumerators) predicts the ids exactly
        return "enumerator-hides-variable"
    return None


def compare(ctx, res, name, cases, impl, model, register=True):
    """correspondence: ids after setVarId (stage A) vs M (model of the code); later passes only clear ids (stage B vs A);
    P_impl: final ids (stage B) vs S (lexical scoping).  Returns (violations, mismatch indices)"""
    mism, viol, stage = [], [], []
    n_bound = n_unlinked = 0
    for k, (c, im, mo) in enumerate(zip(cases, impl, model)):
        text, occ = print_prog(c["prog"], c["cpp"])
        A = im[1] if im[0] == "ok" else None
        B = im[2] if im[0] == "ok" else None
        if register:
            res.count("lang:" + ("c++" if c["cpp"] else "c"))
            res.count("valid:%d" % (1 if c.get("valid", True) else 0))
            res.count("occurrences:%02d+" % min(60, 10 * (len(occ) // 10)))
            if mo["dup"]:
                res.count("dup-decl-in-one-impl-scope")
            if any(oc[2] == "e" for oc in occ):
                res.count("has-enumerator")
            if not mo["nvh"]:
                res.count("enumerator-hides-visible-variable")
            if any(oc[2] == "g" for oc in occ):
                res.count("has-global-qualified-use")
            samp = None
            if k % max(1, len(cases) // 4) == 0:
                samp = dict(tie=name, lang="c++" if c["cpp"] else "c", program=text, impl_after_setVarId=A if A is not None else str(im), impl_final=B, model=mo["M"], spec=mo["S"])
            res.case(name + "|" + describe(c), nontrivial(mo["S"], occ), samp)
        if A != mo["M"]:
            mism.append(k)
        if A is not None and any(b != a and b != 0 for a, b in zip(A, B)):
            stage.append(k)          # a pass after setVarId gave a token a different non-zero id
        if A is not None and A != B and register:
            res.count("varid-cleared-after-setVarId")
        # P_impl against the specification: on every program the generator built as valid, and on the others wherever the
        # `::x` premise of the theorems holds (an undeclared `::x` has no meaning to compare with)
        if B is not None and (mo["gok"] or c.get("valid", False)):
            bad, unl, dup_ids = p_impl(c, B, mo, occ)
            if bad or dup_ids:
                viol.append(dict(case=c, text=text, impl=B, spec=mo["S"], model=mo["M"], old=mo["O"], bad=bad, dup_ids=dup_ids,
                                 key=classify(c, A, mo, occ, bad, dup_ids)))
            n_bound += sum(1 for b in mo["S"] if b)
            n_unlinked += len(unl)
            if unl and register:
                res.count("unlinked-use")
        elif A is None and register:
            res.count("tokenizer-rejects")
    if register:
        res.traces_validated += len(cases) - len(mism)
    detail = ""
    if mism:
        k = mism[0]
        cls = {}
        for j in mism:
            kk = ("dup-decl-in-scope" if impl[j][0] == "ok" and model[j]["dup"] and impl[j][1] == model[j]["O"] else None) or "other"
            cls[kk] = cls.get(kk, 0) + 1
        detail = "%d of %d programs differ, classes %s; first: %s\n%s\nimpl=%s\nmodel=%s" % (len(mism), len(cases), cls, describe(cases[k]), inline(cases[k].get("text", "")), impl[k][:2], model[k]["M"])
    res.oblig("correspondence:" + name, not mism, "correspondence", detail)
    if register and name != "replay":
        # the property only speaks about links cppcheck makes; a change that stops linking would pass P_impl silently
        res.extra["unlinked_tokens"] = "%d of %d tokens lexical scoping binds to a variable" % (n_unlinked, n_bound)
        res.oblig("P_impl:unlinked-ceiling", n_unlinked * 50 <= n_bound, "correspondence",
                  "" if n_unlinked * 50 <= n_bound else "%d of %d name tokens that lexical scoping binds to a variable carry varid 0 (ceiling 2 %%)" % (n_unlinked, n_bound))
    res.oblig("correspondence:%s:later-passes-only-clear-ids" % name, not stage, "correspondence",
              "" if not stage else "%d programs: a pass after setVarId changed a non-zero id; first: %s\n%s" % (len(stage), describe(cases[stage[0]]), impl[stage[0]]))
    return viol, mism


def inline_p(text):
    return re.sub(r"\n(p\d+v\d+)\n", r" \1 ", text)


def inline(text):
    """program text with the tracked names back on their lines (for messages)"""
    return re.sub(r"\n(v\d+)\n", r" \1 ", text)


def report(res, viol, limit=8):
    for v in viol[:limit]:
        c = v["case"]
        what = ("name resolution differs from lexical scoping on the real tokenizer (%s): occurrence(s) %s%s%s; impl=%s spec=%s\n%s" %
                ("c++" if c["cpp"] else "c", v["bad"][:5], " duplicate declaration ids" if v["dup_ids"] else "",
                 (" [class %s]" % v["key"]) if v["key"] else "", v["impl"], v["spec"], inline(v["text"])))
        res.violation(what, dict(cpp=c["cpp"], prog=c["prog"], impl=v["impl"], spec=v["spec"], key=v["key"], text=v["text"],
                                 replay_cmd="./check.py C08 --replay <this file>"), concrete=True, key=v["key"])


# ---- shrinking --------------------------------------------------------------------------------------------

def shrink_candidates(p):
    """programs obtained by one deletion / flattening step"""
    import copy
    out = []

    def stmts_variants(ss):
        for j in range(len(ss)):
            yield ss[:j] + ss[j + 1:]
            s = ss[j]
            k = s[0]
            subs = SUBSTMTS.get(k, [])
            for si in subs:
                yield ss[:j] + s[si] + ss[j + 1:]
                for v in stmts_variants(s[si]):
                    s2 = list(s); s2[si] = v
                    yield ss[:j] + [s2] + ss[j + 1:]
            if k in ("D", "X", "N"):
                ui = 1 if k == "X" else 2
                for q in range(len(s[ui])):
                    s2 = list(s); s2[ui] = s[ui][:q] + s[ui][q + 1:]
                    if k == "X" and not s2[ui]:
                        continue
                    yield ss[:j] + [s2] + ss[j + 1:]

    for j in range(len(p)):
        out.append(p[:j] + p[j + 1:])
        t = p[j]
        if t[0] == "F":
            for v in stmts_variants(t[2]):
                out.append(p[:j] + [["F", t[1], v]] + p[j + 1:])
            for q in range(len(t[1])):
                out.append(p[:j] + [["F", t[1][:q] + t[1][q + 1:], t[2]]] + p[j + 1:])
    return out


def still_fails(all_resolved):
    """shrinking predicate: P_impl still fails; a program in which every use was bound stays such a program"""
    def pred(c, im, mo):
        if im[0] != "ok" or not mo["gok"] or (all_resolved and 0 in mo["S"]):
            return False
        bad, unl, dup_ids = p_impl(c, im[2], mo, print_prog(c["prog"], c["cpp"])[1])
        return bool(bad) or dup_ids
    return pred


def shrink(drv, exe, case, pred, rounds=60):
    cur = case
    for _ in range(rounds):
        cands = [dict(cpp=cur["cpp"], prog=q, valid=cur.get("valid", True)) for q in shrink_candidates(cur["prog"])][:400]
        if not cands:
            break
        impl = impl_run(exe, cands)
        model = model_run(drv, cands)
        nxt = None
        for c, im, mo in zip(cands, impl, model):
            if pred(c, im, mo):
                nxt = c
                break
        if nxt is None:
            break
        cur = nxt
    return cur


# ---- T: statement shape of the VariableMap operations in the source (fail closed) -------------------------------------
# `implProg` (Model/ScopeProg.lean) is a hand reading of setVarIdPass1.  To notice when the source moves away from that
# reading even if no generated program hits the change, the bodies of VariableMap::{enterScope,leaveScope,addVariable} and
# every statement of setVarIdPass1 that enters / leaves a scope, adds a variable, looks a name up, pushes / pops the
# scopeStack, decides `globalNamespace` or skips a token (`continue`) are extracted together with the chain of guards
# (headers of the enclosing blocks, else-chains spelled out) and compared with corpus/C08/setvarid_shape.json.  Comments and
# white space are ignored; anything else that differs (a new call site, a changed guard) leaves T:setvarid-shape undischarged.

def strip_comments(src):
    """remove // and /* */ comments, keep string and char literals intact"""
    out = []; i = 0; n = len(src)
    while i < n:
        c = src[i]
        if c == '"' or c == "'":
            j = i + 1
            while j < n and src[j] != c:
                j += 2 if src[j] == "\\" else 1
            out.append(src[i:j + 1]); i = j + 1
        elif src.startswith("//", i):
            j = src.find("\n", i); j = n if j < 0 else j
            i = j
        elif src.startswith("/*", i):
            j = src.find("*/", i + 2); j = n - 2 if j < 0 else j
            out.append(" "); i = j + 2
        else:
            out.append(c); i += 1
    return "".join(out)

def norm_ws(s):
    return re.sub(r"\s+", " ", s).strip()

def function_body(src, signature):
    k = src.find(signature)
    if k < 0:
        return None
    i = src.find("{", k)
    depth = 0; j = i
    while j < len(src):
        c = src[j]
        if c == '"' or c == "'":
            j += 1
            while src[j] != c:
                j += 2 if src[j] == "\\" else 1
        elif c == "{":
            depth += 1
        elif c == "}":
            depth -= 1
            if depth == 0:
                return src[i + 1:j]
        j += 1
    return None

def statements(body, patterns):
    """walk a function body; yield (statement-or-header text, guard chain) for every statement / block header that contains
    one of the patterns.  guard chain = normalised headers of the enclosing blocks, an `else` header is prefixed by the
    headers of the if-chain it continues."""
    sites = []
    stack = []          # full headers of open blocks
    last_closed = {}    # depth -> full header of the block just closed (for else chains)
    start = 0; par = 0; i = 0; n = len(body)
    while i < n:
        c = body[i]
        if c == '"' or c == "'":
            i += 1
            while body[i] != c:
                i += 2 if body[i] == "\\" else 1
        elif c in "([":
            par += 1
        elif c in ")]":
            par -= 1
        elif c == "{" and par == 0:
            h = norm_ws(body[start:i])
            d = len(stack)
            full = h
            if h.startswith("else") and d in last_closed:
                full = last_closed[d] + " ;; " + h
            last_closed.pop(d, None)
            if any(p in h for p in patterns):
                sites.append((h + " {", list(stack)))
            stack.append(full)
            start = i + 1
        elif c == "}" and par == 0:
            t = norm_ws(body[start:i])
            if t and any(p in t for p in patterns):
                sites.append((t, list(stack)))
            full = stack.pop() if stack else "?"
            last_closed[len(stack)] = full
            start = i + 1
        elif c == ";" and par == 0:
            t = norm_ws(body[start:i])
            d = len(stack)
            if not t.startswith("else"):
                pass
            if any(p in t for p in patterns):
                g = list(stack)
                if t.startswith("else") and d in last_closed:
                    t = last_closed[d] + " ;; " + t
                sites.append((t, g))
            last_closed.pop(d, None)
            start = i + 1
        i += 1
    return sites

SHAPE_PATTERNS2 = ["thisClassVars", "varsByClass"]     # setVarIdPass2: everything that fills or reads the per-class member table
SHAPE_PATTERNS = ["variableMap.enterScope(", "variableMap.leaveScope(", "variableMap.addVariable(", "variableMap.map(globalNamespace).find(",
                  "tok->varId(it->second.id)", "scopeStack.emplace(", "scopeStack.pop(", "globalNamespace = ", "continue",
                  "functionDeclEndStack.p", "initlist = ", "inlineFunction = "]

def extract_shape(path):
    src = strip_comments(open(path, encoding="utf-8", errors="replace").read())
    shape = {"methods": {}, "sites": []}
    for name, sig in (("enterScope", "void VariableMap::enterScope()"), ("leaveScope", "bool VariableMap::leaveScope()"),
                      ("addVariable", "void VariableMap::addVariable(const std::string& varname, bool globalNamespace)")):
        b = function_body(src, sig)
        shape["methods"][name] = None if b is None else norm_ws(b)
    b = function_body(src, "void Tokenizer::setVarIdPass1()")
    if b is not None:
        for t, g in statements(b, SHAPE_PATTERNS):
            shape["sites"].append({"stmt": t, "guards": g})
    else:
        shape["sites"] = None
    b2 = function_body(src, "void Tokenizer::setVarIdPass2()")
    shape["sites2"] = None if b2 is None else [{"stmt": t, "guards": g} for t, g in statements(b2, SHAPE_PATTERNS2)]
    return shape



SHAPE_FILE = os.path.join(core.VERIF, "corpus", "C08", "setvarid_shape.json")


def check_shape(ctx, res):
    cur = extract_shape(os.path.join(core.REPO, "lib", "tokenize.cpp"))
    if not os.path.exists(SHAPE_FILE):
        res.oblig("T:setvarid-shape", False, "translation", "expected shape file missing: " + SHAPE_FILE)
        return False
    exp = json.load(open(SHAPE_FILE))
    diffs = []
    for m in ("enterScope", "leaveScope", "addVariable"):
        if cur["methods"].get(m) is None:
            diffs.append("VariableMap::%s not found (unrecognised shape)" % m)
        elif cur["methods"][m] != exp["methods"].get(m):
            diffs.append("body of VariableMap::%s changed: now `%s`" % (m, cur["methods"][m][:400]))
    if cur["sites"] is None:
        diffs.append("Tokenizer::setVarIdPass1 not found (unrecognised shape)")
    else:
        es = [(e["stmt"], e["guards"]) for e in exp["sites"]]
        cs = [(e["stmt"], e["guards"]) for e in cur["sites"]]
        if es != cs:
            only_c = [x for x in cs if x not in es]
            only_e = [x for x in es if x not in cs]
            diffs.append("setVarIdPass1: %d statement(s) with guards only in the source, %d only in the expected reading (or order changed); "
                         "source: %s | expected: %s" % (len(only_c), len(only_e), only_c[:2], only_e[:2]))
    if cur.get("sites2") is None:
        diffs.append("Tokenizer::setVarIdPass2 not found (unrecognised shape)")
    else:
        es = [(e["stmt"], e["guards"]) for e in exp.get("sites2", [])]
        cs = [(e["stmt"], e["guards"]) for e in cur["sites2"]]
        if es != cs:
            only_c = [x for x in cs if x not in es]
            only_e = [x for x in es if x not in cs]
            diffs.append("setVarIdPass2 (thisClassVars / varsByClass): %d statement(s) with guards only in the source, %d only in the expected "
                         "reading; source: %s | expected: %s" % (len(only_c), len(only_e), only_c[:2], only_e[:2]))
    res.extra["setvarid_sites"] = len(cur["sites"] or []) + len(cur.get("sites2") or [])
    res.oblig("T:setvarid-shape", not diffs, "translation", "\n".join(diffs))
    return not diffs


def write_expected_shape():
    """regenerate corpus/C08/setvarid_shape.json from the current source (only after re-reading the code against implProg)"""
    cur = extract_shape(os.path.join(core.REPO, "lib", "tokenize.cpp"))
    old = json.load(open(SHAPE_FILE)) if os.path.exists(SHAPE_FILE) else {"sites": []}
    notes = dict(((e["stmt"], tuple(e["guards"])), e.get("model")) for e in old.get("sites", []) + old.get("sites2", []))
    for e in cur["sites"] + (cur.get("sites2") or []):
        e["model"] = notes.get((e["stmt"], tuple(e["guards"])))
    json.dump(cur, open(SHAPE_FILE, "w"), indent=1)


# ---- clang as oracle for the specification ----------------------------------------------------------------

def clang_batch(ctx, cases, cpp, tag):
    """ids per occurrence according to clang for a batch of programs of one language compiled as ONE translation unit (every
    program gets its own name prefix); declarations are numbered in textual order per program.  Returns a list with one entry
    per case: list of ids, or None when clang rejects the batch (the caller then retries the programs one by one)."""
    text = "void sink(int, ...);\n"
    metas = []
    for k, c in enumerate(cases):
        t, occ = print_prog(c["prog"], cpp, prefix="p%d" % k, header=False)
        metas.append((len(text), occ))
        text += t
    path = os.path.join(ctx.tmp, "cl_%s.%s" % (tag, "cpp" if cpp else "c"))
    open(path, "w").write(text)
    cmd = [("clang++-14" if cpp else "clang-14"), "-fsyntax-only", "-w", "-Xclang", "-ast-dump=json", path]
    r = subprocess.run(cmd, stdout=subprocess.PIPE, stderr=subprocess.PIPE, text=True, timeout=600)
    try:
        os.remove(path)
    except OSError:
        pass
    if r.returncode != 0:
        return None, r.stderr[:600]
    try:
        ast = json.loads(r.stdout)
    except ValueError:
        return None, "unparsable clang output"
    decl_at, ref_at, enum_ids = {}, {}, set()
    stack = [ast]
    while stack:
        n = stack.pop()
        if not isinstance(n, dict):
            continue
        kind = n.get("kind")
        if kind in ("VarDecl", "ParmVarDecl", "EnumConstantDecl") and re.match(r"^p\d+v\d+$", n.get("name", "")):
            off = n.get("loc", {}).get("offset")
            if off is not None:
                decl_at[off] = n["id"]
                if kind == "EnumConstantDecl":
                    enum_ids.add(n["id"])
        elif kind == "DeclRefExpr":
            rd = n.get("referencedDecl", {})
            if re.match(r"^p\d+v\d+$", rd.get("name", "")):
                off = n.get("range", {}).get("end", {}).get("offset")
                if off is not None:
                    ref_at[off] = rd["id"]
        stack.extend(n.get("inner", []))
    out = []
    for base, occ in metas:
        num = dict((e, 0) for e in enum_ids)       # an enumerator is not a variable: id 0, as in the specification
        nv = 0
        for oc in occ:
            if oc[2] == "d" and (base + oc[3]) in decl_at:
                nv += 1
                num.setdefault(decl_at[base + oc[3]], nv)
        ids = []
        for (line, x, kind, off) in occ:
            ids.append(num.get((decl_at if kind in ("d", "e") else ref_at).get(base + off)))
        out.append(ids)
    return out, ""


def clang_oracle(ctx, res, cases, model, limit, batch=40):
    """C2: the specification agrees with clang on valid programs"""
    todo = [(k, c) for k, c in enumerate(cases) if c.get("valid", True)][:limit]
    jobs = []
    for cpp in (False, True):
        sel = [(k, c) for (k, c) in todo if c["cpp"] == cpp]
        for b in range(0, len(sel), batch):
            jobs.append((cpp, sel[b:b + batch]))

    def solve(cpp, sel, tag):
        ids, err = clang_batch(ctx, [c for _, c in sel], cpp, tag)
        if ids is not None:
            return [(k, i, "") for (k, _), i in zip(sel, ids)]
        if len(sel) == 1:
            return [(sel[0][0], None, err)]
        h = len(sel) // 2          # some program of the batch is not valid: bisect
        return solve(cpp, sel[:h], tag + "a") + solve(cpp, sel[h:], tag + "b")

    def work(job):
        cpp, sel = job
        return solve(cpp, sel, "b%d_%d" % (sel[0][0], int(cpp)))

    with concurrent.futures.ThreadPoolExecutor(max_workers=2) as ex:
        results = [x for part in ex.map(work, jobs) for x in part]
    bad, rejected, first_rej = [], 0, ""
    for k, ids, err in results:
        if ids is None:
            rejected += 1
            first_rej = first_rej or (err + "\n" + print_prog(cases[k]["prog"], cases[k]["cpp"], prefix="p0")[0])
            continue
        res.count("clang-compared")
        if ids != model[k]["S"]:
            bad.append((k, ids))
    res.extra["clang_programs"] = len(todo)
    res.extra["clang_rejected"] = rejected
    if first_rej:
        res.extra["clang_first_rejected"] = inline_p(first_rej)[:1500]
    detail = ""
    if bad:
        k, ids = bad[0]
        detail = "%d of %d programs: specProg differs from clang; first: %s\n%s\nclang=%s\nspec =%s" % (len(bad), len(todo), describe(cases[k]), print_prog(cases[k]["prog"], cases[k]["cpp"])[0], ids, model[k]["S"])
    res.oblig("C2:spec-equals-clang", not bad and len(todo) - rejected > 0, "correspondence", detail)
    # the generator claims validity; a high rejection rate means the oracle is not exercised
    res.oblig("C2:generator-validity", rejected * 20 <= len(todo), "machinery",
              "" if rejected * 20 <= len(todo) else "clang rejects %d of %d programs the generator marked valid; first: %s" % (rejected, len(todo), first_rej))
    return bad


# ---- link probes: calls / members / namespaces / lambdas (outside the Lean model; sampled, g++ as oracle) -----------------
# Every declaration (variable, member, parameter, function overload) gets a unique size tag k: variables have type R<k>,
# overloads return R<k>, sizeof(R<k>) = k.  For every use / call the g++ text contains `Probe<sizeof(expr)> q<i>;` with the
# incomplete template `Probe`: the error message `aggregate 'Probe<k> q<i>' has incomplete type` tells which declaration the
# COMPILER selected (name lookup + overload resolution), without our own implementation of either.  The real SymbolDatabase
# (harness op `link`) tells which declaration the token is linked to (Token::variable / Token::function).

PTYPES = ["int", "long", "double", "char", "const char *", "bool", "unsigned", "float"]
ARGVARS = [("a0", "int", "1"), ("a1", "long", "1"), ("a2", "double", "1"), ("a3", "char", "'c'"), ("a4", "const char *", '"s"'),
           ("a5", "bool", "true"), ("a6", "unsigned", "1"), ("a7", "float", "1"), ("a8", "short", "1")]
LITERALS = ["1", "1L", "1.5", "'c'", '"s"', "true", "1u", "1.5f", "0"]
LIT_TYPES = {"1": "int", "1L": "long", "1.5": "double", "'c'": "char", '"s"': "const char *", "true": "bool", "1u": "unsigned", "1.5f": "float",
             "0": "zero"}


class LinkGen:
    def __init__(self, rng, size=1.0, order=False):
        self.rng = rng
        self.order = order      # True: a free function's body may call an overload set that is still being declared
        self.size = size
        self.toks = []          # ("t", text) | ("d", name, k) | ("u", name, occ) | ("p", expr, occ)
        self.k = 0
        self.nocc = 0
        self.nfun = 0
        self.nns = 0
        self.nst = 0
        self.nlam = 0
        self.structs = []       # complete structs: (name, {"vars": [names], "svars": [names], "funcs": {name: [ptypes]}})
        self.nspaces = []       # (qualified path, {"vars": [...], "funcs": {...}})
        self.gvars = []
        self.gfuncs = {}
        self.kinds = {}         # occ -> kind string (for the distribution / classification)
        self.dinfo = {}         # k -> (kind, scope) of the declaration
        self.oinfo = {}         # occ -> metadata for the classification of disagreements
        self.cur_ctx = None
        self.last_argtypes = []

    def t(self, s):
        self.toks.append(("t", s))

    def newk(self):
        self.k += 1
        return self.k

    def decl_var(self, name, static=False, ind="", kind="local", scope=""):
        k = self.newk()
        self.dinfo[k] = (kind, scope)
        self.t("%s%sR%d" % (ind, "static " if static else "", k))
        self.toks.append(("d", name, k))
        self.t(";\n")

    def use(self, name, expr, kind):
        """one tracked use occurrence `name` inside the inline expression `expr` (name appears exactly once, at the end of
        its qualification); returns the tokens"""
        occ = self.nocc
        self.nocc += 1
        self.kinds[occ] = kind
        return occ

    # -- statements ------------------------------------------------------------------------------------------------------
    def arg(self, ty=None):
        r = self.rng.random()
        if ty is not None and r < 0.6:
            for nm, t, _ in ARGVARS:
                if t == ty:
                    self.last_argtypes.append(t)
                    return nm
        if r < 0.85:
            nm, t, _ = self.rng.choice(ARGVARS)
            self.last_argtypes.append(t)
            return nm
        lit = self.rng.choice(LITERALS)
        self.last_argtypes.append(LIT_TYPES[lit])
        return lit

    def args_for(self, sigs):
        self.last_argtypes = []
        if not sigs or self.rng.random() < 0.1:
            return self.arg()
        sig = self.rng.choice(sigs)
        return ", ".join(self.arg(t) for t in sig)

    def vis_vars(self, ctx):
        v = set(self.gvars)
        for info in ctx.get("ns", []):
            v |= set(info["vars"])
        if ctx.get("struct"):
            v |= set(ctx["struct"]["vars"]) | set(ctx["struct"]["svars"])
        for sc in ctx["local"]:
            v |= set(x for x in sc if x)
        return sorted(v)

    def vis_funcs(self, ctx):
        """name -> signatures of the innermost scope declaring it"""
        f = dict(self.gfuncs)
        for info in ctx.get("ns", []):
            f.update(info["funcs"])
        if ctx.get("struct"):
            f.update(ctx["struct"]["funcs"])
        return f

    def emit_use(self, ind, prefix, name, suffix, kind, wrap=True):
        """statement using `prefix name suffix` (e.g. prefix 's0.', suffix '(a1)'); probe first"""
        occ = self.nocc
        self.nocc += 1
        self.kinds[occ] = kind
        usings = {}
        for u in (self.cur_ctx or {}).get("usings", []):
            usings.update(u)
        cc = self.cur_ctx or {}
        self.oinfo[occ] = dict(kind=kind, name=name, prefix=prefix, usings=usings, argtypes=list(self.last_argtypes),
                               scope=cc.get("scope", ""),                                     # namespace / class of the enclosing function
                               udirs=[p for sc in cc.get("udirs", []) for p in sc],          # using-directives in effect at the use
                               fun_udirs=cc.get("fun_udirs", []))                            # all using-directives of the function body
        expr = prefix + name + suffix
        self.toks.append(("p", expr, occ, ind))
        self.t(ind + ("sink(&" if wrap else "") + prefix)
        self.toks.append(("u", name, occ))
        self.t(suffix + (");\n" if wrap else ";\n"))

    def objects(self, ind):
        for (sn, info) in self.structs:
            i = sn[1:]
            self.t("%s%s s%s; %s *p%s = &s%s;\n" % (ind, sn, i, sn, i, i))

    def argvars(self, ind):
        self.t(ind + " ".join("%s %s = %s;" % (ty, nm, init) for nm, ty, init in ARGVARS) + "\n")

    def stmts(self, ind, ctx, depth, n=None):
        rng = self.rng
        n = rng.choice([2, 3, 4, 5]) if n is None else n
        for _ in range(n):
            self.stmt(ind, ctx, depth)

    def pick_ns(self):
        return self.rng.choice(self.nspaces) if self.nspaces else None

    def stmt(self, ind, ctx, depth):
        rng = self.rng
        self.cur_ctx = ctx
        self.last_argtypes = []
        ctx.setdefault("usings", [{}])
        ctx.setdefault("udirs", [[]])
        ctx.setdefault("fun_udirs", [])
        r = rng.random()
        vn = "v%d" % rng.randrange(4)
        fn = "f%d" % rng.randrange(3)
        vv = self.vis_vars(ctx)
        vf = self.vis_funcs(ctx)
        if vv and rng.random() < 0.9:
            vn = rng.choice(vv)
        if vf and rng.random() < 0.9:
            fn = rng.choice(sorted(vf))
        if r < 0.16:
            self.emit_use(ind, "", vn, "", "var")
        elif r < 0.22:
            self.emit_use(ind, "::", rng.choice(self.gvars) if self.gvars and rng.random() < 0.9 else vn, "", "var-global-qualified")
        elif r < 0.30 and self.nspaces:
            path, info = self.pick_ns()
            nm = rng.choice(info["vars"]) if info["vars"] and rng.random() < 0.8 else vn
            self.emit_use(ind, path + "::", nm, "", "var-ns-qualified")
        elif r < 0.40 and self.structs:
            sn, info = rng.choice(self.structs)
            i = sn[1:]
            nm = rng.choice(info["vars"]) if info["vars"] and rng.random() < 0.8 else vn
            self.emit_use(ind, rng.choice(["s%s." % i, "p%s->" % i]), nm, "", "member")
        elif r < 0.44 and self.structs:
            sn, info = rng.choice(self.structs)
            nm = rng.choice(info["svars"]) if info["svars"] and rng.random() < 0.8 else vn
            self.emit_use(ind, sn + "::", nm, "", "static-member")
        elif r < 0.58:
            self.emit_use(ind, "", fn, "(%s)" % self.args_for(vf.get(fn)), "call", wrap=False)
        elif r < 0.63:
            gf = rng.choice(sorted(self.gfuncs)) if self.gfuncs and rng.random() < 0.9 else fn
            self.emit_use(ind, "::", gf, "(%s)" % self.args_for(self.gfuncs.get(gf)), "call-global-qualified", wrap=False)
        elif r < 0.70 and self.nspaces:
            path, info = self.pick_ns()
            nm = rng.choice(list(info["funcs"])) if info["funcs"] and rng.random() < 0.8 else fn
            self.emit_use(ind, path + "::", nm, "(%s)" % self.args_for(info["funcs"].get(nm)), "call-ns-qualified", wrap=False)
        elif r < 0.78 and self.structs:
            sn, info = rng.choice(self.structs)
            i = sn[1:]
            nm = rng.choice(list(info["funcs"])) if info["funcs"] and rng.random() < 0.8 else fn
            self.emit_use(ind, rng.choice(["s%s." % i, "p%s->" % i]), nm, "(%s)" % self.args_for(info["funcs"].get(nm)), "call-member", wrap=False)
        elif r < 0.85:
            if vn not in ctx["local"][-1]:
                ctx["local"][-1].add(vn)
                self.decl_var(vn, ind=ind, kind="local")
            else:
                self.emit_use(ind, "", vn, "", "var")
        elif r < 0.90 and depth < 2:
            self.t(ind + "{\n")
            ctx["local"].append(set())
            ctx["usings"].append({})
            ctx["udirs"].append([])
            self.stmts(ind + "  ", ctx, depth + 1, rng.choice([1, 2, 3]))
            ctx["local"].pop()
            ctx["usings"].pop()
            ctx["udirs"].pop()
            self.t(ind + "}\n")
        elif r < 0.94 and depth < 2:
            k = self.newk()
            self.dinfo[k] = ("lambda-param", "")
            self.t("%sauto l%d = [&](R%d" % (ind, self.nlam, k))
            self.nlam += 1
            self.toks.append(("d", vn, k))
            self.t(") {\n")
            ctx["local"].append({vn})
            ctx["usings"].append({})
            ctx["udirs"].append([])
            self.stmts(ind + "  ", ctx, depth + 1, rng.choice([1, 2, 3]))
            ctx["local"].pop()
            ctx["usings"].pop()
            ctx["udirs"].pop()
            self.t(ind + "};\n")
        elif r < 0.97 and self.nspaces and not ctx.get("used_ns"):
            path, info = self.pick_ns()
            ctx["used_ns"] = True
            ctx["udirs"][-1].append(path)
            ctx["fun_udirs"].append(path)
            self.t("%susing namespace %s;\n" % (ind, path))
        elif self.nspaces:
            path, info = self.pick_ns()
            if info["vars"]:
                nm = rng.choice(info["vars"])
                if nm not in ctx["local"][-1]:
                    ctx["local"][-1].add(nm)
                    ctx["usings"][-1][nm] = path
                    self.t("%susing %s::%s;\n" % (ind, path, nm))
                    return
            self.emit_use(ind, "", vn, "", "var")
        else:
            self.emit_use(ind, "", vn, "", "var")

    # -- declarations ----------------------------------------------------------------------------------------------------
    def overloads(self, ind, funcs, bodyctx, name=None, method=False, scope=""):
        """an overload set of a fresh name in the current scope"""
        rng = self.rng
        cand = [("f%d" % j) for j in range(3) if ("f%d" % j) not in funcs]
        if not cand:
            return
        name = rng.choice(cand)
        n = rng.choice([1, 2, 2, 3, 3, 4])
        sigs = []
        for _ in range(n):
            sig = tuple(rng.choice(PTYPES) for _ in range(rng.choice([1, 1, 1, 2])))
            if sig not in sigs:
                sigs.append(sig)
        if method or self.order:
            funcs[name] = sigs          # in a class every member function is visible in every body
        for sig in sigs:
            k = self.newk()
            self.dinfo[k] = ("method" if method else "function", scope, sig)
            self.t("%sR%d" % (ind, k))
            self.toks.append(("d", name, k))
            pv = None
            self.t("(")
            for j, ty in enumerate(sig):
                if j:
                    self.t(", ")
                self.t("%s b%d" % (ty, j))
            if rng.random() < 0.25:
                # an extra defaulted tracked parameter that may shadow an outer / member variable
                pk = self.newk()
                self.dinfo[pk] = ("param", "")
                pv = "v%d" % rng.randrange(4)
                self.t(", R%d" % pk)
                self.toks.append(("d", pv, pk))
                self.t(" = R%d()" % pk)
            self.t(") {\n")
            if rng.random() < 0.6:
                self.argvars(ind + "  ")
                self.objects(ind + "  ")
                ctx = dict(bodyctx, local=[{pv} if pv else set()], scope=scope)
                self.stmts(ind + "  ", ctx, 1, rng.choice([1, 2, 3]))
            self.t("%s  return R%d();\n%s}\n" % (ind, k, ind))
        funcs[name] = sigs

    def namespace(self, ind, path, depth, nsctx=()):
        rng = self.rng
        nsctx = list(nsctx)
        name = "N%d" % self.nns
        self.nns += 1
        q = (path + "::" if path else "") + name
        info = {"vars": [], "funcs": {}}
        self.t("%snamespace %s {\n" % (ind, name))
        reg = False
        for _ in range(rng.choice([2, 3, 4])):
            r = rng.random()
            if r < 0.4:
                vn = "v%d" % rng.randrange(4)
                if vn not in info["vars"]:
                    info["vars"].append(vn)
                    self.decl_var(vn, ind=ind + "  ", kind="ns-var", scope=q)
            elif r < 0.8:
                if not reg:
                    self.nspaces.append((q, info)); reg = True
                self.overloads(ind + "  ", info["funcs"], {"ns": nsctx + [info]}, scope=q)
            elif depth < 1:
                if not reg:
                    self.nspaces.append((q, info)); reg = True
                self.namespace(ind + "  ", q, depth + 1, nsctx + [info])
        if not reg:
            self.nspaces.append((q, info))
        self.t("%s}\n" % ind)

    def struct(self, ind):
        rng = self.rng
        name = "S%d" % self.nst
        self.nst += 1
        info = {"vars": [], "svars": [], "funcs": {}}
        self.t("%sstruct %s {\n" % (ind, name))
        for _ in range(rng.choice([2, 3, 4, 5])):
            r = rng.random()
            vn = "v%d" % rng.randrange(4)
            if r < 0.45:
                if vn not in info["vars"] and vn not in info["svars"]:
                    info["vars"].append(vn)
                    self.decl_var(vn, ind=ind + "  ", kind="member", scope=name)
            elif r < 0.6:
                if vn not in info["vars"] and vn not in info["svars"]:
                    info["svars"].append(vn)
                    self.decl_var(vn, static=True, ind=ind + "  ", kind="static-member", scope=name)
            else:
                self.overloads(ind + "  ", info["funcs"], {"struct": info}, method=True, scope=name)
        self.t("%s};\n" % ind)
        self.structs.append((name, info))

    def prog(self):
        rng = self.rng
        for _ in range(int(rng.choice([3, 4, 5, 6]) * self.size)):
            r = rng.random()
            if r < 0.25:
                vn = "v%d" % rng.randrange(4)
                if vn not in self.gvars:
                    self.gvars.append(vn)
                    self.decl_var(vn, kind="global-var")
            elif r < 0.45:
                self.namespace("", "", 0)
            elif r < 0.65:
                self.struct("")
            else:
                self.overloads("", self.gfuncs, {})
        for g in range(rng.choice([1, 2])):
            self.t("int g%d() {\n" % g)
            self.argvars("  ")
            self.objects("  ")
            self.stmts("  ", {"local": [set()]}, 0, rng.choice([4, 6, 8]))
            self.t("  return 0;\n}\n")
        return self

    # -- (de)serialisation of a finished program (corpus witnesses, replays) ---------------------------------------------------
    def to_json(self):
        return dict(toks=[list(t) for t in self.toks], k=self.k, nocc=self.nocc,
                    dinfo=dict((str(k), list(v)) for k, v in self.dinfo.items()),
                    oinfo=dict((str(o), v) for o, v in self.oinfo.items()))

    @staticmethod
    def from_json(j):
        g = LinkGen(None)
        g.toks = [tuple(t) for t in j["toks"]]
        g.k = j["k"]
        g.nocc = j["nocc"]
        g.dinfo = dict((int(k), tuple(tuple(x) if isinstance(x, list) else x for x in v)) for k, v in j["dinfo"].items())
        g.oinfo = dict((int(o), v) for o, v in j["oinfo"].items())
        g.kinds = dict((o, v["kind"]) for o, v in g.oinfo.items())
        return g

    def name_at(self, line):
        """name of the declaration printed at this line of the cppcheck text"""
        if not hasattr(self, "_line_names"):
            self._line_names = {}
            ln = 1 + self.header().replace("template<int N> struct Probe;\n", "").count("\n")
            for tk in self.toks:
                if tk[0] == "t":
                    ln += tk[1].count("\n")
                elif tk[0] in ("d", "u"):
                    ln += 1
                    self._line_names[ln] = tk[1]
                    ln += 1
        return self._line_names.get(line)

    # -- rendering -------------------------------------------------------------------------------------------------------
    def header(self):
        return ("template<int N> struct Probe;\n" + "".join("struct R%d { char c[%d]; };\n" % (k, k) for k in range(1, self.k + 1)) +
                "void sink(const void *);\n")

    def render(self, probes):
        """text; for probes=False also {occ: line}, {decl line: k}"""
        out = [self.header()] if probes else [self.header().replace("template<int N> struct Probe;\n", "")]
        line = 1 + out[0].count("\n")
        occ_line, decl_line = {}, {}
        for tk in self.toks:
            if tk[0] == "t":
                out.append(tk[1]); line += tk[1].count("\n")
            elif tk[0] == "p":
                if probes:
                    s = "%sProbe<sizeof(%s)> q%d;\n" % (tk[3], tk[1], tk[2])
                    out.append(s); line += 1
            else:
                out.append("\n"); line += 1
                if tk[0] == "d":
                    decl_line[line] = tk[2]
                else:
                    occ_line[tk[2]] = line
                out.append(tk[1] + "\n"); line += 1
        return "".join(out), occ_line, decl_line


class HierGen(LinkGen):
    """class hierarchies (1-3 levels, single inheritance and two bases) whose data members are drawn from the same 4 names at
    several levels (hiding); the names are used unqualified / via this-> / qualified Base::m in inline AND out-of-line member
    functions and constructor initialiser lists, and through objects.  Oracle as for LinkGen: sizeof probes answered by g++."""

    def new_occ(self, kind, name, **extra):
        occ = self.nocc
        self.nocc += 1
        self.kinds[occ] = kind
        self.oinfo[occ] = dict(kind=kind, name=name, prefix=extra.get("prefix", ""), usings={}, argtypes=[], scope=extra.get("cls", ""),
                               udirs=[], fun_udirs=[], **dict((k, v) for k, v in extra.items() if k not in ("prefix", "cls")))
        return occ

    def member_use(self, ind, cls, name, how, outofline, where, body=-1):
        """one use of member name `name` inside a member function of `cls`"""
        prefix = {"plain": "", "this": "this->"}.get(how, how + "::")
        kind = "hier-" + (how if how in ("plain", "this") else "base-qualified")
        occ = self.new_occ(kind, name, prefix=prefix, cls=cls, outofline=outofline, where=where, body=body)
        self.toks.append(("p", prefix + name, occ, ind))
        self.t(ind + "sink(&" + prefix)
        self.toks.append(("u", name, occ))
        self.t(");\n")

    def body(self, ind, cls, outofline, where):
        rng = self.rng
        info = self.classes[cls]
        names = ["v%d" % j for j in range(4)]
        visible = sorted(self.all_members(cls)) or names
        self.nbody = getattr(self, "nbody", 0) + 1
        bid = self.nbody
        if not hasattr(self, "bad_bodies"):
            self.bad_bodies = []          # bodies that name something that is not a member (not valid C++)
        shadow = None
        if rng.random() < 0.15:
            shadow = rng.choice(names)       # a local that hides the member
            k = self.newk()
            self.dinfo[k] = ("local", "")
            self.t("%sR%d" % (ind, k))
            self.toks.append(("d", shadow, k))
            self.t(";\n")
        for _ in range(rng.choice([2, 3, 4])):
            nm = rng.choice(visible) if rng.random() < 0.9 else rng.choice(names)
            r = rng.random()
            anc = self.ancestors(cls)
            if r < 0.5:
                how = "plain"
            elif r < 0.75 or not anc:
                how = "this"
            else:
                how = rng.choice(anc)
            if nm not in self.all_members(cls) and nm not in self.gvars and nm != shadow:
                self.bad_bodies.append(bid)
            self.member_use(ind, cls, nm, how, outofline, where, body=bid)

    def ancestors(self, cls):
        out = []
        for b in self.classes[cls]["bases"]:
            out += [b] + self.ancestors(b)
        return out

    def all_members(self, cls):
        m = set(self.classes[cls]["vars"])
        for b in self.classes[cls]["bases"]:
            m |= self.all_members(b)
        return m

    def prog(self):
        rng = self.rng
        self.classes = {}
        order = []
        later = []          # out-of-line definitions: (cls, kind, name)
        if rng.random() < 0.3:
            vn = "v%d" % rng.randrange(4)
            self.gvars.append(vn)
            self.decl_var(vn, kind="global-var")
        ncls = rng.choice([2, 3, 3, 4])
        nh = 0
        for i in range(ncls):
            cls = "C%d" % i
            bases = []
            if order:
                r = rng.random()
                if r < 0.65:
                    bases = [rng.choice(order)]
                elif r < 0.85 and len(order) >= 2:
                    a, b = rng.sample(order, 2)
                    if a not in self.ancestors(b) and b not in self.ancestors(a):
                        bases = [a, b]
                    else:
                        bases = [b]
            self.classes[cls] = dict(bases=bases, vars=[])
            order.append(cls)
            self.t("struct %s%s {\n" % (cls, (" : " + ", ".join(bases)) if bases else ""))
            nv = rng.choice([1, 2, 2, 3])
            names = rng.sample(["v%d" % j for j in range(4)], nv)
            members_first = rng.random() < 0.7
            def members():
                for vn in names:
                    self.classes[cls]["vars"].append(vn)
                    self.decl_var(vn, ind="  ", kind="member", scope=cls)
            if members_first:
                members()
            for _ in range(rng.choice([1, 2, 2])):
                h = "h%d" % nh
                nh += 1
                if rng.random() < 0.45:
                    self.t("  int %s() {\n" % h)
                    if not members_first:       # the body may name members declared below (complete-class context)
                        self.classes[cls]["vars"] = list(names)
                    self.body("    ", cls, False, "inline-function")
                    if not members_first:
                        self.classes[cls]["vars"] = []
                    self.t("    return 0;\n  }\n")
                else:
                    self.t("  int %s();\n" % h)
                    later.append((cls, "fun", h))
            if rng.random() < 0.6:
                self.t("  %s();\n" % cls)
                later.append((cls, "ctor", cls))
            if not members_first:
                members()
            self.t("};\n")
        rng.shuffle(later)
        for cls, kind, name in later:
            if kind == "fun":
                self.t("int %s::%s() {\n" % (cls, name))
                self.body("  ", cls, True, "out-of-line-function")
                self.t("  return 0;\n}\n")
            else:
                own = list(self.classes[cls]["vars"])
                inits = rng.sample(own, rng.choice([1, min(2, len(own))])) if own else []
                occs = []
                for vn in inits:
                    # the mem-initializer-id is looked up in the scope of the class: same declaration as the qualified name
                    occ = self.new_occ("hier-init-list", vn, prefix="", cls=cls, outofline=True, where="ctor-init-list")
                    self.toks.append(("p", "%s::%s" % (cls, vn), occ, ""))
                    occs.append((vn, occ))
                self.t("%s::%s()" % (cls, cls))
                for j, (vn, occ) in enumerate(occs):
                    self.t(" : " if j == 0 else ", ")
                    self.toks.append(("u", vn, occ))
                    self.t("()")
                self.t(" {\n")
                self.body("  ", cls, True, "out-of-line-ctor-body")
                self.t("}\n")
        self.t("int g0() {\n")
        for cls in order:
            self.t("  %s o%s; %s *p%s = &o%s;\n" % (cls, cls[1:], cls, cls[1:], cls[1:]))
        for _ in range(rng.choice([2, 3, 4])):
            cls = rng.choice(order)
            mem = sorted(self.all_members(cls))
            if not mem:
                continue
            nm = rng.choice(mem)
            anc = self.ancestors(cls)
            acc = rng.choice(["o%s." % cls[1:], "p%s->" % cls[1:]])
            if anc and rng.random() < 0.3:
                acc += rng.choice(anc) + "::"
            occ = self.new_occ("hier-object", nm, prefix=acc, cls=cls, outofline=False, where="object")
            self.toks.append(("p", acc + nm, occ, "  "))
            self.t("  sink(&" + acc)
            self.toks.append(("u", nm, occ))
            self.t(");\n")
        self.t("  return 0;\n}\n")
        return self


# -- comparison and classification -----------------------------------------------------------------------------------------

PROMO = {("char", "int"), ("short", "int"), ("bool", "int"), ("float", "double")}
ARITH = {"int", "long", "double", "char", "bool", "unsigned", "float", "short"}


def conv_rank(arg, par):
    """rank of the implicit conversion of one argument: 0 exact, 1 promotion, 2 conversion, 9 none (only the built-in types
    the generator uses)"""
    if arg == par:
        return 0
    if arg == "zero":
        return 0 if par == "int" else 2
    if (arg, par) in PROMO:
        return 1
    if arg in ARITH and par in ARITH:
        return 2
    if arg == "const char *" and par == "bool":
        return 2
    return 9


def scope_prefix(outer, inner):
    """is scope path `outer` a proper enclosing scope of `inner` ('' = global)"""
    if outer == inner:
        return False
    return outer == "" or inner.startswith(outer + "::")


def classify_link(g, occ, use_line, linked_k, linked_line, expected_k, expected_line=None):
    """specific classes of `token linked to another declaration than the compiler selects`"""
    oi = g.oinfo[occ]
    dl = g.dinfo.get(linked_k)
    de = g.dinfo.get(expected_k)
    if dl is None or de is None:
        return None
    # F8k: a file-scope variable declared before the class is in the VariableMap when setVarIdPass1 walks a member function
    # that is defined outside the class (or inline, when the member is inherited or declared below the function); the
    # unqualified / this-> name gets the global's id there and setVarIdPass2 only fills tokens that have no id yet
    if (oi.get("where") in ("out-of-line-function", "out-of-line-ctor-body", "inline-function") and oi["kind"] in ("hier-plain", "hier-this")
            and dl[0] == "global-var" and de[0] == "member"
            and (oi["where"] != "inline-function" or de[1] != oi.get("scope") or (expected_line or 0) > use_line)):
        return "global-variable-wins-over-member-in-member-function"
    # K1: `using NS::x;` earlier in the function: every later token spelled x is treated as NS::x, also `s.x`, `::x` and
    # uses bound to an inner declaration of x
    if oi["name"] in oi["usings"] and dl[0] == "ns-var" and dl[1] == oi["usings"][oi["name"]]:
        return "using-declaration-substitutes-other-name"
    udirs = oi.get("udirs", [])
    use_scope = oi.get("scope", "")
    # K8: inside a member function a using-declaration `using NS::x;` hides the member x for the compiler (also in nested
    # blocks); cppcheck links the use in a nested block to the member of the enclosing class
    if (oi["name"] in oi["usings"] and de[0] == "ns-var" and de[1] == oi["usings"][oi["name"]]
            and dl[0] in ("member", "static-member") and dl[1] == use_scope):
        return "using-declaration-loses-to-member"
    dormant = [p for p in oi.get("fun_udirs", []) if p not in udirs]
    # K2: a non-member function declared after the call cannot be what the compiler selected
    if dl[0] == "function" and de[0] in ("function", "method") and linked_line > use_line:
        return "call-linked-to-later-declaration"
    # K6: a `using namespace P;` in effect makes the compiler select P's declaration; cppcheck links to another scope's
    if de[0] in ("function", "ns-var") and de[1] in udirs and dl[1] != de[1] and dl[1] not in udirs:
        return "using-directive-ignored"
    # K7: a `using namespace P;` that is not in effect at the use (it follows later in the function, or sits in a block that
    # is already closed) nevertheless makes P's declarations candidates (P not otherwise visible from the use)
    if (dl[0] in ("function", "ns-var") and dl[1] in dormant and de[1] != dl[1]
            and not (dl[1] == use_scope or scope_prefix(dl[1], use_scope))):
        return "using-directive-applied-outside-its-region"
    if dl[0] in ("function", "method") and de[0] in ("function", "method"):
        same_set = dl[1] == de[1] or dl[1] in udirs or de[1] in udirs      # one candidate set for overload resolution
        # K3: the compiler's function lives in a scope nested inside the scope of the linked one and hides it
        if not same_set and scope_prefix(dl[1], de[1]):
            return "call-linked-to-hidden-outer-function"
        # K4 / K5: same candidate set; conversion ranks per argument
        if same_set and len(dl[2]) == len(de[2]) == len(oi["argtypes"]):
            rl = [conv_rank(a, p) for a, p in zip(oi["argtypes"], dl[2])]
            re_ = [conv_rank(a, p) for a, p in zip(oi["argtypes"], de[2])]
            if 9 in rl and 9 not in re_:
                return "call-linked-to-nonviable-overload"     # K5: some argument cannot be converted to the parameter type
            if all(x >= y for x, y in zip(rl, re_)) and any(x > y for x, y in zip(rl, re_)):
                return "call-linked-to-dominated-overload"
    return None


def gxx_probe_batch(ctx, gens, tag):
    """one g++ -fsyntax-only run over a translation unit holding all programs (identifiers prefixed per program).
    Returns per program {occ: k}: only probes on whose line g++ reported nothing else (an `invalid conversion` that g++
    merely diagnoses, an ambiguity, an undeclared name make the probe unusable)."""
    text, starts = "", []
    for i, g in enumerate(gens):
        t = g.render(True)[0]
        t = re.sub(r"\b([vfNSRgqaspblCho]\d+)\b", lambda m: "X%d_%s" % (i, m.group(1)), t)
        t = t.replace("template<int N> struct Probe;\n", "" if i else "template<int N> struct Probe;\n")
        t = t.replace("void sink(const void *);\n", "" if i else "void sink(const void *);\n")
        starts.append(text.count("\n") + 1)
        text += t
    path = os.path.join(ctx.tmp, "probe_%s.cpp" % tag)
    open(path, "w").write(text)
    r = subprocess.run(["g++", "-std=c++17", "-fsyntax-only", "-fmax-errors=0", "-pedantic-errors", path],
                       stdout=subprocess.PIPE, stderr=subprocess.PIPE, text=True, timeout=600)
    try:
        os.remove(path)
    except OSError:
        pass
    probes, bad = [], set()
    for m in re.finditer(r"^[^\n:]+:(\d+):\d+: error: (.*)$", r.stderr, re.M):
        line, msg = int(m.group(1)), m.group(2)
        mm = re.match(r"aggregate .Probe<(\d+)> X(\d+)_q(\d+). has incomplete type", msg)
        if mm:
            probes.append((int(mm.group(2)), int(mm.group(3)), int(mm.group(1)), line))
        else:
            bad.add(line)
    out = [dict() for _ in gens]
    for i, q, k, line in probes:
        if line not in bad:
            out[i][q] = k
    return out


def link_compare(g, probes, harness_line):
    """per occurrence: ('ok'|'unlinked'|'none'|'wrong', detail)"""
    text, occ, decl = g.render(False)
    if not harness_line.startswith("ok"):
        return None, text
    links = {}
    for e in harness_line.split()[1:]:
        l, v = e.split(":")
        links.setdefault(int(l), set()).add(v)
    res = []
    for o in range(g.nocc):
        if o not in probes:
            res.append(("none", None))
            continue
        lk = links.get(occ[o], {"?"})
        v = sorted(lk)[0]
        if len(lk) != 1 or v in ("-", "?"):
            res.append(("unlinked", None))
            continue
        ll = int(v[1:])
        kc = decl.get(ll)
        if kc == probes[o]:
            res.append(("ok", None))
        else:
            k2line = dict((k, l) for l, k in decl.items())
            res.append(("wrong", dict(occ=o, use_line=occ[o], linked=v, linked_decl=g.dinfo.get(kc), compiler_decl=g.dinfo.get(probes[o]),
                                      compiler_line=k2line.get(probes[o]), info=g.oinfo[o],
                                      key=classify_link(g, o, occ[o], kc, ll, probes[o], k2line.get(probes[o])))))
    return res, text


def link_tie(ctx, res, exe, n, batch=20, drv=None):
    """sampled tie for the part of the property outside the Lean model: calls / overloads, members, namespaces, static
    members, lambdas.  Oracle = g++ (sizeof probes), implementation = Token::variable / Token::function after simplifyTokens1."""
    rng = ctx.rng
    gens, origin = [], []
    p = os.path.join(core.VERIF, "corpus", "C08", "link_witnesses.json")
    for w in (json.load(open(p)) if os.path.exists(p) else []):
        gens.append(LinkGen.from_json(w["prog"]))
        origin.append("corpus:" + w["key"])
    for _ in range(n):
        if rng.random() < 0.3:
            gens.append(HierGen(rng).prog())
        else:
            gens.append(LinkGen(rng, size=rng.choice([0.6, 1.0, 1.0]), order=rng.random() < 0.2).prog())
        origin.append("generated")
    jobs = [(b, gens[b:b + batch]) for b in range(0, len(gens), batch)]
    with concurrent.futures.ThreadPoolExecutor(max_workers=2) as ex:
        parts = list(ex.map(lambda j: gxx_probe_batch(ctx, j[1], "b%d" % j[0]), jobs))
    probes = [x for part in parts for x in part]
    rc, out, err = core.run_lines(exe, [], ["link " + core.hx(g.render(False)[0]) for g in gens], timeout=900)
    if len(out) != len(gens):
        raise core.CheckBroken("C08 harness (link) produced %d lines for %d programs: %s" % (len(out), len(gens), err[-300:]))
    if drv is not None:
        classvars_tie(ctx, res, drv, gens, probes, out)
    nprobe = nvalid = 0
    viol = []
    for k, (g, pr, o) in enumerate(zip(gens, probes, out)):
        cmp_, text = link_compare(g, pr, o)
        if cmp_ is None:
            res.count("link:tokenizer-rejects")
            continue
        wrong = [d for c, d in cmp_ if c == "wrong"]
        nprobe += g.nocc
        nvalid += sum(1 for c, d in cmp_ if c != "none")
        for o_, (c, d) in enumerate(cmp_):
            res.count("link:%s:%s" % (c, g.kinds[o_]) if c in ("ok", "wrong") else "link:" + c)
        res.case("link|" + text, bool(wrong) or sum(1 for c, d in cmp_ if c == "ok") >= 3,
                 dict(tie="link-probe", program=inline_vf(text)[-1500:], result=[c for c, d in cmp_]) if k % max(1, len(gens) // 3) == 0 else None)
        for d in wrong:
            viol.append(dict(gen=g, text=text, d=d, origin=origin[k]))
    res.extra["link_programs"] = len(gens)
    res.extra["link_probes"] = nprobe
    res.extra["link_probes_answered_by_gxx"] = nvalid
    res.oblig("link-probe:oracle-coverage", nvalid * 3 >= nprobe and nvalid >= 5 * len(gens) // 2, "machinery",
              "g++ answered only %d of %d probes" % (nvalid, nprobe))
    nunl = res.dist.get("link:unlinked", 0)
    res.oblig("link-probe:unlinked-ceiling", nunl * 20 <= nvalid, "correspondence",
              "" if nunl * 20 <= nvalid else "%d of %d probed tokens are not linked at all (ceiling 5 %%)" % (nunl, nvalid))
    known = set(e["key"] for e in core.load_known() if e.get("property") == ID and e.get("kind") == "finding")
    viol.sort(key=lambda v: (v["d"]["key"] in known, len(v["text"])))
    seen = {}
    for v in viol:
        key = v["d"]["key"]
        seen[key] = seen.get(key, 0) + 1
        if seen[key] > (4 if key is None else 1):
            continue          # one replay per known class (the smallest program), a few for unknown ones
        d = v["d"]
        what = ("a token is linked to another declaration than the compiler selects%s: line %d linked to %s %s, g++ selects %s (line %s); use %s\n%s" %
                ((" [class %s]" % key) if key else "", d["use_line"], d["linked"], d["linked_decl"], d["compiler_decl"], d["compiler_line"], d["info"], inline_vf(v["text"])))
        res.violation(what, dict(link=v["gen"].to_json(), detail=d, key=key, text=v["text"], replay_cmd="./check.py C08 --replay <this file>"), concrete=True, key=key)
    for key, cnt in seen.items():
        res.count("link:wrong-class:%s" % key, cnt)
    return viol


def classvars_tie(ctx, res, drv, gens, probes, outs):
    """correspondence for the Lean model of setVarIdPass2's member table (Model/ClassVars.lean): in member functions defined
    OUTSIDE the class and in constructor initialiser lists, an unqualified / this-> member name that no local, parameter or
    earlier file-scope variable shadows is linked to the declaration `classVarId` names (0 = not linked)"""
    ops, meta = [], []
    for gi, (g, o) in enumerate(zip(gens, outs)):
        if not isinstance(g, HierGen) or not o.startswith("ok"):
            continue
        # a function body in which g++ could not answer some probe (undeclared / ambiguous / wrongly qualified name) is not
        # valid C++: the tie compares only bodies the compiler accepts
        rejected = set(g.oinfo[oc].get("body", -1) for oc in range(g.nocc) if oc not in probes[gi])
        text, occ, decl = g.render(False)
        order = sorted(g.classes, key=lambda c: int(c[1:]))
        idx = dict((c, k) for k, c in enumerate(order))
        k_of = {}          # (class, name) -> tag of the member declaration
        for k, d in g.dinfo.items():
            pass
        line_k = decl
        own = dict((c, []) for c in order)
        # member declarations in textual order: toks carry them as ("d", name, k) with dinfo kind member
        for tk in g.toks:
            if tk[0] == "d" and g.dinfo.get(tk[2], ("",))[0] == "member":
                own[g.dinfo[tk[2]][1]].append((int(tk[1][1:]), tk[2]))
        enc = [str(len(order))]
        for c in order:
            bs = [idx[b] for b in g.classes[c]["bases"]]
            enc += [str(len(bs))] + [str(b) for b in bs] + [str(len(own[c]))] + [str(v) for p in own[c] for v in p]
        links = {}
        for e in o.split()[1:]:
            l, v = e.split(":")
            links.setdefault(int(l), set()).add(v)
        shadow_lines = sorted(l for l, k in decl.items() if g.dinfo.get(k, ("",))[0] == "local")
        for oc in range(g.nocc):
            oi = g.oinfo[oc]
            if oi.get("where") not in ("out-of-line-function", "out-of-line-ctor-body", "ctor-init-list") or oi["kind"] not in ("hier-plain", "hier-this", "hier-init-list"):
                continue
            if oi["name"] in g.gvars:
                continue           # F8k: the file-scope variable's id is already there
            if oi.get("body", -1) in getattr(g, "bad_bodies", []) or oi.get("body", -1) in rejected:
                continue           # the function body names something that is not a member: not a valid program
            if oi["kind"] == "hier-plain" and any(g.name_at(l) == oi["name"] for l in shadow_lines):
                continue           # a local of that name somewhere in the program: keep the comparison simple, skip the name
            lk = links.get(occ[oc], {"?"})
            v = sorted(lk)[0]
            real = 0 if (len(lk) != 1 or v in ("-", "?")) else decl.get(int(v[1:]), -1)
            ops.append("cls " + " ".join(enc) + " %d %d" % (idx[oi["scope"]], int(oi["name"][1:])))
            meta.append((gi, oc, real))
    if not ops:
        res.oblig("correspondence:classvars-model", False, "correspondence", "no hierarchy program produced a comparable member use")
        return
    rc, out, err = core.run_lines(drv, [], ops, timeout=600)
    bad = []
    for (gi, oc, real), line in zip(meta, out):
        m = re.match(r"^T (\d+) \| L (\S+) \| wf (\d) \| single (\d)$", line)
        if not m or int(m.group(1)) != real:
            bad.append((gi, oc, real, line))
        res.count("classvars:" + (m.group(2).split(":")[0] if m else "bad"))
    res.traces_validated += len(ops) - len(bad)
    detail = ""
    if bad:
        gi, oc, real, line = bad[0]
        detail = "%d of %d member uses: real link (declaration tag %s) differs from the model `%s`; use %s\n%s" % (
            len(bad), len(ops), real, line, gens[gi].oinfo[oc], inline_vf(gens[gi].render(False)[0])[-1800:])
    res.oblig("correspondence:classvars-model", len(out) == len(ops) and not bad, "correspondence", detail)


def inline_vf(text):
    return re.sub(r"\n([vf]\d+)\n", r" \1 ", text)


def dump_tie(ctx, res, cases, impl, n):
    """L5 of the audit: the ids `cppcheck --dump` writes (the property's observation point) equal the ids read in-process
    after simplifyTokens1, for a batch of programs"""
    binp = ctx.cppcheck
    bad, done = [], 0
    for k, (c, im) in enumerate(zip(cases, impl)):
        if done >= n:
            break
        if im[0] != "ok":
            continue
        done += 1
        text, occ = print_prog(c["prog"], c["cpp"])
        path = os.path.join(ctx.tmp, "d%d.%s" % (k, "cpp" if c["cpp"] else "c"))
        open(path, "w").write(text)
        rc, out, err = core.sh([binp, "--dump", "--quiet", path], timeout=120)
        by_line, conflict = {}, False
        try:
            dump = open(path + ".dump", encoding="utf-8", errors="replace").read()
        except OSError:
            bad.append((k, "no dump file (rc=%s %s)" % (rc, err[:100])))
            continue
        first = dump.find("<dump cfg=")
        second = dump.find("<dump cfg=", first + 1)
        body = dump[first:second if second > 0 else len(dump)]
        for m in re.finditer(r"<token [^>]*>", body):
            t = m.group(0)
            ms = re.search(r' str="(v\d+)"', t)
            if not ms:
                continue
            l = int(re.search(r' linenr="(\d+)"', t).group(1))
            mv = re.search(r' varId="(\d+)"', t)
            v = int(mv.group(1)) if mv else 0
            if l in by_line and by_line[l] != v:
                conflict = True
            by_line.setdefault(l, v)
        ids = [by_line.get(oc[0]) for oc in occ]
        if conflict or ids != im[2]:
            bad.append((k, "dump=%s in-process=%s" % (ids, im[2])))
        for f in (path, path + ".dump"):
            try:
                os.remove(f)
            except OSError:
                pass
    res.extra["dump_programs"] = done
    res.oblig("correspondence:dump-varids-equal-in-process", not bad and done > 0, "correspondence",
              "" if not bad else "%d of %d programs; first: %s %s" % (len(bad), done, describe(cases[bad[0][0]]), bad[0][1]))


def harness_exe(ctx):
    """the harness linked against the working-tree objects; VERIF_C08_HARNESS substitutes a harness linked against a mutated
    tokenize.o (used only for the mutation experiments described in docs/C08.md)"""
    return os.environ.get("VERIF_C08_HARNESS") or ctx.harness("c08")


def load_corpus():
    p = os.path.join(core.VERIF, "corpus", "C08", "cases.json")
    return json.load(open(p)) if os.path.exists(p) else []


def run(ctx, res):
    rng = ctx.rng
    thorough = ctx.tier == "thorough"
    core.prove(ctx, res, MODULES, THEOREMS)
    res.assumptions += [
        "implProg (Model/ScopeProg.lean) is a hand reading of setVarIdPass1; guarded by T:setvarid-shape and the in-process correspondence",
        "clang 14 (specification oracle) and g++ 12 (link probes) implement C/C++ name lookup and overload resolution correctly on the generated forms",
        "the printer (program -> C/C++ text) and the encoder (program -> driver tokens) in c08.py describe the same program",
        "calls/overloads, members, namespaces, lambdas: sampled only (link probes), no theorem",
    ]
    check_shape(ctx, res)
    drv = ctx.driver("drv_c08")
    exe = harness_exe(ctx)
    corpus = load_corpus()
    cases = [dict(cpp=c["cpp"], prog=c["prog"], valid=c.get("valid", True), origin="corpus", f4=c.get("f4", False), f8b=c.get("f8b", False)) for c in corpus]
    n = 8000 if thorough else 1500
    for _ in range(n):
        cases.append(gen_case(rng, ctx.tier))
    impl = impl_run(exe, cases)
    model = model_run(drv, cases)
    # W: the F4 witnesses discriminate between the two replay orders (model level), i.e. the comparison can see the defect
    wit = [k for k, c in enumerate(cases) if c.get("f4")]
    nodisc = [k for k in wit if model[k]["O"] == model[k]["S"] or not model[k]["dup"]]
    res.oblig("W:f4-witnesses-discriminate", bool(wit) and not nodisc, "machinery",
              "" if wit and not nodisc else "corpus witnesses of F4 missing or not discriminating: %s" % nodisc)
    viol, mism = compare(ctx, res, "tokenizer-varids", cases, impl, model)
    clang_oracle(ctx, res, cases, model, 4000 if thorough else 300)
    link_tie(ctx, res, exe, 1500 if thorough else 160, drv=drv)
    if thorough and not os.environ.get("VERIF_C08_HARNESS"):
        dump_tie(ctx, res, cases, impl, 250)
    # violation search: the correspondence broke but no explored case violates the property itself -> widen and shrink
    known = set(e["key"] for e in core.load_known() if e.get("property") == ID and e.get("kind") == "finding")
    fresh = [v for v in viol if v["key"] not in known]
    if (mism or any(not o["ok"] for o in res.obligations)) and not fresh:
        viol = search(ctx, res, drv, exe) + viol
    elif fresh:
        v = fresh[0]          # a violation outside the known classes: report a minimised program first
        small = shrink(drv, exe, v["case"], still_fails(0 not in v["spec"]))
        if small is not v["case"]:
            im = impl_run(exe, [small])[0]
            mo = model_run(drv, [small])[0]
            text, occ = print_prog(small["prog"], small["cpp"])
            bad, unl, dup_ids = p_impl(small, im[2], mo, occ)
            viol.insert(0, dict(case=small, text=text, impl=im[2], spec=mo["S"], model=mo["M"], old=mo["O"], bad=bad, dup_ids=dup_ids,
                                key=classify(small, im[1], mo, occ, bad, dup_ids)))
    viol.sort(key=lambda v: v["key"] in known)      # unknown classes first
    report(res, viol)
    if CRASHES:
        res.extra["harness_crashes"] = [dict(rc=c["rc"], lang=c["op"].split(" ")[0], source=core.unhx(c["op"].split(" ")[1]).decode("latin-1")[:3000]) for c in CRASHES[:3]]
        res.notes.append("the real code crashed on %d generated input(s) (see harness_crashes in the evidence): outside C08, a C13 matter" % len(CRASHES))


def search(ctx, res, drv, exe):
    """P_impl on a wider, shadowing-heavy sample"""
    rng = ctx.rng
    cases = []
    for _ in range(6000):
        cpp = rng.random() < 0.5
        g = Gen(rng, cpp, False, size=rng.choice([0.5, 1.0, 2.0]), nnames=rng.choice([1, 2, 2, 3]), dupbias=rng.choice([0.3, 0.6]))
        cases.append(dict(cpp=cpp, prog=g.prog(), valid=g.valid))
    impl = impl_run(exe, cases)
    model = model_run(drv, cases)
    res2 = core.Result(ctx, res.level)
    viol, mism = compare(ctx, res2, "search", cases, impl, model, register=False)
    res.extra["search_programs"] = len(cases)
    if viol:
        v = min(viol, key=lambda v: len(v["impl"]))
        small = shrink(drv, exe, v["case"], still_fails(0 not in v["spec"]))
        im = impl_run(exe, [small])[0]
        mo = model_run(drv, [small])[0]
        text, occ = print_prog(small["prog"], small["cpp"])
        bad, unl, dup_ids = p_impl(small, im[2], mo, occ)
        viol = [dict(case=small, text=text, impl=im[2], spec=mo["S"], model=mo["M"], old=mo["O"], bad=bad, dup_ids=dup_ids,
                     key=classify(small, im[1], mo, occ, bad, dup_ids))] + viol
    return viol


def replay(ctx, res, rp):
    drv = ctx.driver("drv_c08")
    exe = harness_exe(ctx)
    if "link" in rp:
        g = LinkGen.from_json(rp["link"])
        pr = gxx_probe_batch(ctx, [g], "replay")[0]
        rc, out, err = core.run_lines(exe, [], ["link " + core.hx(g.render(False)[0])])
        cmp_, text = link_compare(g, pr, out[0])
        print(inline_vf(text))
        wrong = [d for c, d in (cmp_ or []) if c == "wrong"]
        for d in wrong:
            print("VIOLATION property=C08 replay=(replayed) key=%s line %d linked to %s %s, g++ selects %s" % (d["key"], d["use_line"], d["linked"], d["linked_decl"], d["compiler_decl"]))
        print("replay: %d wrongly linked token(s)" % len(wrong))
        return 1 if wrong else 0
    cases = [dict(cpp=rp["cpp"], prog=rp["prog"])]
    impl = impl_run(exe, cases)
    model = model_run(drv, cases)
    viol, mism = compare(ctx, res, "replay", cases, impl, model)
    print(cases[0]["text"])
    print("impl :", impl[0])
    print("model:", model[0]["M"])
    print("spec :", model[0]["S"])
    for v in viol:
        print("VIOLATION property=C08 replay=(replayed) key=%s occurrences=%s" % (v["key"], v["bad"]))
    print("replay: %d violation(s), %d correspondence mismatch(es)" % (len(viol), len(mism)))
    return 1 if viol or mism else 0

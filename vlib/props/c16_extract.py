"""C16 translator: clang JSON AST of the classes shared between the workers of ThreadExecutor::check
-> per member function a structured event (RAII lock scopes, accesses to member fields, calls of other tracked methods).

Closed output grammar (python tuples, rendered to Lean `Cppcheck.Lockset.Stmt` by c16.py):
    ("skip",) | ("acc", kind, loc) | ("seq", a, b) | ("locked", mutex, body) | ("alt", a, b) | ("loop", b) | ("scope", b)
    | ("call", class, instance|"this", method)          (resolved and inlined by `instantiate`)
kind in {"read", "write", "atomic"}; loc / mutex are strings "Class[inst]::field".

Fail closed: every construct that is not recognised inside a tracked member function is appended to `unknown`
(file:line: text); the check turns a non-empty list into an undischarged translation obligation.
"""
import hashlib, json, os, re, subprocess, concurrent.futures

REPO = os.environ.get("VERIF_REPO", "/repo")
VERIF = os.path.dirname(os.path.dirname(os.path.dirname(os.path.abspath(__file__))))
CACHE = os.path.join(VERIF, ".build", "cache", "c16")
DEFINES = ["DANMAR_CPPCHECK_VERIF", "HAVE_BOOST", "HAVE_EXECINFO_H=1", "NDEBUG"]
INCS = ["lib", "cli", "frontend", "externals", "externals/simplecpp", "externals/tinyxml2", "externals/picojson"]
# -std=c++17 (not gnu++17: the gnu dialect predefines `unix`, which lib/pathmatch.h uses as an identifier)
CLANG = ["clang++-14", "-std=c++17", "-fsyntax-only", "-w"] + ["-D" + d for d in DEFINES] + \
        ["-I%s/%s" % (REPO, d) for d in INCS] + ["-Xclang", "-ast-dump=json"]

# (translation unit, -ast-dump-filter)
DUMPS = [
    ("cli/threadexecutor.cpp", "ThreadData"),
    ("cli/threadexecutor.cpp", "SyncLogForwarder"),
    ("cli/threadexecutor.cpp", "ThreadExecutor"),
    ("cli/threadexecutor.cpp", "threadProc"),
    ("cli/executor.cpp", "Executor"),
    ("lib/suppressions.cpp", "SuppressionList"),
    ("lib/timer.cpp", "TimerResults"),
    ("lib/settings.cpp", "mTerminated"),
]

# classes whose objects are reachable from more than one worker thread, and the instances that exist in one run
TRACKED = {
    "ThreadData": [""],            # `ThreadData data` in ThreadExecutor::check, &data handed to every std::async
    "SyncLogForwarder": [""],      # ThreadData::mLogForwarder
    "ThreadExecutor": [""],        # *this of ThreadExecutor::check (SyncLogForwarder::mThreadExecutor)
    "Executor": [""],              # base class sub-object of the ThreadExecutor
    "SuppressionList": ["nomsg", "nofail"],   # the two members of struct Suppressions (lib/suppressions.h)
    "TimerResults": [""],          # *mTimerResults (may be null)
}
BASES = {"ThreadExecutor": "Executor"}
# struct that only bundles tracked objects: field -> (class, instance)
BUNDLES = {"Suppressions": {"nomsg": ("SuppressionList", "nomsg"), "nofail": ("SuppressionList", "nofail")}}
# reference members to objects of classes outside the tracked set: one abstract location per referenced object
EXTERNAL = {("SyncLogForwarder", "mErrorLogger"): "ext::ErrorLogger(downstream)",
            ("Executor", "mErrorLogger"): "ext::ErrorLogger(downstream)"}
LOCK_TYPES = ("std::lock_guard<std::mutex>", "std::unique_lock<std::mutex>", "std::scoped_lock<std::mutex>",
              "lock_guard<std::mutex>", "unique_lock<std::mutex>")


def sha(b):
    return hashlib.sha256(b).hexdigest()


def headers_digest():
    h = hashlib.sha256()
    for d in ("lib", "cli", "frontend", "externals/simplecpp", "externals/tinyxml2", "externals/picojson"):
        p = os.path.join(REPO, d)
        for fn in sorted(os.listdir(p)):
            if fn.endswith((".h", ".hpp")):
                h.update(fn.encode())
                h.update(open(os.path.join(p, fn), "rb").read())
    return h.hexdigest()


def decode_all(s):
    dec = json.JSONDecoder()
    i, n, out = 0, len(s), []
    while i < n:
        while i < n and s[i].isspace():
            i += 1
        if i >= n:
            break
        o, j = dec.raw_decode(s, i)
        out.append(o)
        i = j
    return out


def dump_one(tu, flt, hd):
    """-> (list of top-level decls, stderr).  Cached by content hash of the TU, all headers and the command."""
    os.makedirs(CACHE, exist_ok=True)
    src = os.path.join(REPO, tu)
    key = sha((" ".join(CLANG) + "|" + flt + "|" + hd + "|").encode() + open(src, "rb").read())[:24]
    p = os.path.join(CACHE, "%s-%s-%s.json" % (os.path.basename(tu), flt, key))
    if os.path.exists(p):
        try:
            d = json.load(open(p))
            return d["decls"], d["stderr"]
        except Exception:
            pass
    r = subprocess.run(CLANG + ["-Xclang", "-ast-dump-filter=" + flt, src], stdout=subprocess.PIPE, stderr=subprocess.PIPE, text=True, errors="replace")
    decls = decode_all(r.stdout)
    err = r.stderr
    # keep the cache bounded: drop older dumps of the same (tu, filter)
    pre = "%s-%s-" % (os.path.basename(tu), flt)
    for fn in os.listdir(CACHE):
        if fn.startswith(pre):
            try:
                os.remove(os.path.join(CACHE, fn))
            except OSError:
                pass
    tmp = p + ".%d.tmp" % os.getpid()
    json.dump(dict(decls=decls, stderr=err), open(tmp, "w"))
    os.replace(tmp, p)
    return decls, err


def all_dumps(dumps=None, hd=None):
    hd = hd if hd is not None else headers_digest()
    out = {}
    with concurrent.futures.ThreadPoolExecutor(max_workers=2) as ex:
        futs = {(tu, f): ex.submit(dump_one, tu, f, hd) for tu, f in (dumps or DUMPS)}
        for k, fu in futs.items():
            out[k] = fu.result()
    return out


# ---- AST helpers --------------------------------------------------------------------------------------

class Lines:
    """offset -> line for the files of the repository"""
    def __init__(self):
        self.c = {}

    def line(self, f, off):
        if f not in self.c:
            try:
                data = open(f, "rb").read()
            except OSError:
                data = b""
            starts = [0]
            for m in re.finditer(b"\n", data):
                starts.append(m.end())
            self.c[f] = starts
        import bisect
        return bisect.bisect_right(self.c[f], off)


def qt(o):
    return (o.get("type") or {}).get("qualType", "")


def strip_type(t):
    t = t.strip()
    t = re.sub(r"^(const|volatile)\s+", "", t)
    t = re.sub(r"\s*(\*|&|&&)\s*(const)?$", "", t).strip()
    t = re.sub(r"^(const|volatile)\s+", "", t)
    t = re.sub(r"^(class|struct)\s+", "", t)
    return t


def kids(o):
    return [c for c in o.get("inner", []) if c]     # clang prints {} for absent optional children


class Extract:
    def __init__(self, dumps):
        self.dumps = dumps
        self.unknown = []
        self.lines = Lines()
        self.classes = {}        # name -> dict(fields=[...], methods=[...], file, decl_ids)
        self.record_ids = {}     # (tu, id) -> class name
        self.clang_errors = []
        self.atomic_globals = {}
        self.static_ids = set()  # (tu, id) of member functions declared static

    def unk(self, f, off, what):
        ln = self.lines.line(f, off) if f and off is not None else 0
        msg = "%s:%d: %s" % (f.replace(REPO + "/", "") if f else "?", ln, what)
        if msg not in self.unknown:
            self.unknown.append(msg)

    # -- pass 1: records, fields, method declarations ---------------------------------------------------
    def collect(self):
        for (tu, flt), (decls, err) in self.dumps.items():
            errs = [l for l in err.split("\n") if " error: " in l or "fatal error" in l]
            if errs:
                self.clang_errors.append("%s [%s]: %s" % (tu, flt, errs[0]))
            cur_file = os.path.join(REPO, tu)
            for d in decls:
                f = (d.get("loc") or {}).get("file") or ((d.get("range") or {}).get("begin") or {}).get("file")
                # a location inside a macro expansion / include chain
                for k in ("spellingLoc", "expansionLoc"):
                    f = f or ((d.get("loc") or {}).get(k) or {}).get("file")
                if f:
                    cur_file = f
                d["_file"] = cur_file
                d["_tu"] = tu
                if d.get("kind") == "CXXRecordDecl" and d.get("completeDefinition"):
                    self.collect_record(d, tu, cur_file, d.get("name"))
                if d.get("kind") == "VarDecl" and d.get("name") == "mTerminated":
                    self.atomic_globals["Settings::mTerminated"] = qt(d)
        # out-of-line definitions
        for (tu, flt), (decls, err) in self.dumps.items():
            for d in decls:
                if d.get("kind") in ("CXXMethodDecl", "CXXConstructorDecl", "CXXDestructorDecl"):
                    cls = self.record_ids.get((tu, d.get("parentDeclContextId")))
                    if cls in self.classes and any(c.get("kind") == "CompoundStmt" for c in kids(d)):
                        self.add_method(cls, d, d["_file"], tu)
                if d.get("kind") == "FunctionDecl" and d.get("name") == "threadProc":
                    self.classes.setdefault("::", dict(fields=[], methods=[], file=d["_file"], bases=[]))
                    self.add_method("::", d, d["_file"], tu)

    def collect_record(self, d, tu, f, qual):
        self.record_ids[(tu, d["id"])] = qual
        tracked = qual in TRACKED
        if tracked and qual not in self.classes:
            self.classes[qual] = dict(fields=[], methods=[], file=f, bases=[b.get("type", {}).get("qualType", "") for b in d.get("bases", [])],
                                      tag=d.get("tagUsed"))
        access = "public" if d.get("tagUsed") == "struct" else "private"
        seen_fields = tracked and bool(self.classes[qual]["fields"])
        for c in kids(d):
            k = c.get("kind")
            if k == "AccessSpecDecl":
                access = c.get("access", access)
            elif k == "CXXRecordDecl" and c.get("completeDefinition"):
                self.collect_record(c, tu, f, qual + "::" + c.get("name", "?"))
            elif k == "FieldDecl" and tracked and not seen_fields:
                self.classes[qual]["fields"].append(dict(name=c["name"], type=qt(c), mutable=bool(c.get("mutable")), access=access,
                                                         off=(c.get("loc") or {}).get("offset")))
            elif k in ("CXXMethodDecl", "CXXConstructorDecl", "CXXDestructorDecl") and tracked:
                if c.get("storageClass") == "static":
                    self.static_ids.add((tu, c.get("id")))
                if any(x.get("kind") == "CompoundStmt" for x in kids(c)) and not c.get("isImplicit"):
                    self.add_method(qual, c, f, tu)
            elif k == "VarDecl" and tracked and c.get("storageClass") == "static":
                pass

    def add_method(self, cls, d, f, tu):
        rng = d.get("range") or {}
        b = (rng.get("begin") or {}).get("offset")
        e = (rng.get("end") or {}).get("offset")
        # a range that starts in a macro expansion has spellingLoc/expansionLoc
        if b is None:
            b = ((rng.get("begin") or {}).get("expansionLoc") or {}).get("offset")
        if e is None:
            e = ((rng.get("end") or {}).get("expansionLoc") or {}).get("offset")
        kind = {"CXXConstructorDecl": "ctor", "CXXDestructorDecl": "dtor"}.get(d.get("kind"), "method")
        sig = qt(d)
        key = (d.get("name"), sig)
        for m in self.classes[cls]["methods"]:
            if (m["name"], m["sig"]) == key and m["file"] == f and m["b"] == b:
                return
        virt = bool(d.get("virtual")) or any(c.get("kind") == "OverrideAttr" for c in kids(d))
        self.classes[cls]["methods"].append(dict(
            name=d.get("name"), sig=sig, kind=kind, file=f, tu=tu, b=b, e=e,
            line_b=self.lines.line(f, b) if b is not None else 0, line_e=self.lines.line(f, e) if e is not None else 0,
            const=bool(re.search(r"\)\s*const\b", sig)), virtual=virt, ids=[x for x in (d.get("id"), d.get("previousDecl")) if x],
            static=d.get("storageClass") == "static" or (tu, d.get("previousDecl")) in self.static_ids or (tu, d.get("id")) in self.static_ids,
            ret=sig.split("(")[0].strip(), node=d))

    # -- field roles ----------------------------------------------------------------------------------
    def field_role(self, cls, fld):
        t = fld["type"]
        bare = strip_type(t)
        if bare in ("std::mutex", "mutex"):
            return "mutex"
        if re.match(r"(std::)?atomic<", bare):
            return "atomic"
        if (cls, fld["name"]) in EXTERNAL:
            return "external"
        is_ref = t.rstrip().endswith("&")
        is_ptr = t.rstrip().endswith("*")
        if bare in TRACKED or bare in BUNDLES:
            if is_ref or not is_ptr:
                return "link"          # reference to / sub-object of a tracked object: no data of its own
            return "linkptr"           # pointer: the pointer value is data, the pointee is a tracked object
        if is_ref and not re.match(r"^const\b", t.strip()):
            return "unknown-ref"
        if is_ref:
            return "roref"
        return "data"

    # -- pass 2: bodies ---------------------------------------------------------------------------------
    def analyse(self):
        for cls, c in self.classes.items():
            for f in c["fields"]:
                f["role"] = self.field_role(cls, f) if cls != "::" else "data"
                if f["role"] == "unknown-ref":
                    self.unk(c["file"], f["off"], "field %s::%s is a non-const reference to the untracked type %s" % (cls, f["name"], f["type"]))
        for cls, c in self.classes.items():
            for m in c["methods"]:
                self.cur = dict(cls=cls, file=m["file"], method=m)
                body = [x for x in kids(m["node"]) if x.get("kind") == "CompoundStmt"]
                inits = [x for x in kids(m["node"]) if x.get("kind") == "CXXCtorInitializer"]
                ir = ("skip",)
                # aliases (pointers / references / iterators into member data) held in local variables and parameters
                self.tainted = {}
                self.vartype = {}
                params = [x for x in kids(m["node"]) if x.get("kind") == "ParmVarDecl"]
                for pv in params:
                    self.vartype[pv.get("id")] = pv
                if body and cls != "::":
                    self.collect_taint(body[0])
                for ini in inits:
                    ir = seq(ir, self.ctor_init(cls, ini))
                if body:
                    ir = seq(ir, self.stmt(body[0]))
                # an alias stored through a reference parameter is visible to the caller after every lock of this function is gone
                for pv in params:
                    if pv.get("id") in self.tainted and qt(pv).rstrip().endswith("&"):
                        for (kind, loc) in sorted(self.tainted[pv["id"]]):
                            ir = seq(ir, ("acc", kind, loc))
                m["ir"] = ir
                if m["kind"] == "method" and re.search(r"[&*]\s*$|iterator", m["ret"]) and has_access(ir):
                    self.unk(m["file"], m["b"], "%s::%s returns %s and touches member data (a reference could outlive the lock scope)" % (cls, m["name"], m["ret"]))
                del m["node"]

    def fields_of(self, cls):
        out = {}
        c = cls
        while c:
            for f in self.classes.get(c, {}).get("fields", []):
                out.setdefault(f["name"], (c, f))
            c = BASES.get(c)
        return out

    def ctor_init(self, cls, ini):
        fld = (ini.get("anyInit") or {}).get("name")
        ir = ("skip",)
        for c in kids(ini):
            ir = seq(ir, self.expr(c))
        if fld:
            fl = self.fields_of(cls).get(fld)
            if fl and fl[1]["role"] in ("data", "linkptr", "atomic"):
                ir = seq(ir, ("acc", "write", "%s::%s" % (fl[0], fld)))
        return ir

    # -- aliases into member data ----------------------------------------------------------------------------
    ALIAS_RX = re.compile(r"\*|iterator|reference_wrapper|string_view|\bspan\s*<")

    def alias_capable(self, node, strip_ref):
        t = qt(node)
        d = (node.get("type") or {}).get("desugaredQualType", "")
        if not strip_ref and t.rstrip().endswith("&"):
            return True
        for x in (t, d):
            x = re.sub(r"\s*&&?\s*$", "", x)
            if self.ALIAS_RX.search(x):
                return True
        return False

    def alias_kind(self, node):
        t = qt(node) + " " + (node.get("type") or {}).get("desugaredQualType", "")
        return "read" if re.search(r"\bconst\b[^*&]*[*&]|const_iterator|^const\b", t) else "write"

    def mentioned(self, e, fields, vars_):
        """data fields of *this and variables referenced anywhere below `e`"""
        k = e.get("kind")
        if k == "MemberExpr" and kids(e) and is_this(kids(e)[0]):
            fl = self.fields_of(self.cur["cls"]).get(e.get("name"))
            if fl and fl[1]["role"] in ("data", "linkptr"):
                t = fl[1]["type"]
                ptr = bool(self.ALIAS_RX.search(re.sub(r"\s*&&?\s*$", "", t))) or fl[1]["role"] == "linkptr"
                fields.add("%s::%s%s" % (fl[0], e["name"], "->*" if ptr else ""))
        if k == "DeclRefExpr":
            rd = e.get("referencedDecl") or {}
            if rd.get("kind") in ("VarDecl", "ParmVarDecl", "BindingDecl"):
                vars_.add(rd.get("id"))
        for c in kids(e):
            self.mentioned(c, fields, vars_)

    def collect_taint(self, body):
        """fixpoint: a variable of pointer / reference / iterator type that occurs in one full-expression together with member data
        (or with another alias) is an alias of that data.  Over-approximates (fail closed): comparing a pointer with a member
        also taints it."""
        roots = []

        def walk(n):
            k = n.get("kind", "")
            if k == "VarDecl":
                self.vartype[n.get("id")] = n
                roots.append(("decl", n))
                return
            if k.endswith("Stmt") or k in ("CXXCatchStmt",):
                for c in kids(n):
                    walk(c)
                return
            roots.append(("expr", n))
        walk(body)
        changed = True
        rounds = 0
        while changed and rounds < 20:
            changed = False
            rounds += 1
            for (kind, n) in roots:
                fields, vs = set(), set()
                self.mentioned(n, fields, vs)
                locs = set((None, f) for f in fields)
                for v in vs:
                    for (k2, l2) in self.tainted.get(v, ()):
                        locs.add((None, l2))
                if not locs:
                    continue
                targets = []
                if kind == "decl":
                    if self.alias_capable(n, strip_ref=False) and not any(lt in qt(n) for lt in ("lock_guard", "unique_lock", "scoped_lock")):
                        targets.append(n)
                    # a lambda / nested declaration inside the initialiser is handled through `vs`
                for v in vs:
                    vd = self.vartype.get(v)
                    if vd is not None and vd is not n and self.alias_capable(vd, strip_ref=True):
                        targets.append(vd)
                for vd in targets:
                    ak = self.alias_kind(vd)
                    cur = self.tainted.setdefault(vd.get("id"), set())
                    for (_, l) in locs:
                        if (ak, l) not in cur and not (ak == "read" and ("write", l) in cur):
                            cur.add((ak, l))
                            changed = True
                # an alias to member data stored into another member
                if kind == "expr":
                    self.member_alias_store(n)

    def member_alias_store(self, n):
        if n.get("kind") == "BinaryOperator" and n.get("opcode") == "=" and len(kids(n)) == 2:
            lhs, rhs = kids(n)
            if lhs.get("kind") == "MemberExpr" and kids(lhs) and is_this(kids(lhs)[0]) and self.alias_capable(lhs, strip_ref=True):
                fields, vs = set(), set()
                self.mentioned(rhs, fields, vs)
                if fields or any(self.tainted.get(v) for v in vs):
                    self.unk(self.cur["file"], self.off(n), "a pointer / iterator into member data is stored in the member %s" % lhs.get("name"))
        for c in kids(n):
            if not c.get("kind", "").endswith("Stmt"):
                self.member_alias_store(c)

    def off(self, o):
        r = (o.get("range") or {}).get("begin") or {}
        return r.get("offset", (r.get("expansionLoc") or {}).get("offset"))

    def lock_decl(self, vd):
        """VarDecl of a lock type -> mutex name, or None (and an unknown entry)"""
        t = qt(vd)
        args = []
        for c in kids(vd):
            if c.get("kind") in ("CXXConstructExpr", "ExprWithCleanups", "CXXTemporaryObjectExpr"):
                args = kids(c) if c.get("kind") != "ExprWithCleanups" else kids(kids(c)[0]) if kids(c) else []
        if not t.endswith("lock_guard<std::mutex>"):
            self.unk(self.cur["file"], self.off(vd), "lock object of type %s (only std::lock_guard<std::mutex> scopes are understood)" % t)
            return None
        if len(args) != 1:
            self.unk(self.cur["file"], self.off(vd), "lock_guard with %d constructor arguments" % len(args))
            return None
        a = args[0]
        while a.get("kind") in ("ImplicitCastExpr", "ParenExpr") and kids(a):
            a = kids(a)[0]
        if a.get("kind") == "MemberExpr" and kids(a) and is_this(kids(a)[0]):
            fl = self.fields_of(self.cur["cls"]).get(a.get("name"))
            if fl and fl[1]["role"] == "mutex":
                return "%s::%s" % (fl[0], a["name"])
        if a.get("kind") == "DeclRefExpr" and strip_type(qt(a)) in ("std::mutex", "mutex"):
            rd = a.get("referencedDecl") or {}
            return "global::" + rd.get("name", "?")
        self.unk(self.cur["file"], self.off(vd), "lock_guard on an expression that is not a mutex member of *this or a global mutex")
        return None

    def block(self, stmts):
        """statement list with RAII scoping: a lock declaration guards the rest of the list"""
        ir = ("skip",)
        for i, s in enumerate(stmts):
            if s.get("kind") == "DeclStmt":
                locks = [v for v in kids(s) if v.get("kind") == "VarDecl" and any(lt in qt(v) for lt in ("lock_guard", "unique_lock", "scoped_lock"))]
                if locks:
                    if len(kids(s)) != 1:
                        self.unk(self.cur["file"], self.off(s), "lock declared together with other variables")
                    m = self.lock_decl(locks[0])
                    rest = self.block(stmts[i + 1:])
                    if m is None:
                        return seq(ir, rest)
                    return seq(ir, ("locked", m, rest))
            ir = seq(ir, self.stmt(s))
        return ir

    def stmt(self, s):
        k = s.get("kind")
        ch = kids(s)
        if k == "CompoundStmt":
            return self.block(ch)
        if k == "DeclStmt":
            ir = ("skip",)
            for v in ch:
                if v.get("kind") == "VarDecl":
                    if any(lt in qt(v) for lt in ("lock_guard", "unique_lock", "scoped_lock")):
                        self.unk(self.cur["file"], self.off(v), "lock declared outside a statement list")
                    if v.get("storageClass") == "static":
                        self.unk(self.cur["file"], self.off(v), "function-local static %s in a tracked member function" % v.get("name"))
                    for c in kids(v):
                        ir = seq(ir, self.expr(c))
                else:
                    ir = seq(ir, self.generic(v))
            return ir
        if k == "IfStmt":
            raw = s.get("inner", [])
            parts = [c for c in raw]
            idx = 0
            ir = ("skip",)
            if s.get("hasInit"):
                ir = seq(ir, self.stmt(parts[idx])); idx += 1
            if s.get("hasVar"):
                ir = seq(ir, self.stmt(parts[idx])); idx += 1
            ir = seq(ir, self.expr(parts[idx])); idx += 1
            then = self.stmt(parts[idx]) if idx < len(parts) and parts[idx] else ("skip",); idx += 1
            els = self.stmt(parts[idx]) if s.get("hasElse") and idx < len(parts) and parts[idx] else ("skip",)
            return seq(ir, ("alt", then, els))
        if k in ("ForStmt", "WhileStmt", "DoStmt"):
            raw = s.get("inner", [])
            if k == "ForStmt":
                init, condvar, cond, inc, body = (raw + [{}] * 5)[:5]
                pre = self.stmt(init) if init else ("skip",)
                inner = seq(seq(self.stmt(condvar) if condvar else ("skip",), self.expr(cond) if cond else ("skip",)),
                            seq(self.stmt(body) if body else ("skip",), self.expr(inc) if inc else ("skip",)))
            elif k == "WhileStmt":
                body = raw[-1]
                pre = ("skip",)
                inner = ("skip",)
                for c in raw[:-1]:
                    if c:
                        inner = seq(inner, self.stmt(c) if c.get("kind") == "DeclStmt" else self.expr(c))
                inner = seq(inner, self.stmt(body) if body else ("skip",))
            else:
                body, cond = (raw + [{}] * 2)[:2]
                pre = ("skip",)
                inner = seq(self.stmt(body) if body else ("skip",), self.expr(cond) if cond else ("skip",))
            return seq(pre, ("scope", ("loop", ("scope", inner))))
        if k == "CXXForRangeStmt":
            raw = s.get("inner", [])
            # [init, range, begin, end, cond, inc, loopvar, body]
            if len(raw) != 8:
                self.unk(self.cur["file"], self.off(s), "range-for with %d children" % len(raw))
                return self.generic(s)
            init, rng, beg, end, cond, inc, var, body = raw
            pre = ("skip",)
            for c in (init, rng, beg, end):
                if c:
                    pre = seq(pre, self.stmt(c))
            inner = seq(seq(self.expr(cond) if cond else ("skip",), self.stmt(var) if var else ("skip",)),
                        seq(self.stmt(body) if body else ("skip",), self.expr(inc) if inc else ("skip",)))
            return seq(pre, ("scope", ("loop", ("scope", inner))))
        if k == "SwitchStmt":
            ir = ("skip",)
            for c in ch[:-1]:
                ir = seq(ir, self.stmt(c) if c.get("kind") == "DeclStmt" else self.expr(c))
            body = ch[-1]
            arms = ("skip",)
            for c in (kids(body) if body.get("kind") == "CompoundStmt" else [body]):
                if c.get("kind") == "DeclStmt" and any("lock" in qt(v) for v in kids(c)):
                    self.unk(self.cur["file"], self.off(c), "lock declared directly in a switch body")
                arms = seq(arms, ("alt", self.stmt(c), ("skip",)))
            return seq(ir, ("scope", arms))
        if k in ("CaseStmt", "DefaultStmt"):
            ir = ("skip",)
            for c in ch:
                ir = seq(ir, self.stmt(c) if is_stmt(c) else self.expr(c))
            return ir
        if k == "CXXTryStmt":
            ir = ("scope", self.stmt(ch[0]))
            for c in ch[1:]:
                ir = seq(ir, ("alt", self.stmt(c), ("skip",)))
            return ir
        if k == "CXXCatchStmt":
            ir = ("skip",)
            for c in ch:
                ir = seq(ir, self.stmt(c) if is_stmt(c) else ("skip",) if c.get("kind") == "VarDecl" else self.expr(c))
            return ir
        if k == "ReturnStmt":
            ir = ("skip",)
            for c in ch:
                ir = seq(ir, self.expr(c))
            return ir
        if k in ("BreakStmt", "ContinueStmt", "NullStmt"):
            return ("skip",)
        if k in ("GotoStmt", "LabelStmt", "IndirectGotoStmt", "CoroutineBodyStmt", "CoreturnStmt", "GCCAsmStmt", "MSAsmStmt"):
            self.unk(self.cur["file"], self.off(s), "statement kind %s" % k)
            return self.generic(s)
        if k == "AttributedStmt":
            return self.generic_stmt_children(s)
        return self.expr(s)

    def generic_stmt_children(self, s):
        ir = ("skip",)
        for c in kids(s):
            if c.get("kind", "").endswith("Attr"):
                continue
            ir = seq(ir, self.stmt(c))
        return ir

    def generic(self, e):
        ir = ("skip",)
        for c in kids(e):
            ir = seq(ir, self.stmt(c) if is_stmt(c) else self.expr(c))
        return ir

    # -- expressions ------------------------------------------------------------------------------------
    def resolve_object(self, e):
        """expression denoting an object of a tracked class -> (class, instance | 'this') or None"""
        while e.get("kind") in ("ImplicitCastExpr", "ParenExpr", "CXXStaticCastExpr", "MaterializeTemporaryExpr") and kids(e):
            e = kids(e)[0]
        if e.get("kind") == "UnaryOperator" and e.get("opcode") in ("*", "&") and kids(e):
            return self.resolve_object(kids(e)[0])
        t = strip_type(qt(e))
        if e.get("kind") == "CXXThisExpr":
            return (self.cur["cls"], "this")
        if e.get("kind") == "MemberExpr" and kids(e):
            base = kids(e)[0]
            bt = strip_type(qt(base))
            if bt in BUNDLES and e.get("name") in BUNDLES[bt]:
                return BUNDLES[bt][e["name"]]
        if t in TRACKED:
            if len(TRACKED[t]) == 1:
                return (t, TRACKED[t][0])
            return (t, None)
        return None

    def expr(self, e, ctx=None):
        k = e.get("kind")
        ch = kids(e)
        if k is None:
            return ("skip",)
        if is_stmt(e):
            return self.stmt(e)
        if k == "BinaryOperator" and e.get("opcode") in ("&&", "||") and len(ch) == 2:
            return seq(self.expr(ch[0]), ("alt", self.expr(ch[1]), ("skip",)))
        if k == "ConditionalOperator" and len(ch) == 3:
            return seq(self.expr(ch[0]), ("alt", self.expr(ch[1]), self.expr(ch[2])))
        if k in ("BinaryConditionalOperator", "UnaryExprOrTypeTraitExpr", "CXXNoexceptExpr", "CXXTypeidExpr"):
            return ("alt", self.generic(e), ("skip",))
        if k == "LambdaExpr":
            ir = ("skip",)
            for c in ch:
                if c.get("kind") == "CXXRecordDecl":
                    continue
                ir = seq(ir, self.stmt(c) if is_stmt(c) else self.expr(c))
            if has_access(ir) or has_call(ir):
                self.unk(self.cur["file"], self.off(e), "lambda whose body touches member data of a tracked class")
            return ("loop", ("scope", ir))
        if k == "CXXMemberCallExpr" and ch and ch[0].get("kind") == "MemberExpr":
            callee = ch[0]
            obj = kids(callee)[0] if kids(callee) else {}
            tgt = self.resolve_object(obj) if obj else None
            if tgt is not None:
                cls, inst = tgt
                ir = ("skip",)
                # the object expression itself (reads of link fields are not data accesses)
                ir = seq(ir, self.object_path(obj))
                for a in ch[1:]:
                    ir = seq(ir, self.expr(a))
                if inst is None:
                    self.unk(self.cur["file"], self.off(e), "call of %s::%s on an object whose instance is not known" % (cls, callee.get("name")))
                    return ir
                return seq(ir, ("call", cls, inst, callee.get("name"), callee.get("referencedMemberDecl"), self.cur["method"]["tu"]))
            return self.generic(e)
        if k == "MemberExpr":
            base = ch[0] if ch else None
            if base is not None and is_this(base):
                return self.field_access(e)
            return self.generic(e)
        if k == "CXXThisExpr":
            return ("skip",)
        if k == "DeclRefExpr":
            rid = (e.get("referencedDecl") or {}).get("id")
            ir = ("skip",)
            for (kind, loc) in sorted(getattr(self, "tainted", {}).get(rid, ())):
                ir = seq(ir, ("acc", kind, loc))      # use of an alias = access to what it points into
            return ir
        if k == "CXXConstructExpr" and any(lt in qt(e) for lt in ("lock_guard", "unique_lock", "scoped_lock")):
            self.unk(self.cur["file"], self.off(e), "lock object constructed outside a declaration")
        return self.generic(e)

    def object_path(self, obj):
        """accesses performed while evaluating the object expression of a tracked call: link fields cost nothing,
        a pointer member is read"""
        e = obj
        while e.get("kind") in ("ImplicitCastExpr", "ParenExpr", "CXXStaticCastExpr", "MaterializeTemporaryExpr", "UnaryOperator") and kids(e):
            e = kids(e)[0]
        if e.get("kind") == "MemberExpr" and kids(e):
            base = kids(e)[0]
            if is_this(base):
                fl = self.fields_of(self.cur["cls"]).get(e.get("name"))
                if fl and fl[1]["role"] == "linkptr":
                    return ("acc", "read", "%s::%s" % (fl[0], e["name"]))
                return ("skip",)
            return self.object_path(base)
        if e.get("kind") in ("CXXThisExpr", "DeclRefExpr"):
            return ("skip",)
        return self.expr(e)

    def field_access(self, me):
        name = me.get("name")
        fl = self.fields_of(self.cur["cls"]).get(name)
        if fl is None:
            # member function referenced without call, static member, enumerator ...
            if qt(me) == "<bound member function type>":
                self.unk(self.cur["file"], self.off(me), "member function %s of %s referenced outside a direct call" % (name, self.cur["cls"]))
            return ("skip",)
        cls, f = fl
        role = f["role"]
        loc = "%s::%s" % (cls, name)
        if role == "mutex":
            self.unk(self.cur["file"], self.off(me), "mutex %s used outside a lock_guard declaration" % loc)
            return ("skip",)
        if role == "link":
            return ("skip",)
        if role == "atomic":
            return ("acc", "atomic", loc)
        if role == "external":
            loc = EXTERNAL[(cls, name)]
            return ("acc", "write", loc)
        kind = "write"
        t = qt(me)
        if re.match(r"^const\b", t) or re.search(r"\bconst$", t) or role == "roref":
            kind = "read"
        par = me.get("_parent")
        if par is not None and par.get("kind") == "ImplicitCastExpr":
            ck = par.get("castKind")
            if ck == "LValueToRValue":
                kind = "read"
            elif ck == "NoOp" and re.match(r"^const\b", qt(par)):
                kind = "read"
        return ("acc", kind, loc)


def is_this(e):
    """`this`, possibly behind implicit derived-to-base / qualification casts"""
    while e is not None and e.get("kind") in ("ImplicitCastExpr", "ParenExpr") and kids(e):
        e = kids(e)[0]
    return e is not None and e.get("kind") == "CXXThisExpr"


def is_stmt(o):
    k = o.get("kind", "")
    return k.endswith("Stmt") and k not in ()


def seq(a, b):
    if a == ("skip",):
        return b
    if b == ("skip",):
        return a
    return ("seq", a, b)


def has_access(ir):
    if ir[0] in ("acc", "locked"):
        return True
    return any(has_access(x) for x in ir[1:] if isinstance(x, tuple))


def has_call(ir):
    if ir[0] == "call":
        return True
    return any(has_call(x) for x in ir[1:] if isinstance(x, tuple))


def set_parents(o, parent=None):
    if isinstance(o, dict):
        if parent is not None:
            o["_parent"] = parent
        for c in o.get("inner", []):
            if c:
                set_parents(c, o)


def simplify(ir):
    """drop control structure that contains no access, lock or call"""
    t = ir[0]
    if t in ("skip", "acc", "call"):
        return ir
    if t == "seq":
        return seq(simplify(ir[1]), simplify(ir[2]))
    if t == "locked":
        return ("locked", ir[1], simplify(ir[2]))
    if t == "alt":
        a, b = simplify(ir[1]), simplify(ir[2])
        if a == ("skip",) and b == ("skip",):
            return ("skip",)
        if a == b:
            return a if not (has_access(a) or has_call(a)) else ("alt", a, b)
        return ("alt", a, b)
    if t in ("loop", "scope"):
        b = simplify(ir[1])
        if b == ("skip",):
            return b
        if t == "scope" and b[0] == "scope":
            return b
        return (t, b)
    return ir


def set_config(tracked, bases, bundles, external):
    """swap the shared-object tables (used by the translator self-tests on small sources); returns the old ones"""
    global TRACKED, BASES, BUNDLES, EXTERNAL
    old = (TRACKED, BASES, BUNDLES, EXTERNAL)
    TRACKED, BASES, BUNDLES, EXTERNAL = tracked, bases, bundles, external
    return old


def extract(dumps=None, hd=None):
    dumps = all_dumps(dumps, hd)
    for (tu, flt), (decls, err) in dumps.items():
        for d in decls:
            set_parents(d)
    ex = Extract(dumps)
    ex.collect()
    ex.analyse()
    for c in ex.classes.values():
        for m in c["methods"]:
            m["ir"] = simplify(m["ir"])
    return ex


# ---- instantiation: (class, instance, method) -> closed statement over location / mutex names -----------

class Inliner:
    def __init__(self, ex):
        self.ex = ex
        self.unknown = []

    def methods(self, cls, name, rmd=None, tu=None):
        """overloads a call may reach: the one clang resolved when caller and callee are in the same translation unit,
        otherwise every overload of that name"""
        out = []
        c = cls
        while c:
            out += [(c, m) for m in self.ex.classes.get(c, {}).get("methods", []) if m["name"] == name and m["kind"] == "method"]
            if out:
                break
            c = BASES.get(c)
        exact = [(c, m) for (c, m) in out if rmd and m["tu"] == tu and rmd in m["ids"]]
        return exact or out

    def locname(self, owner_cls, inst_map, raw):
        if raw.startswith("ext::") or raw.startswith("global::"):
            return raw
        cls, fld = raw.split("::", 1)
        inst = inst_map.get(cls, "")
        return "%s%s::%s" % (cls, "[%s]" % inst if inst else "", fld)

    def inst(self, cls, inst, ir, stack):
        """close `ir` (body of a method of `cls`, executed on instance `inst`)"""
        # instance names of the class and its bases
        imap = {}
        c = cls
        while c:
            imap[c] = inst
            c = BASES.get(c)
        t = ir[0]
        if t == "skip":
            return ir
        if t == "acc":
            return ("acc", ir[1], self.locname(cls, imap, ir[2]))
        if t == "locked":
            return ("locked", self.locname(cls, imap, ir[1]), self.inst(cls, inst, ir[2], stack))
        if t == "seq":
            return seq(self.inst(cls, inst, ir[1], stack), self.inst(cls, inst, ir[2], stack))
        if t == "alt":
            return ("alt", self.inst(cls, inst, ir[1], stack), self.inst(cls, inst, ir[2], stack))
        if t in ("loop", "scope"):
            return (t, self.inst(cls, inst, ir[1], stack))
        if t == "call":
            _, ccls, cinst, name, rmd, tu = ir
            if cinst == "this":
                cinst = inst
                if ccls != cls and ccls not in imap:
                    cinst = TRACKED.get(ccls, [""])[0]
            ms = self.methods(ccls, name, rmd, tu)
            if not ms:
                # constructors / operators / methods without a body in the dumps
                self.unknown.append("call of %s::%s: no definition found in the extracted classes" % (ccls, name))
                return ("skip",)
            out = None
            for (dc, m) in ms:
                key = (dc, cinst, name, m["sig"])
                if key in stack or len(stack) > 8:
                    self.unknown.append("recursive call chain through %s::%s" % (ccls, name))
                    continue
                body = ("scope", self.inst(dc, cinst, m["ir"], stack + [key]))
                out = body if out is None else ("alt", out, body)
            if out is None:
                return ("skip",)
            return simplify(out)
        raise ValueError(ir)


# ---- call sites and phases ------------------------------------------------------------------------------

SCAN_DIRS = ["lib", "cli", "frontend"]
# cli/cppcheckexecutor.cpp: regions that run on a worker thread (reached through SyncLogForwarder / the execute-command callback)
CCE_WORKER_REGIONS = ("StdLogger::", "class StdLogger", "CppCheckExecutor::executeCommand", "ansiToOEM")
FILE_RULES = [
    (r"^lib/", "worker", "library code, runs inside CppCheck::check on a worker thread"),
    (r"^cli/threadexecutor\.", "worker", "thread executor code outside the extracted member functions (treated as worker code)"),
    (r"^cli/executor\.", "worker", "executor base class (treated as worker code)"),
    (r"^cli/(singleexecutor|processexecutor)\.", "other", "another executor: CppCheckExecutor::check_internal constructs exactly one executor per run"),
    (r"^cli/(cmdlineparser|main|filelister|signalhandler|stacktrace|sehwrapper|cppcheckexecutorseh|cppcheckexecutorsig)\.", "main",
     "command line front end: runs on the main thread before / after ThreadExecutor::check"),
    (r"^frontend/", "main", "front end: runs on the main thread before ThreadExecutor::check"),
]


def strip_comments(text):
    """blank out comments, string and character literals (keeps offsets and newlines)"""
    out = list(text)
    i, n = 0, len(text)
    while i < n:
        c = text[i]
        if c == "/" and i + 1 < n and text[i + 1] == "/":
            j = text.find("\n", i)
            j = n if j < 0 else j
            for k in range(i, j):
                out[k] = " "
            i = j
        elif c == "/" and i + 1 < n and text[i + 1] == "*":
            j = text.find("*/", i + 2)
            j = n if j < 0 else j + 2
            for k in range(i, j):
                if out[k] != "\n":
                    out[k] = " "
            i = j
        elif c == '"' or c == "'":
            j = i + 1
            while j < n and text[j] != c:
                if text[j] == "\\":
                    j += 1
                if j < n and text[j] == "\n":
                    break
                j += 1
            for k in range(i + 1, min(j, n)):
                if out[k] != "\n":
                    out[k] = " "
            i = j + 1
        else:
            i += 1
    return "".join(out)


def regions(text):
    """top-level regions of a source file: list of (name, line_b, line_e).  A region is a function definition or a class body
    at namespace level (anonymous / named namespaces are transparent)."""
    out = []
    depth = 0
    ns_depths = []
    start = None
    hdr_from = 0
    line = 1
    i, n = 0, len(text)
    name = None
    while i < n:
        c = text[i]
        if c == "\n":
            line += 1
        elif c == "{":
            if depth == len(ns_depths):
                hdr = text[hdr_from:i]
                hs = " ".join(hdr.split())
                if re.search(r"\bnamespace\b[^;(){}]*$", hs):
                    ns_depths.append(depth)
                    depth += 1
                    hdr_from = i + 1
                    i += 1
                    continue
                m = re.search(r"\b(class|struct|union|enum)\s+(?:\w+\s+)*?(\w+)[^;()]*$", hs)
                if m and "(" not in hs:
                    name = "%s %s" % ("class" if m.group(1) in ("class", "struct") else m.group(1), m.group(2))
                else:
                    m = re.search(r"([\w:~]+)\s*\(", hs)
                    name = m.group(1) if m else "?"
                start = line - hdr.count("\n") + (len(hdr) - len(hdr.lstrip("\n ")) and hdr[:len(hdr) - len(hdr.lstrip())].count("\n"))
            depth += 1
        elif c == "}":
            depth -= 1
            if ns_depths and depth == ns_depths[-1]:
                ns_depths.pop()
                hdr_from = i + 1
            elif depth == len(ns_depths):
                out.append((name, start, line))
                hdr_from = i + 1
                name = None
        elif c == ";" and depth == len(ns_depths):
            hdr_from = i + 1
        i += 1
    return out


class Sites:
    def __init__(self, ex):
        self.ex = ex
        self.files = {}
        for d in SCAN_DIRS:
            p = os.path.join(REPO, d)
            for fn in sorted(os.listdir(p)):
                if fn.endswith((".cpp", ".h", ".hpp")):
                    rel = "%s/%s" % (d, fn)
                    self.files[rel] = strip_comments(open(os.path.join(p, fn), errors="replace").read())
        self.ranges = []       # (relfile, line_b, line_e, class, method)
        for cls, c in ex.classes.items():
            for m in c["methods"]:
                self.ranges.append((m["file"].replace(REPO + "/", ""), m["line_b"], m["line_e"], cls, m["name"], m["kind"]))
        self.cce_regions = regions(self.files.get("cli/cppcheckexecutor.cpp", ""))
        self.class_headers = {cls: c["file"].replace(REPO + "/", "") for cls, c in ex.classes.items() if cls != "::"}

    def context(self, rel, line):
        for (f, b, e, cls, name, kind) in self.ranges:
            if f == rel and b <= line <= e:
                return ("tracked", "%s::%s" % (cls, name), "")
        if rel == "cli/cppcheckexecutor.cpp":
            for (name, b, e) in self.cce_regions:
                if b is not None and b <= line <= e:
                    if name and name.startswith(CCE_WORKER_REGIONS):
                        return ("worker", name, "cli/cppcheckexecutor.cpp %s: reached from workers through SyncLogForwarder / the execute-command callback" % name)
                    return ("main", name, "cli/cppcheckexecutor.cpp %s: runs on the main thread before / after ThreadExecutor::check" % name)
            return ("worker", "?", "cli/cppcheckexecutor.cpp: enclosing function not determined (treated as worker code)")
        for rx, ph, why in FILE_RULES:
            if re.search(rx, rel):
                return (ph, rel, why)
        return ("worker", rel, "file without a rule (treated as worker code)")

    def sites(self, cls, name):
        """textual references `name(` outside declarations of the class itself"""
        out = []
        rx = re.compile(r"(?<![\w~])%s\s*\(" % re.escape(name))
        home = self.class_headers.get(cls, "")
        for rel, text in self.files.items():
            if home.endswith(".cpp") and rel != home:
                continue        # a class defined in a .cpp file cannot be named anywhere else
            for m in rx.finditer(text):
                line = text.count("\n", 0, m.start()) + 1
                pre = text[max(0, m.start() - 80):m.start()]
                # out-of-line definition or qualified declaration of this very method
                if re.search(r"\b%s\s*::\s*$" % re.escape(cls.split("::")[-1]), pre) and not re.search(r"[.>]\s*$", pre):
                    q = re.search(r"([\w:]+)::\s*$", pre)
                    ctx = self.context(rel, line)
                    if ctx[0] == "tracked" and ctx[1] == "%s::%s" % (cls, name):
                        continue
                ctx = self.context(rel, line)
                # member declarations in the class's own header (not inside an inline member function body)
                if rel == self.class_headers.get(cls) and ctx[0] != "tracked":
                    continue
                # a declaration of a same-named function in some header: `<type> name(...)` with nothing else before it
                ls = text.rfind("\n", 0, m.start()) + 1
                before = text[ls:m.start()]
                if rel.endswith((".h", ".hpp")) and ctx[0] != "tracked" and \
                        re.match(r"^\s*(?:(?:virtual|static|explicit|inline|constexpr|friend|CPPCHECKLIB)\s+)*[\w:<>,\*& ]*?[\w>\*&]\s+[\*&]*$", before) and \
                        not re.search(r"\b(return|else|case)\b|[=(.]", before):
                    continue
                # declarations inside other class bodies of the same TU (e.g. overriding declarations)
                if ctx[0] == "tracked" and ctx[1].split("::")[-1] == name and self.is_definition_line(rel, line, name):
                    continue
                out.append(dict(file=rel, line=line, ctx=ctx[0], where=ctx[1], why=ctx[2]))
        return out

    def is_definition_line(self, rel, line, name):
        for (f, b, e, cls, n, kind) in self.ranges:
            if f == rel and n == name and b <= line <= b + 1:
                return True
        return False


PHASE_ORDER = ["worker", "inlined", "main", "other", "unreferenced"]


def classify(ex):
    """-> {(class, method name): dict(phase, why, sites)}"""
    st = Sites(ex)
    out = {}
    for cls, c in ex.classes.items():
        names = []
        for m in c["methods"]:
            if m["name"] not in names:
                names.append(m["name"])
        for name in names:
            ms = [m for m in c["methods"] if m["name"] == name]
            kind = ms[0]["kind"]
            if cls == "::":
                out[(cls, name)] = dict(phase="worker", why="thread function passed to std::async in ThreadExecutor::check", sites=[])
                continue
            if kind in ("ctor", "dtor"):
                why = ("constructed by ThreadExecutor::check before the first std::async / destroyed after the last future::get"
                       if cls in ("ThreadData", "SyncLogForwarder") else
                       "the object exists before ThreadExecutor::check is entered (the executor only holds a reference / is the object itself) and outlives it")
                out[(cls, name)] = dict(phase="main", why=why, sites=[])
                continue
            if cls == "ThreadExecutor" and name == "check":
                out[(cls, name)] = dict(phase="main", why="the function that spawns and joins the workers; runs on the main thread", sites=[])
                continue
            sites = st.sites(cls, name)
            by = {}
            for s in sites:
                by.setdefault(s["ctx"], []).append(s)
            if any(m["virtual"] for m in ms):
                phase, why = "worker", "virtual: called through the base class interface (ErrorLogger / TimerResultsIntf) from library code on worker threads"
            elif "worker" in by:
                phase = "worker"
                fl = sorted(set(s["file"] for s in by["worker"]))
                why = "referenced from worker code: " + ", ".join(fl[:6]) + (" … (%d files)" % len(fl) if len(fl) > 6 else "")
            elif "tracked" in by:
                phase = "inlined"
                why = "only called from extracted member functions (analysed inside its callers): " + ", ".join(sorted(set(s["where"] for s in by["tracked"])))
            elif "main" in by:
                phase = "main"
                why = "only referenced from main-thread code: " + ", ".join(sorted(set("%s (%s)" % (s["file"], s["where"]) for s in by["main"])))
            elif "other" in by:
                phase = "other"
                why = "only referenced from another executor: " + ", ".join(sorted(set(s["file"] for s in by["other"])))
            else:
                phase, why = "unreferenced", "no reference found in lib/ cli/ frontend/"
            out[(cls, name)] = dict(phase=phase, why=why, sites=sites)
    return out, st


def check_inlined_sites(ex, phases, raw_irs):
    """every textual call site inside an extracted member function must have been resolved by the AST walk"""
    bad = []
    for (cls, name), info in phases.items():
        for s in info["sites"]:
            if s["ctx"] != "tracked":
                continue
            caller = s["where"]
            ccls, cname = caller.rsplit("::", 1)
            irs = raw_irs.get((ccls, cname), [])
            if not any(calls_name(ir, name) for ir in irs):
                # a method of an untracked object with the same name (e.g. errorLogger.reportOut) is fine when the callee
                # class is not the tracked one; we cannot tell from text, so only complain for unique names
                info.setdefault("unresolved", []).append("%s:%d in %s" % (s["file"], s["line"], caller))
    return bad


def calls_name(ir, name):
    if ir[0] == "call":
        return ir[3] == name
    return any(calls_name(x, name) for x in ir[1:] if isinstance(x, tuple))


# ---- walking closed statements ---------------------------------------------------------------------------

def accesses(ir, held=()):
    """-> list of (kind, loc, frozenset(held mutexes))"""
    t = ir[0]
    if t == "skip":
        return []
    if t == "acc":
        return [(ir[1], ir[2], frozenset(held))]
    if t == "locked":
        return accesses(ir[2], held + (ir[1],))
    out = []
    for x in ir[1:]:
        if isinstance(x, tuple):
            out += accesses(x, held)
    return out


def lock_problems(ir, held=()):
    """re-lock of a mutex that is already held (std::mutex is not recursive)"""
    t = ir[0]
    if t in ("skip", "acc"):
        return []
    if t == "locked":
        out = ["mutex %s locked while already held" % ir[1]] if ir[1] in held else []
        return out + lock_problems(ir[2], held + (ir[1],))
    out = []
    for x in ir[1:]:
        if isinstance(x, tuple):
            out += lock_problems(x, held)
    return out


def mutexes(ir):
    t = ir[0]
    out = set()
    if t == "locked":
        out.add(ir[1])
    for x in ir[1:]:
        if isinstance(x, tuple):
            out |= mutexes(x)
    return out

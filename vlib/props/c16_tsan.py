"""C16 helper: ThreadSanitizer runs of the real thread executor (thorough tier / replay only).

Nothing here decides the property.  The runs (a) validate the translator: a report that lies inside a method the generated lock
table calls disciplined means the table is wrong (correspondence failure), and (b) evaluate P_impl on the implementation:
any data-race report of the -fsanitize=thread build of the working tree is a concrete failing input (schedule + project).
"""
import os, re, subprocess, json, hashlib

SNIPPETS = [
    ("void %(f)s(int *p) { *p = 0; if (p) { } }", "nullPointerRedundantCheck"),
    ("int %(f)s(void) { int a[%(k)d]; a[0] = 0; return a[%(k)d]; }", "arrayIndexOutOfBounds"),
    ("int %(f)s(void) { int x; return x + %(k)d; }", "uninitvar"),
    ("void %(f)s(void) { char *p = (char*)malloc(%(k)d); (void)0; }", "memleak"),
    ("int %(f)s(int x) { if (x == %(k)d) { return 100 / (x - %(k)d); } return 0; }", "zerodiv"),
    ("void %(f)s(char *s) { char b[%(k)d]; strcpy(b, s); unsigned u = 0; if (u < 0) { } (void)b; }", "unsignedLessThanZero"),
    ("struct S%(f)s { int a; int b; };\nint %(f)s(struct S%(f)s *s) { int v = s->a; if (!s) return 0; return v; }", "nullPointerRedundantCheck"),
]
SUPPR_IDS = ["nullPointerRedundantCheck", "arrayIndexOutOfBounds", "uninitvar", "memleak", "zerodiv", "unusedFunction", "nullPointer",
             "unsignedLessThanZero", "unreadVariable"]


def gen_project(rng, idx, nfiles=None):
    """multi-file project with a shared header, findings, matched and unmatched inline suppressions"""
    nfiles = nfiles or rng.choice([6, 8, 12])
    hdr = ["#ifndef SH_H", "#define SH_H", "#include <stdlib.h>", "#include <string.h>"]
    for j in range(2):
        snip, fid = SNIPPETS[j]
        if j == 0:
            hdr.append("// cppcheck-suppress " + fid)
        hdr.append("static inline " + snip % dict(f="h_%d" % j, k=3 + j))
    hdr.append("#ifdef CFG_A\nstatic inline int cfg_a(void) { int q; return q; }\n#endif")
    hdr.append("#endif")
    files = {"sh.h": "\n".join(hdr) + "\n"}
    srcs = []
    for i in range(nfiles):
        ext = ".c" if i % 3 else ".cpp"
        lines = ['#include "sh.h"']
        for j in range(rng.choice([1, 2, 3, 4])):
            snip, fid = rng.choice(SNIPPETS)
            r = rng.random()
            if r < 0.35:
                lines.append("// cppcheck-suppress " + fid)                      # matched
            elif r < 0.5:
                lines.append("// cppcheck-suppress " + rng.choice(SUPPR_IDS))    # possibly unmatched
            elif r < 0.6:
                lines.append("// cppcheck-suppress-begin " + fid)
            lines.append(snip % dict(f="f%d_%d" % (i, j), k=2 + j))
            if 0.5 <= r < 0.6:
                lines.append("// cppcheck-suppress-end " + fid)
        if rng.random() < 0.3:
            lines.append("#ifdef CFG_B\nint g%d(void) { int z; return z; }\n#endif" % i)
        name = "s%d%s" % (i, ext)
        files[name] = "\n".join(lines) + "\n"
        srcs.append(name)
    return dict(name="p%d" % idx, files=files, srcs=srcs)


OPTION_SETS = [
    ["--inline-suppr", "--enable=all", "--showtime=file"],            # 0: a WORKER calls TimerResults::showResults while others add results
    ["--inline-suppr", "--enable=all", "--showtime=top5_file"],       # 1: same through the top-5 path
    ["--inline-suppr", "--enable=all", "--inconclusive"],
    ["--inline-suppr", "--enable=all", "--showtime=summary"],
    ["--inline-suppr", "--enable=warning,style,information", "--showtime=top5_summary", "--suppress=uninitvar:s1.c", "--suppress=zerodiv"],
    ["--inline-suppr", "--enable=all", "--xml", "--suppress=*:sh.h", "--suppress=memleak:s*.c"],
    ["--inline-suppr", "--enable=all", "--cppcheck-build-dir=bd"],
    ["--inline-suppr", "--enable=all", "--project=compile_commands.json"],
    ["--inline-suppr", "--enable=all", "--library=posix", "--library=gnu", "-v", "--debug-warnings"],
    ["--inline-suppr", "--enable=all", "--emit-duplicates", "--template={file}:{line}:{id}:{message}"],
    ["--enable=all", "--suppress=nullPointerRedundantCheck", "--suppress=doesNotExist", "--force", "-DCFG_A"],
    ["--inline-suppr", "--enable=all", "--showtime=file", "--cppcheck-build-dir=bd", "--max-configs=4", "--check-level=exhaustive"],
    ["--inline-suppr", "--enable=all", "--debug", "--showtime=file-total"],
    ["--inline-suppr", "--enable=all", "--dump", "--showtime=top5_file"],
    ["--inline-suppr", "--enable=all", "--plist-output=pl", "--xml"],
    ["--inline-suppr", "--enable=all", "--check-config", "--showtime=file"],
]


def write_project(d, proj, opts):
    os.makedirs(d, exist_ok=True)
    for n, t in proj["files"].items():
        open(os.path.join(d, n), "w").write(t)
    if any(o.startswith("--cppcheck-build-dir=") for o in opts):
        os.makedirs(os.path.join(d, "bd"), exist_ok=True)
    if any(o.startswith("--plist-output=") for o in opts):
        os.makedirs(os.path.join(d, "pl"), exist_ok=True)
    if any(o.startswith("--project=") for o in opts):
        cc = [dict(directory=d, command="cc -c -DCFG_B=%d %s" % (i, s), file=os.path.join(d, s)) for i, s in enumerate(proj["srcs"])]
        json.dump(cc, open(os.path.join(d, "compile_commands.json"), "w"))


RE_HEAD = re.compile(r"^WARNING: ThreadSanitizer: ([^(]+?)\s*\(pid=\d+\)")
RE_ACC = re.compile(r"^\s+(Previous )?((?:atomic )?(?:write|read)) of size (\d+) at 0x[0-9a-f]+ by (main thread|thread T\d+)(?: \(mutexes: ([^)]*)\))?:", re.I)
RE_FRAME = re.compile(r"^\s+#(\d+) (.*?) (\S+?)(?::(\d+))?(?::\d+)? \((\S+?)\+0x[0-9a-f]+\)\s*$")
RE_FRAME2 = re.compile(r"^\s+#(\d+) (.*) \((\S+?)\+0x[0-9a-f]+\)\s*$")


def parse_reports(text):
    """-> list of dict(kind, accesses=[dict(what, thread, mutexes, frames=[(func, file, line)])], raw)"""
    reps = []
    cur = None
    acc = None
    for line in text.split("\n"):
        m = RE_HEAD.match(line)
        if m:
            cur = dict(kind=m.group(1).strip(), accesses=[], raw=[line])
            reps.append(cur)
            acc = None
            continue
        if cur is None:
            continue
        if line.startswith("SUMMARY: ThreadSanitizer"):
            cur["raw"].append(line)
            cur = None
            acc = None
            continue
        if len(cur["raw"]) < 120:
            cur["raw"].append(line)
        m = RE_ACC.match(line)
        if m:
            acc = dict(what=("previous " if m.group(1) else "") + m.group(2).lower(), thread=m.group(4), mutexes=m.group(5) or "", frames=[])
            cur["accesses"].append(acc)
            continue
        if acc is not None:
            m = RE_FRAME.match(line)
            if m:
                acc["frames"].append((m.group(2), m.group(3), int(m.group(4) or 0)))
                continue
            m = RE_FRAME2.match(line)
            if m:
                acc["frames"].append((m.group(2), "", 0))
                continue
            if line.strip() == "" or not line.startswith("    #"):
                if line.strip() and not line.startswith("    "):
                    acc = None if not RE_ACC.match(line) else acc
                elif line.strip() == "":
                    acc = None
    for r in reps:
        r["raw"] = "\n".join(r["raw"])
    return reps


REPO_PREFIX = os.environ.get("VERIF_REPO", "/repo").rstrip("/") + "/"


def repo_frame(frames, repo=None):
    repo = repo or REPO_PREFIX
    """first frame that lies in the repository (not libstdc++ / libtsan)"""
    for fn, fl, ln in frames:
        if fl.startswith(repo):
            return fn, fl[len(repo):], ln
    return None


def report_key(rep):
    parts = []
    for a in rep["accesses"][:2]:
        rf = repo_frame(a["frames"])
        parts.append("%s@%s" % (re.sub(r"\(.*", "", rf[0]) if rf else "?", rf[1] if rf else "?"))
    return rep["kind"] + "|" + "|".join(sorted(parts))


def run_tsan(exe, d, opts, srcs, jobs, sched_seed, timeout=600, maxus=1500):
    e = dict(os.environ)
    for k in ("VERIF_SCHED_SEED", "VERIF_SCHED_MAXUS", "VERIF_CRASH_AT", "VERIF_WORKER_FAULT"):
        e.pop(k, None)
    if sched_seed:
        e["VERIF_SCHED_SEED"] = str(sched_seed)
        e["VERIF_SCHED_MAXUS"] = str(maxus)
    logp = os.path.join(d, "tsanlog")
    e["TSAN_OPTIONS"] = "halt_on_error=0:exitcode=0:second_deadlock_stack=1:history_size=5:log_path=%s" % logp
    use_srcs = [] if any(o.startswith("--project=") for o in opts) else srcs
    cmd = [exe, "-j%d" % jobs, "--executor=thread"] + opts + use_srcs
    # the gcc-12 runtime cannot map its shadow with 32-bit mmap randomisation: run without ASLR when it refuses to start
    for wrap in ([], ["setarch", "x86_64", "-R"]):
        try:
            r = subprocess.run(wrap + cmd, cwd=d, stdout=subprocess.PIPE, stderr=subprocess.PIPE, env=e, timeout=timeout)
        except subprocess.TimeoutExpired:
            return dict(rc=-999, reports=[], stderr="TIMEOUT", cmd=cmd, started=False)
        err = r.stderr.decode("latin-1")
        if "unexpected memory mapping" in err or "FATAL: ThreadSanitizer" in err:
            continue
        break
    text = ""
    for fn in sorted(os.listdir(d)):
        if fn.startswith("tsanlog"):
            text += open(os.path.join(d, fn), errors="replace").read()
            os.remove(os.path.join(d, fn))
    started = "FATAL: ThreadSanitizer" not in err
    return dict(rc=r.returncode, reports=parse_reports(text + "\n" + err), stderr=err[-2000:], stdout=r.stdout.decode("latin-1")[-1000:],
                cmd=cmd, started=started, nlines=len(r.stdout.splitlines()) + len(err.splitlines()))

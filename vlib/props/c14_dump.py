"""C14 helper: P_impl on a `cppcheck --dump` file.

check_dump(path, cppcheckdata_module) -> (stats, problems)
   problems: list of (key, text); key is a short class name used for known-finding classification:
     xml-malformed            strict parser (expat) rejects the file
     addon-load               addons/cppcheckdata.py raises while loading / resolving ids
     dup-id:<tags>            two elements of one <dump> share an id (any element that carries an `id` attribute, found generically)
     dangling:<elem>.<attr>   a reference attribute names no element of the required kind in the same <dump>
     link-*                   link symmetry / kind / nesting broken
     ast-*                    AST parent/operand agreement, op1 == op2, cycle
     addon-graph              the object graph built by cppcheckdata differs from the references in the file
"""
import xml.parsers.expat
import xml.etree.ElementTree as ET

NULL_IDS = (None, "0", "00000000", "0000000000000000", "0x0")

# element.attr -> kind of the referenced element
REFS = {
    ("token", "scope"): "scope", ("token", "link"): "token", ("token", "variable"): "var", ("token", "function"): "function",
    ("token", "values"): "values", ("token", "type-scope"): "scope", ("token", "astParent"): "token",
    ("token", "astOperand1"): "token", ("token", "astOperand2"): "token", ("token", "valueType-typeScope"): "scope",
    ("token", "valueType-containerId"): "container",
    ("scope", "bodyStart"): "token", ("scope", "bodyEnd"): "token", ("scope", "nestedIn"): "scope", ("scope", "function"): "function",
    ("scope", "definedType"): "type",
    ("function", "token"): "token", ("function", "tokenDef"): "token", ("function", "overriddenFunction"): "function",
    ("arg", "variable"): "var",
    ("varlistvar", "id"): "var",
    ("type", "classScope"): "scope", ("derivedFrom", "type"): "type", ("derivedFrom", "nameTok"): "token",
    ("var", "nameToken"): "token", ("var", "typeStartToken"): "token", ("var", "typeEndToken"): "token", ("var", "scope"): "scope",
    ("value", "tokvalue"): "token", ("value", "lifetime"): "token", ("value", "symbolic"): "token",
}
OPEN, CLOSE = "({[<", ")}]>"


def strict_parse(path):
    p = xml.parsers.expat.ParserCreate()
    try:
        with open(path, "rb") as f:
            p.ParseFile(f)
        return None
    except xml.parsers.expat.ExpatError as ex:
        return "%s (line %d col %d)" % (ex, ex.lineno, ex.offset)


def collect(dump_el):
    """one <dump> element -> dict kind -> {id: element}, list of (elemkind, attr, value, owner description), problems"""
    ids = {k: {} for k in ("token", "scope", "function", "var", "type", "values", "container")}
    order = []       # tokens in list order
    refs = []
    problems = []
    allids = {}

    def define(kind, el, desc):
        i = el.get("id")
        if i in NULL_IDS:
            problems.append(("null-id", "%s has id %r" % (desc, i)))
            return
        # uniqueness of ids is decided by check_generic (every element kind, not only the ones listed here)
        allids[i] = desc
        ids[kind][i] = el

    def ref(elkind, el, desc):
        for (k, a), target in REFS.items():
            if k == elkind and el.get(a) is not None:
                refs.append((elkind, a, el.get(a), target, desc))

    for sec in dump_el:
        if sec.tag == "tokenlist":
            for t in sec:
                define("token", t, "token %s:%s %r" % (t.get("linenr"), t.get("column"), t.get("str")))
                order.append(t)
                ref("token", t, "token %s:%s %r" % (t.get("linenr"), t.get("column"), t.get("str")))
        elif sec.tag == "scopes":
            for s in sec:
                sd = "scope %s %s" % (s.get("type"), s.get("className"))
                define("scope", s, sd)
                ref("scope", s, sd)
                for sub in s:
                    if sub.tag == "functionList":
                        for fn in sub:
                            fd = "function %s" % fn.get("name")
                            define("function", fn, fd)
                            ref("function", fn, fd)
                            for a in fn:
                                ref("arg", a, fd + " arg %s" % a.get("nr"))
                    elif sub.tag == "varlist":
                        for v in sub:
                            ref("varlistvar", v, sd + " varlist")
        elif sec.tag == "types":
            for t in sec:
                define("type", t, "type")
                ref("type", t, "type %s" % t.get("id"))
                for d in t:
                    ref("derivedFrom", d, "type %s derivedFrom" % t.get("id"))
        elif sec.tag == "variables":
            for v in sec:
                define("var", v, "var")
                ref("var", v, "var %s" % v.get("id"))
        elif sec.tag == "containers":
            for c in sec:
                define("container", c, "container")
        elif sec.tag == "valueflow":
            for vs in sec:
                define("values", vs, "values")
                for v in vs:
                    ref("value", v, "value in values %s" % vs.get("id"))
    return ids, order, refs, problems


def check_cfg(dump_el):
    ids, order, refs, problems = collect(dump_el)
    stats = dict(tokens=len(order), refs=len(refs), links=0, ast_edges=0)
    for (elk, a, v, target, desc) in refs:
        if v in NULL_IDS:
            # a null reference is written as "0" by a few writers (function token, var nameToken ...): not dangling
            continue
        if v not in ids[target]:
            problems.append(("dangling:%s.%s" % (elk, a), "%s: %s=%s names no <%s> of this configuration" % (desc, a, v, target)))
    # ---- links ----------------------------------------------------------------------------------
    pos = {t.get("id"): k for k, t in enumerate(order)}
    link = {}
    for k, t in enumerate(order):
        l = t.get("link")
        if l is not None and l in pos:
            link[k] = pos[l]
    stats["links"] = len(link)
    for k, j in link.items():
        if link.get(j) != k or j == k:
            problems.append(("link-asymmetric", "token %d (%r) links to %d (%r) which links to %s" %
                             (k, order[k].get("str"), j, order[j].get("str"), link.get(j))))
            continue
        if k < j:
            a, b = order[k].get("str"), order[j].get("str")
            if not a or not b or a[0] not in OPEN or b[0] != CLOSE[OPEN.index(a[0])]:
                problems.append(("link-kind", "linked pair %r ... %r" % (a, b)))
    # nesting with one stack pass (linear)
    stack = []
    for k in range(len(order)):
        if k in link and link.get(link[k]) == k:
            j = link[k]
            if k < j:
                stack.append(j)
            elif stack and stack[-1] == k:
                stack.pop()
            elif k > j:
                problems.append(("link-crossing", "pair %d-%d (%r) closes while %s is the innermost open pair" %
                                 (j, k, order[k].get("str"), stack[-1] if stack else None)))
                if k in stack:
                    stack.remove(k)
    # the three kinds the stack linker handles must be linked exactly when they are brackets
    for k, t in enumerate(order):
        s = t.get("str") or ""
        if s in ("(", ")", "{", "}", "[", "]") and k not in link:
            problems.append(("link-missing", "bracket token %d %r at %s:%s has no link" % (k, s, t.get("linenr"), t.get("column"))))
        if k in link and s and s[0] not in OPEN + CLOSE:
            problems.append(("link-on-nonbracket", "token %d %r has a link" % (k, s)))
    # ---- AST ------------------------------------------------------------------------------------
    par, o1, o2 = {}, {}, {}
    for k, t in enumerate(order):
        for a, d in (("astParent", par), ("astOperand1", o1), ("astOperand2", o2)):
            v = t.get(a)
            if v is not None and v in pos:
                d[k] = pos[v]
    stats["ast_edges"] = len(par)
    for k in range(len(order)):
        for d, nm in ((o1, "astOperand1"), (o2, "astOperand2")):
            if k in d and par.get(d[k]) != k:
                problems.append(("ast-operand-parent", "%s of token %d (%r) is %d (%r) whose astParent is %s" %
                                 (nm, k, order[k].get("str"), d[k], order[d[k]].get("str"), par.get(d[k]))))
        if k in o1 and o1.get(k) == o2.get(k):
            problems.append(("ast-op1-eq-op2", "token %d (%r) has the same node as both operands" % (k, order[k].get("str"))))
        if k in par and o1.get(par[k]) != k and o2.get(par[k]) != k:
            problems.append(("ast-parent-not-listing", "astParent of token %d (%r) is %d (%r) which does not list it" %
                             (k, order[k].get("str"), par[k], order[par[k]].get("str"))))
    # acyclic: depth by memoised walk
    state = {}
    for k in par:
        path = []
        c = k
        while c in par and c not in state:
            state[c] = 1
            path.append(c)
            c = par[c]
            if state.get(c) == 1 and c in path:
                problems.append(("ast-cycle", "parent chain from token %d returns to %d" % (k, c)))
                break
        for c in path:
            state[c] = 2
    return stats, problems, (ids, order, pos)


def check_addon_graph(cfg, ids, order, pos):
    """cppcheckdata Configuration vs the raw references"""
    problems = []
    if len(cfg.tokenlist) != len(order):
        return [("addon-graph", "cppcheckdata has %d tokens, the file %d" % (len(cfg.tokenlist), len(order)))]
    for k, (tk, el) in enumerate(zip(cfg.tokenlist, order)):
        if tk.Id != el.get("id") or tk.str != el.get("str"):
            problems.append(("addon-graph", "token %d id/str differ" % k)); break
        for attr, field in (("link", "link"), ("astParent", "astParent"), ("astOperand1", "astOperand1"), ("astOperand2", "astOperand2"),
                            ("scope", "scope"), ("variable", "variable"), ("function", "function"), ("type-scope", "typeScope")):
            want = el.get(attr)
            got = getattr(tk, field)
            gid = got.Id if got is not None else None
            if want in NULL_IDS:
                want = None
            if gid != want:
                problems.append(("addon-graph", "token %d (%r): %s is %s in the file, cppcheckdata resolved %s" % (k, tk.str, attr, want, gid)))
                break
        want = el.get("values")
        if want not in NULL_IDS:
            n = len(list(ids["values"][want])) if want in ids["values"] else None
            got = len(tk.values or []) + len(getattr(tk, 'impossible_values', None) or [])
            if n != got:
                problems.append(("addon-graph", "token %d (%r): values list has %s entries in the file, cppcheckdata %s" % (k, tk.str, n, got)))
        if k > 0 and tk.previous is not cfg.tokenlist[k - 1]:
            problems.append(("addon-graph", "token %d previous pointer" % k)); break
    for sc in cfg.scopes:
        el = ids["scope"].get(sc.Id)
        if el is None:
            problems.append(("addon-graph", "scope %s unknown" % sc.Id)); continue
        for attr, field in (("bodyStart", "bodyStart"), ("bodyEnd", "bodyEnd"), ("nestedIn", "nestedIn"), ("function", "function")):
            want = el.get(attr)
            got = getattr(sc, field)
            gid = got.Id if got is not None else None
            if want in NULL_IDS:
                want = None
            if gid != want:
                problems.append(("addon-graph", "scope %s: %s is %s in the file, cppcheckdata resolved %s" % (sc.Id, attr, want, gid)))
    return problems


# an element with an `id` attribute defines that id, except where the attribute is itself a reference / a number
ID_IS_NOT_A_DEFINITION = {"varlist", "template-varid-usage"}


import re as _re
PTR = _re.compile(r"^[0-9a-f]{7,16}$")


def check_generic(dump_el, ref_attrs):
    """Kind-independent pass: EVERY element of the <dump> block that carries an `id` attribute defines an id (whatever its tag);
    ids must be unique in the block; every attribute whose name the dump writers emit through id_string (ref_attrs, discovered from
    the source by the translator) must name exactly one defined element, of the kind REFS prescribes when it knows the pair."""
    problems, defs, n = [], {}, 0

    def walk(el, parent):
        if el.get("id") is not None and parent not in ID_IS_NOT_A_DEFINITION:
            i = el.get("id")
            if i in NULL_IDS:
                problems.append(("null-id", "<%s> has id %r" % (el.tag, i)))
            else:
                defs.setdefault(i, []).append(el.tag)
        for ch in el:
            walk(ch, el.tag)
    walk(dump_el, None)
    for i, tags in defs.items():
        if len(tags) > 1:
            problems.append(("dup-id:" + "+".join(sorted(set(tags))), "id %s identifies %d elements (%s) of the <dump> block" % (i, len(tags), ", ".join(tags))))

    def refs(el, parent):
        nonlocal n
        for a, v in el.attrib.items():
            ek = "varlistvar" if parent == "varlist" else el.tag
            if (ek, a) in REFS:
                isref = True
            else:
                # an attribute name the writers emit through id_string on an element / attribute pair REFS does not list: a
                # reference when the value looks like a pointer id (`type="name"`, `type="Global"` are literals with the same name)
                isref = a in ref_attrs and a != "id" and PTR.match(v) is not None
            if not isref or v in NULL_IDS:
                continue
            n += 1
            if v not in defs:
                problems.append(("dangling:%s.%s" % (ek, a), "<%s %s=%s> names no element of this configuration" % (el.tag, a, v)))
            else:
                want = REFS.get((ek, a))
                if want is not None and want not in defs[v]:
                    problems.append(("wrong-kind:%s.%s" % (ek, a), "<%s %s=%s> names a <%s>, expected <%s>" % (el.tag, a, v, defs[v][0], want)))
        for ch in el:
            refs(ch, el.tag)
    refs(dump_el, None)
    return n, problems


def check_dump(path, cppcheckdata=None, ref_attrs=None):
    stats = dict(configs=0, tokens=0, refs=0, links=0, ast_edges=0)
    err = strict_parse(path)
    if err:
        return stats, [("xml-malformed", err)]
    problems = []
    tree = ET.parse(path)
    per_cfg = []
    for d in tree.getroot():
        if d.tag != "dump":
            continue
        st, pr, ctxt = check_cfg(d)
        ng, pg = check_generic(d, ref_attrs if ref_attrs is not None else set(a for (_e, a) in REFS))
        pr += pg
        stats["generic_refs"] = stats.get("generic_refs", 0) + ng
        stats["configs"] += 1
        for k in ("tokens", "refs", "links", "ast_edges"):
            stats[k] += st[k]
        problems += [(k, "cfg %r: %s" % (d.get("cfg"), t)) for k, t in pr]
        per_cfg.append(ctxt)
    if cppcheckdata is not None:
        try:
            data = cppcheckdata.parsedump(path)
            n = 0
            for cfg, ctxt in zip(data.iterconfigurations(), per_cfg):
                n += 1
                problems += check_addon_graph(cfg, *ctxt)
            if n != len(per_cfg):
                problems.append(("addon-graph", "cppcheckdata sees %d configurations, the file has %d" % (n, len(per_cfg))))
        except Exception as ex:       # KeyError from IdMap[...] etc.
            problems.append(("addon-load", "cppcheckdata: %s: %s" % (type(ex).__name__, ex)))
    return stats, problems

"""C14 translator: which expression writes every attribute value of the dump.

The dump code builds XML by string concatenation.  For every function that takes part the scanner walks the
appended pieces in source order (`x += a + b;`, `os << a << b;`, `std::string x = a + b;`, `return a + b;`) with a
two-state machine driven by the quotes inside the string literals: outside an attribute value / inside the value of
attribute NAME.  Every non-literal piece met inside a value is a *writer* and is classified:

    toxml    ErrorLogger::toxml(...)                 (Lean: toxml_wellformed)
    id       id_string(...)                          (Lean: idString_wellformed)
    number   std::to_string / MathLib::toString / integer-typed stream insertions
    bool     bool_to_string(...)
    enum     a function returning one of finitely many literals (listed below)
    RAW      anything else: the string is written as it is

Non-literal pieces met outside a value are *fragments* (pre-assembled XML such as `vt`, `dumpTypedefInfo()`); each must be
a known one whose producer is itself scanned.  Anything the scanner does not recognise is reported as `unknown`
(fail closed).
"""
import os, re

FUNCTIONS = [
    # (file, regex matching the function header up to the opening brace)
    ("lib/tokenize.cpp", r"void\s+Tokenizer::dump\s*\(std::ostream\s*&out\)\s*const\s*\{"),
    ("lib/tokenize.cpp", r"std::string\s+Tokenizer::dumpTypedefInfo\s*\(\)\s*const\s*\{"),
    ("lib/token.cpp", r"void\s+Token::printValueFlow\s*\([^)]*\)\s*const\s*\{"),
    ("lib/symboldatabase.cpp", r"void\s+SymbolDatabase::printXml\s*\(std::ostream\s*&out\)\s*const\s*\{"),
    ("lib/symboldatabase.cpp", r"std::string\s+ValueType::dump\s*\(\)\s*const\s*\{"),
    ("lib/templatesimplifier.cpp", r"std::string\s+TemplateSimplifier::TokenAndName::dump\s*\([^)]*\)\s*const\s*\{"),
    ("lib/templatesimplifier.cpp", r"std::string\s+TemplateSimplifier::dump\s*\(\)\s*const\s*\{"),
    ("lib/preprocessor.cpp", r"void\s+Preprocessor::dump\s*\(std::ostream\s*&out\)\s*const\s*\{"),
    ("lib/suppressions.cpp", r"void\s+SuppressionList::dump\s*\([^)]*\)\s*const\s*\{"),
    ("lib/cppcheck.cpp", r"static\s+void\s+createDumpFile\s*\([^)]*\)\s*\{"),
    ("lib/cppcheck.cpp", r"std::string\s+CppCheck::getLibraryDumpData\s*\(\)\s*const\s*\{"),
    ("lib/cppcheck.cpp", r"std::string\s+CppCheck::getDumpFileContentsRawTokens\s*\([^)]*\)\s*const\s*\{"),
]
# the two places in CppCheck::checkInternal / checkClang that write <dump cfg=...> themselves are scanned as line windows
CPPCHECK_WINDOWS = [r'fdump\s*<<\s*"<dump cfg=', r'fdump\s*<<\s*"\s*<clang-warning', r'fdump\s*<<\s*"\s*<standards>', r'fdump\s*<<\s*"\s*<c version=',
                    r'fdump\s*<<\s*"\s*<cpp version=', r'fdump\s*<<\s*"\s*</standards>', r'fdump\s*<<\s*"</dump', r'fdump\s*<<\s*"</dumps']

SINKS = {"outs", "ret", "out", "fdump", "dumpProlog", "action", "yield", "language", "mDump"}
FRAGMENTS = {   # expression -> why it is XML already
    "vt": "ValueType::dump()", "dumpTypedefInfo()": "Tokenizer::dumpTypedefInfo", "mTemplateSimplifier->dump()": "TemplateSimplifier::dump",
    "action": "local fragment", "yield": "local fragment", "language": "local fragment", "outs": "local buffer", "ret": "local buffer",
    "getLibraryDumpData()": "CppCheck::getLibraryDumpData", "dumpProlog": "getDumpFileContentsRawTokens", "std::endl": "newline",
    "mDump": "TemplateSimplifier::mDump", "t.dump(mTokenizer.list.getFiles())": "TokenAndName::dump",
}
# pieces that only occur in the non-XML (debug text) branch of Token::printValueFlow
TEXT_ONLY = {"files[tok->fileIndex()]", "tok->str()", "value.toString()", "std::to_string(tok->linenr())"}
ENUMS = [r"^scopeTypeToString\(", r"^functionTypeToString\(", r"^accessControlToString\(", r"^ValueFlow::Value::toString\(",
         r"^Library::Container::toString\(", r"^settings\.platform\.toString\(\)$", r"^mSettings\.standards\.getC\(\)$",
         r"^mSettings\.standards\.getCPP\(\)$"]
NUMBERS = [r"^std::to_string\(", r"^MathLib::toString\(", r"^static_cast<unsigned>\(", r"^\(settings\.platform\.sizeof_\w+ \* settings\.platform\.char_bit\)$",
           r"^macroUsage\.(macroLocation|useLocation)\.(line|col)$", r"^ifCond\.location\.(line|col)$", r"^ifCond\.result$",
           r"^suppression\.(lineNumber|hash|lineBegin|lineEnd)$", r"^errmsg\.callStack\.front\(\)\.(line|column)$"]
# Raw writers that are accepted.  Empty since c337bfd (every value goes through toxml / id_string / a number / bool / enum writer):
# any RAW writer the scanner finds is an undischarged obligation.  (Before c337bfd: token macroName / originalName, typedef-info
# name / originalName, macro-usage name, <containers><f name>, <library lib> - the last two were finding F14a.)
EXPECTED_RAW = {}


class Unrecognised(Exception):
    pass


def strip_comments(src):
    out, i, n = [], 0, len(src)
    while i < n:
        c = src[i]
        if c == '"' or c == "'":
            j = i + 1
            while j < n and src[j] != c:
                j += 2 if src[j] == "\\" else 1
            out.append(src[i:j + 1]); i = j + 1
        elif src.startswith("//", i):
            j = src.find("\n", i)
            i = n if j < 0 else j
        elif src.startswith("/*", i):
            j = src.find("*/", i)
            i = n if j < 0 else j + 2
        else:
            out.append(c); i += 1
    return "".join(out)


def body_of(src, header_re):
    m = re.search(header_re, src)
    if not m:
        return None
    i = m.end()
    depth, n = 1, len(src)
    start = i
    while i < n and depth:
        c = src[i]
        if c == '"' or c == "'":
            j = i + 1
            while j < n and src[j] != c:
                j += 2 if src[j] == "\\" else 1
            i = j + 1
            continue
        if c == "{":
            depth += 1
        elif c == "}":
            depth -= 1
        i += 1
    return src[start:i - 1]


def segments(body):
    """split at ';', '{', '}' that are outside parentheses and literals"""
    segs, cur, depth, i, n = [], [], 0, 0, len(body)
    while i < n:
        c = body[i]
        if c == '"' or c == "'":
            j = i + 1
            while j < n and body[j] != c:
                j += 2 if body[j] == "\\" else 1
            cur.append(body[i:j + 1]); i = j + 1
            continue
        if c in "([":
            depth += 1
        elif c in ")]":
            depth -= 1
        if depth == 0 and c in ";{}":
            segs.append("".join(cur)); cur = []
        else:
            cur.append(c)
        i += 1
    segs.append("".join(cur))
    return [s.strip() for s in segs if s.strip()]


def split_top(s, sep):
    parts, cur, depth, i, n = [], [], 0, 0, len(s)
    while i < n:
        c = s[i]
        if c == '"' or c == "'":
            j = i + 1
            while j < n and s[j] != c:
                j += 2 if s[j] == "\\" else 1
            cur.append(s[i:j + 1]); i = j + 1
            continue
        if c in "([":
            depth += 1
        elif c in ")]":
            depth -= 1
        if depth == 0 and s.startswith(sep, i) and not (sep == "+" and (s.startswith("++", i) or s.startswith("+=", i) or (i > 0 and s[i - 1] == "+"))):
            # '<' of a template argument list: static_cast<unsigned>(...) contains no top-level "<<"
            parts.append("".join(cur)); cur = []; i += len(sep)
            continue
        cur.append(c); i += 1
    parts.append("".join(cur))
    return [p.strip() for p in parts]


def find_top(s, op):
    depth, i, n = 0, 0, len(s)
    while i < n:
        c = s[i]
        if c == '"' or c == "'":
            j = i + 1
            while j < n and s[j] != c:
                j += 2 if s[j] == "\\" else 1
            i = j + 1
            continue
        if c in "([":
            depth += 1
        elif c in ")]":
            depth -= 1
        elif depth == 0 and s.startswith(op, i):
            return i
        i += 1
    return -1


def has_xml_literal(s):
    return re.search(r'"(?:[^"\\]|\\.)*(?:<|=\\")', s) is not None


def skip_parens(s, i):
    """s[i] == '(' -> index after the matching ')'"""
    depth, n = 0, len(s)
    while i < n:
        c = s[i]
        if c == '"' or c == "'":
            j = i + 1
            while j < n and s[j] != c:
                j += 2 if s[j] == "\\" else 1
            i = j + 1
            continue
        if c == "(":
            depth += 1
        elif c == ")":
            depth -= 1
            if depth == 0:
                return i + 1
        i += 1
    return n


def strip_control(seg):
    """drop leading `if (...)`, `else`, `for (...)`, `while (...)`, `case X:`, `default:`"""
    while True:
        seg = seg.strip()
        m = re.match(r"^(if|for|while)\s*\(", seg)
        if m:
            seg = seg[skip_parens(seg, m.end() - 1):]
            continue
        m = re.match(r"^else\b", seg)
        if m:
            seg = seg[m.end():]
            continue
        m = re.match(r"^(case\s+[\w:]+\s*:(?!:)|default\s*:)", seg)
        if m:
            seg = seg[m.end():]
            continue
        return seg


def items_of(seg):
    """segment -> (sink, [pieces]) or None"""
    seg = strip_control(seg)
    k = find_top(seg, "+=")
    if k > 0:
        lhs = seg[:k].strip()
        return lhs, split_top(seg[k + 2:], "+")
    k = find_top(seg, "<<")
    if k > 0 and re.match(r"^[\w.>\-]+$", seg[:k].strip()):
        parts = split_top(seg, "<<")
        return parts[0], parts[1:]
    m = re.match(r"^(?:const\s+)?(?:std::string\s+)?(\w+)\s*=\s*(.*)$", seg, re.S)
    if m and '"' in m.group(2) and find_top(m.group(2), "?") < 0:
        return m.group(1), split_top(m.group(2), "+")
    m = re.match(r"^return\s+(.*)$", seg, re.S)
    if m and '"' in m.group(1):
        return "ret", split_top(m.group(1), "+")
    return None


def unquote(lit):
    body = lit[1:-1]
    return re.sub(r"\\(.)", lambda m: {"n": "\n", "t": "\t", "\\": "\\", '"': '"', "'": "'", "0": "\0"}.get(m.group(1), m.group(1)), body)


def classify(expr):
    if re.match(r"^ErrorLogger::toxml\(", expr):
        return "toxml"
    if re.match(r"^id_string\(", expr):
        return "id"
    if re.match(r"^bool_to_string\(", expr):
        return "bool"
    for r in NUMBERS:
        if re.match(r, expr):
            return "number"
    for r in ENUMS:
        if re.match(r, expr):
            return "enum"
    return "RAW"


def scan_function(fname, body, writers, unknown):
    inval = None     # attribute name while inside a value
    for seg in segments(body):
        it = items_of(seg)
        if it is None:
            seg0 = re.sub(r"^(?:(?:case\s+[\w:]+\s*:(?!:)|default\s*:)\s*)+", "", seg)
            if has_xml_literal(seg0) and not re.match(r"^(?:if|else|for|while|switch)\b", seg0):
                unknown.append("%s: statement with XML text in an unknown shape: %s" % (fname, seg[:120]))
            continue
        sink, pieces = it
        if sink not in SINKS:
            if any(has_xml_literal(p) for p in pieces):
                unknown.append("%s: XML text appended to unknown sink %r: %s" % (fname, sink, seg[:120]))
            continue
        for p in pieces:
            if not p:
                continue
            if p[0] == '"' or p[0] == "'":
                if (p[0] == '"' and not p.endswith('"')) or (p[0] == "'" and not p.endswith("'")):
                    unknown.append("%s: literal followed by something: %s" % (fname, p[:80])); continue
                text = unquote(p)
                for ch_i, ch in enumerate(text):
                    if ch == '"':
                        if inval is None:
                            m = re.search(r"([\w:\-]+)=$", text[:ch_i])
                            inval = m.group(1) if m else "?"
                            if not m:
                                # quote that opens a value whose name is in an earlier piece
                                unknown.append("%s: value opens without an attribute name: %s" % (fname, p[:80]))
                        else:
                            inval = None
                continue
            if inval is not None:
                writers.append((fname, inval, p, classify(p)))
            else:
                if p in FRAGMENTS or p in TEXT_ONLY:
                    writers.append((fname, None, p, "fragment"))
                else:
                    unknown.append("%s: piece outside any attribute value that is no known fragment: %s" % (fname, p[:100]))
        # a statement never ends inside a value unless the closing quote comes with a later statement: allowed (the dump code
        # writes  name=\"  /  value  /  \"  as three statements)
    if inval is not None:
        unknown.append("%s: function ends inside the value of attribute %s" % (fname, inval))


def scan(repo):
    writers, unknown, missing = [], [], []
    cache = {}
    for f, hdr in FUNCTIONS:
        p = os.path.join(repo, f)
        if f not in cache:
            cache[f] = strip_comments(open(p, encoding="utf-8", errors="replace").read())
        name = re.search(r"([\w:]+)\\s\*\\\(", hdr).group(1).replace("\\", "") if re.search(r"([\w:]+)\\s\*\\\(", hdr) else hdr
        body = body_of(cache[f], hdr)
        if body is None:
            if "TemplateSimplifier::dump" in hdr and "TokenAndName" not in hdr:
                continue        # defined inline in the header at some commits; the header is scanned below
            missing.append("%s: %s" % (f, name)); continue
        body = re.sub(r"^\s*#.*$", "", body, flags=re.M)
        scan_function(name, body, writers, unknown)
    # TemplateSimplifier::mDump (returned by TemplateSimplifier::dump()) is assembled in simplifyTemplates
    ts = cache["lib/templatesimplifier.cpp"]
    n_mdump = 0
    for seg in segments(ts):
        if re.search(r"\bmDump\b", seg) and not re.match(r"^(?:if\s*\(!mDump\.empty\(\)\)\s*)?$", strip_control(seg)) and "mDump.clear()" not in seg:
            n_mdump += 1
            scan_function("TemplateSimplifier::mDump", seg + ";", writers, unknown)
    if n_mdump == 0:
        missing.append("lib/templatesimplifier.cpp: no statement assembling mDump")
    # the statements of CppCheck::checkInternal / checkClang that write the <dump> frame
    src = cache["lib/cppcheck.cpp"]
    for seg in segments(src):
        if "fdump" in seg and any(re.search(w, seg) for w in CPPCHECK_WINDOWS):
            scan_function("CppCheck::check*", seg + ";", writers, unknown)
    return writers, unknown, missing


# ---- enum printers: the finitely many literals an `enum` writer can return ---------------------------------------------

ENUM_FUNCS = [
    # (name used in the evidence / Gen table, file, header regex)
    ("scopeTypeToString", "lib/symboldatabase.cpp", r"static\s+std::string\s+scopeTypeToString\s*\(ScopeType\s+type\)\s*\{"),
    ("accessControlToString", "lib/symboldatabase.cpp", r"static\s+std::string\s+accessControlToString\s*\(AccessControl\s+access\)\s*\{"),
    ("functionTypeToString", "lib/symboldatabase.cpp", r"static\s+const\s+char\s*\*\s*functionTypeToString\s*\(FunctionType\s+type\)\s*\{"),
    ("Value::toString(MoveKind)", "lib/vfvalue.cpp", r"const\s+char\s*\*\s*Value::toString\s*\(MoveKind\s+moveKind\)\s*\{"),
    ("Value::toString(LifetimeKind)", "lib/vfvalue.cpp", r"const\s+char\s*\*\s*Value::toString\s*\(LifetimeKind\s+lifetimeKind\)\s*\{"),
    ("Value::toString(LifetimeScope)", "lib/vfvalue.cpp", r"const\s+char\s*\*\s*Value::toString\s*\(LifetimeScope\s+lifetimeScope\)\s*\{"),
    ("Value::toString(Bound)", "lib/vfvalue.cpp", r"const\s+char\s*\*\s*Value::toString\s*\(Bound\s+bound\)\s*\{"),
    ("Container::toString(Yield)", "lib/library.cpp", r"std::string\s+Library::Container::toString\s*\(Library::Container::Yield\s+yield\)\s*\{"),
    ("Container::toString(Action)", "lib/library.cpp", r"std::string\s+Library::Container::toString\s*\(Library::Container::Action\s+action\)\s*\{"),
    ("Platform::toString(Type)", "lib/platform.h", r"static\s+const\s+char\s*\*\s*toString\s*\(Type\s+pt\)\s*\{"),
    ("Standards::getC(cstd_t)", "lib/standards.cpp", r"std::string\s+Standards::getC\s*\(cstd_t\s+c_std\)\s*\{"),
    ("Standards::getCPP(cppstd_t)", "lib/standards.cpp", r"std::string\s+Standards::getCPP\s*\(cppstd_t\s+std\)\s*\{"),
]
# no-argument wrappers used by the dump code must delegate to the scanned printer
ENUM_WRAPPERS = [
    ("lib/platform.h", r"const\s+char\s*\*\s*toString\s*\(\)\s*const\s*\{", r"^\s*return\s+toString\(type\);\s*$"),
    ("lib/standards.cpp", r"std::string\s+Standards::getC\s*\(\)\s*const\s*\{", r"^\s*return\s+getC\(c\);\s*$"),
    ("lib/standards.cpp", r"std::string\s+Standards::getCPP\s*\(\)\s*const\s*\{", r"^\s*return\s+getCPP\(cpp\);\s*$"),
]


def scan_enums(repo):
    """-> ({name: [literal, ...]}, problems).  Every statement of a printer must be `switch`, `case X:`, `return "lit";`,
    `cppcheck::unreachable();` (fail closed)."""
    table, problems, cache = {}, [], {}
    for name, f, hdr in ENUM_FUNCS:
        if f not in cache:
            cache[f] = strip_comments(open(os.path.join(repo, f), encoding="utf-8", errors="replace").read())
        body = body_of(cache[f], hdr)
        if body is None:
            problems.append("%s: printer %s not found" % (f, name)); continue
        lits = []
        for seg in segments(body):
            seg0 = re.sub(r"^(?:(?:case\s+[\w:]+\s*:(?!:)|default\s*:)\s*)+", "", seg).strip()
            if not seg0 or re.match(r"^switch\s*\([\w:]+\)$", seg0) or seg0 in ("cppcheck::unreachable()", "break"):
                continue
            m = re.match(r'^return\s+("(?:[^"\\]|\\.)*")$', seg0)
            if m:
                lits.append(unquote(m.group(1))); continue
            problems.append("%s: %s: statement that is not `return \"literal\"`: %s" % (f, name, seg0[:80]))
        if not lits:
            problems.append("%s: %s returns no literal" % (f, name))
        table[name] = lits
    for f, hdr, want in ENUM_WRAPPERS:
        if f not in cache:
            cache[f] = strip_comments(open(os.path.join(repo, f), encoding="utf-8", errors="replace").read())
        body = body_of(cache[f], hdr)
        if body is None or not re.match(want, body.strip().rstrip(";") + ";", re.S):
            problems.append("%s: wrapper %s does not delegate to the scanned printer" % (f, hdr[:40]))
    return table, problems


def lean_chars(s):
    def ch(c):
        if c == "'":
            return "'\\''"
        if c == "\\":
            return "'\\\\'"
        if 32 <= ord(c) < 127:
            return "'%s'" % c
        return "Char.ofNat %d" % ord(c)
    return "[" + ", ".join(ch(c) for c in s) + "]"


def gen_enums_text(table):
    out = ["/- GENERATED by vlib/props/c14_writers.py from the enum printers the dump code calls - do not edit -/",
           "namespace Cppcheck.Gen.DumpEnums", "",
           "/-- printer ↦ every string it can return -/",
           "def enumLiterals : List (String × List (List Char)) := ["]
    rows = []
    for name in sorted(table):
        rows.append('  ("%s", [%s])' % (name, ", ".join(lean_chars(l) for l in table[name])))
    out.append(",\n".join(rows))
    out += ["]", "", "end Cppcheck.Gen.DumpEnums", ""]
    return "\n".join(out)

"""C30 — library configuration semantics are applied as declared (<valid> ranges, not-null/not-bool/not-uninit tables).

Obligations
  theorems   Cppcheck.LibValid.*  (Props/C30.lean): the rendered documented grammar is accepted by the loader, tokenises to
             the expected token list, parses back, and Library::isIntArgValid on it decides exactly the union of the
             intervals when all bounds fit int64 (bounds reduced modulo 2^64 otherwise); float path for integer bounds;
             decision tables.
  C1 int     real Library::load + isIntArgValid  ==  model loadAndCheckInt     (grammar stream, off-grammar compliant
             stream, malformed stream)
  C2 float   real Library::load + isFloatArgValid ==  model loadAndCheckFloat
  C3 parts   real isCompliantValidationExpression / tokenisation / MathLib::toBigNumber,toDoubleNumber,toString /
             int64->double  ==  model parts (localises a disagreement)
  C4 tables  real isnullargbad / isboolargbad / isuninitargbad / matchArguments on generated <function> elements == model
  C5 cli     built cppcheck on a generated .cfg + one-call-per-line C program: invalidFunctionArg (and
             invalidFunctionArgBool / nullPointer) reported on a line  <=>  the model says the constant is outside
P_impl       evaluated on the implementation only: verdict of the real isIntArgValid/isFloatArgValid == reference
             interpretation of the documented grammar computed in python (exact integers / python's correctly rounded
             floats); malformed text must be rejected by the real loader; no crash / InternalError on grammar inputs.
"""
import json, math, os, re, subprocess
from fractions import Fraction
from .. import core, build_repo

ID = "C30"
LEVEL = "other"     # proof for the integer <valid> clause; the other clauses of the property are partial, see CLAUSE_LEVELS
CLAUSE_LEVELS = {
    "<valid> with integer bounds in int64 (any list, any 64-bit constant): loader accepts, verdict = union of intervals, no throw":
        "proof (Lean, all expressions/values) + in-process and CLI correspondence",
    "<valid> bounds outside int64": "exact behaviour proved (intValid_exact_wrap); deviates from the property: known finding bound-outside-int64",
    "invalidFunctionArg id for boolean-expression arguments": "exact rule proved (invalidArg_id_exact_partial); deviates from the property text for "
        "constants inside the range (counterexample theorem, known finding bool-arg-range-message-constant-inside)",
    "<valid> with integer bounds < 2^53, float arguments": "proof (floatValid_intBounds_partial)",
    "<valid> with fractional / exponent bounds, float single values, '!x'": "other: modelled exactly (correct rounding, %.12g), no theorem; correspondence + python reference only",
    "non-canonical bound texts the loader accepts (+5, 010, 1e3, -0, 1+2)": "other: executed by model and code (correspondence int:alpha), no theorem",
    "not-bool": "proof of the decision (argDecision_notBool*, isboolargbad_loadArgs_iff) given astIsBool; astIsBool itself and the report are tied by CLI only",
    "not-null": "other: isnullargbad decision proved (isnullargbad_loadArgs_iff); 'Known value 0 => nullPointer' is CheckNullPointer + value flow, CLI-sampled only",
    "not-uninit": "other: isuninitargbad decision modelled and tied in-process; the uninitvar report is CLI-sampled only",
    "loading arbitrary / mutated XML never crashes": "other: no model; mutated-XML stream on the real loader only (found and fixed 3 crash classes)",
}
RULE = ("cases = (valid text, constant) pairs: grammar-generated range lists (1-4 ranges; bounds small, negative, at the int64 "
        "limits, random 64 bit; swapped and over-wide bounds included) probed at every bound-1, bound, bound+1 plus random values; "
        "float bounds (d.d, exponents, shipped cfg texts) probed at the rounded bound and both neighbouring doubles; strings over "
        "the loader's alphabet outside the grammar; malformed texts (foreign characters, whitespace, '::', '1-2', empty); "
        "CLI: one <arg> combining valid x not-bool x not-null x not-uninit, called with boolean constants / comparisons / ints / buffers; "
        "non-trivial = the loader accepts the text and it has a ':' or ',' (int/float), or the text is non-empty and rejected (malformed)")
EXPLANATION = ("LEVEL other = proof for the integer <valid> clause, partial for the rest. PROVED in Lean (all lengths, all integers x): render(v) "
               "is accepted by the load-time check, tokenises to the expected tokens, parses back to v, and the copied isIntArgValid accepts x iff "
               "x is in the union of the intervals whenever all bounds fit int64 (intValid_iff_partial; swapped bounds = empty range included); for "
               "|bound| < 2^64 the exact behaviour is membership after reducing the bounds modulo 2^64 (refutes the statement for arbitrary bounds: "
               "counterexample theorem = known finding F-C30-b). Checker decision (argDecision): value message <=> Known value outside; "
               "invalidFunctionArgBool <=> boolean expression and not-bool, independent of <valid>; the id invalidFunctionArg is also produced by "
               "the boolean block (exact rule invalidArg_id_exact_partial), so 'id <=> constant outside' holds only for non-boolean arguments "
               "(invalidArg_id_iff_partial) and is refuted for f(1==1) with 1:5 (invalidArg_id_counterexample_bool = known finding F-C30-g). "
               "Float path proved for integer bounds < 2^53 and all finite doubles. PARTIAL (no theorem, validated by correspondence / python "
               "reference / CLI only): fractional and exponent float bounds, float single values, '!x'; non-canonical bound texts (+5, 010=8, 1e3); "
               "not-null and not-uninit reports (only the isnullargbad/isuninitargbad decisions are modelled); value flow producing the Known "
               "constant and astIsBool; Library::load beyond <arg> children (mutated-XML robustness stream only, no model).")
THEOREMS = [
    "Cppcheck.LibValid.render_compliant",
    "Cppcheck.LibValid.load_rejects_foreign",
    "Cppcheck.LibValid.load_rejects_empty",
    "Cppcheck.LibValid.tokenize_render",
    "Cppcheck.LibValid.render_parse",
    "Cppcheck.LibValid.intValid_exact_wrap",
    "Cppcheck.LibValid.intValid_exact",
    "Cppcheck.LibValid.intValid_iff_partial",
    "Cppcheck.LibValid.intValid_eq_partial",
    "Cppcheck.LibValid.loadAndCheck_render_partial",
    "Cppcheck.LibValid.invalidValueMsg_reported_iff_partial",
    "Cppcheck.LibValid.argDecision_notBool",
    "Cppcheck.LibValid.argDecision_notBool_independent",
    "Cppcheck.LibValid.argDecision_invalidValue",
    "Cppcheck.LibValid.argDecision_invalidValue_independent",
    "Cppcheck.LibValid.argDecision_render_partial",
    "Cppcheck.LibValid.argDecision_boolRange_partial",
    "Cppcheck.LibValid.invalidArg_id_exact_partial",
    "Cppcheck.LibValid.invalidArg_id_iff_partial",
    "Cppcheck.LibValid.invalidArg_id_counterexample_bool",
    "Cppcheck.LibValid.intValid_iff_counterexample_wide",
    "Cppcheck.LibValid.old_single_value_clause_counterexample",
    "Cppcheck.LibValid.intValid_of_parse_partial",
    "Cppcheck.LibValid.floatValid_intBounds_partial",
    "Cppcheck.LibValid.getarg_eq",
    "Cppcheck.LibValid.isboolargbad_iff",
    "Cppcheck.LibValid.isnullargbad_iff",
    "Cppcheck.LibValid.isuninitargbad_iff",
    "Cppcheck.LibValid.loadArgs_notbool",
    "Cppcheck.LibValid.loadArgs_notnull",
    "Cppcheck.LibValid.loadArgs_has",
    "Cppcheck.LibValid.isboolargbad_loadArgs_iff",
    "Cppcheck.LibValid.isnullargbad_loadArgs_iff",
]
MODULES = ["Cppcheck.Props.C30"]

I64MIN, I64MAX = -2 ** 63, 2 ** 63 - 1
ALPHA = "0123456789:,+-.eE!"


def hx(s):
    return core.hx(s)


# ---- reference interpretation of the documented grammar (python, independent of the model) -------------------

def render_int_range(r):
    k = r[0]
    if k == "s":
        return str(r[1])
    if k == "c":
        return "%d:%d" % (r[1], r[2])
    if k == "f":
        return "%d:" % r[1]
    return ":%d" % r[1]


def ref_mem_int(v, x):
    for r in v:
        k = r[0]
        if (k == "s" and x == r[1]) or (k == "c" and r[1] <= x <= r[2]) or (k == "f" and x >= r[1]) or (k == "u" and x <= r[1]):
            return True
    return False


def classify_int(v, x, impl):
    """known classes of `impl verdict != documented meaning` for a grammar expression"""
    wide = any(not (I64MIN <= b <= I64MAX) for r in v for b in r[1:])
    if wide:
        return "bound-outside-int64"
    return None


def dbl_me(d):
    """finite python float -> (m, e) with d == m * 2**e, m odd or 0, e >= -1074"""
    if d == 0:
        return 0, 0
    fr, ex = math.frexp(d)
    m = int(fr * 2 ** 53)
    e = ex - 53
    while m % 2 == 0:
        m //= 2
        e += 1
    return m, e


def fmt_g12_tostring(d):
    s = "%.12g" % d
    if s == "-0":
        return "0.0"
    if "." not in s and "e" not in s:
        s += ".0"
    return s


def ref_mem_float(items, x):
    """items: list of ('c', lo, hi) / ('f', lo) / ('u', hi) with bound *texts*; python float() is correctly rounded"""
    for r in items:
        k = r[0]
        if k == "c" and float(r[1]) <= x <= float(r[2]):
            return True
        if k == "f" and x >= float(r[1]):
            return True
        if k == "u" and x <= float(r[1]):
            return True
    return False


# ---- generators ----------------------------------------------------------------------------------------------

def gen_bound(rng, wide_ok=True):
    k = rng.random()
    if k < 0.45:
        return rng.randint(-20, 40)
    if k < 0.6:
        return rng.choice([0, 1, -1, 255, 256, 65535, 2 ** 31 - 1, -2 ** 31, 2 ** 32 - 1, 2 ** 32])
    if k < 0.75:
        return rng.choice([I64MAX, I64MAX - 1, I64MIN, I64MIN + 1, 2 ** 62, -2 ** 62, 2 ** 53, 2 ** 53 + 1])
    if k < 0.95 or not wide_ok:
        return rng.randint(I64MIN, I64MAX)
    return rng.choice([2 ** 63, 2 ** 64 - 1, 2 ** 63 + 5, -2 ** 63 - 1, 2 ** 64, 10 ** 20, -2 ** 64 + 1, -2 ** 64, -10 ** 21])


def gen_int_expr(rng, wide_ok=True):
    n = rng.choice([1, 1, 2, 2, 3, 4])
    v = []
    for _ in range(n):
        k = rng.random()
        a = gen_bound(rng, wide_ok)
        if k < 0.25:
            v.append(("s", a))
        elif k < 0.65:
            b = gen_bound(rng, wide_ok)
            if rng.random() < 0.5 and abs(a) < 2 ** 62:
                b = a + rng.choice([0, 1, 2, 5, 100])
            if a > b and rng.random() < 0.85:
                a, b = b, a
            v.append(("c", a, b))
        elif k < 0.85:
            v.append(("f", a))
        else:
            v.append(("u", a))
    return v


def probes_int(rng, v, per):
    xs = set()
    for r in v:
        for b in r[1:]:
            for d in (-1, 0, 1):
                xs.add(b + d)
    xs |= {0, I64MIN, I64MAX, rng.randint(-50, 50), rng.randint(I64MIN, I64MAX)}
    xs = [x for x in xs if I64MIN <= x <= I64MAX]
    rng.shuffle(xs)
    return xs[:per]


FLOAT_TEXTS = ["-1.79769e+308:1.79769e+308", "-1.0:1.0", "!0.0", "-3.402823e+38:3.402823e+38", "4.94066e-324:", "!0.0:", "1.4013e-45:",
               "1.0:", "0.0:", "0.0:1.0", "1.5:", "-6.7:-5.5,-3.3:-2.7", ":2.0", "0.0", "1:5,8", "0:255", ":-1,1:", "0.1:0.3", "0.5", "2.5,3.5"]


def gen_float_num(rng):
    k = rng.random()
    if k < 0.3:
        s = "%d.%d" % (rng.randint(0, 30), rng.randint(0, 99))
    elif k < 0.45:
        s = "%d.%de%s%d" % (rng.randint(0, 9), rng.randint(0, 99999), rng.choice(["", "+", "-"]), rng.randint(0, 40))
    elif k < 0.55:
        s = "%d.%de%s%d" % (rng.randint(1, 9), rng.randint(0, 999999), rng.choice(["+", "-"]), rng.randint(280, 330))
    elif k < 0.65:
        s = "%de%s%d" % (rng.randint(1, 99), rng.choice(["", "+", "-"]), rng.randint(0, 25))
    elif k < 0.8:
        s = str(rng.randint(0, 50))
    elif k < 0.9:
        s = "%d.%s" % (rng.randint(0, 9), "".join(rng.choice("0123456789") for _ in range(rng.randint(15, 25))))
    else:
        s = "%d.0" % rng.randint(0, 2 ** 53)
    if rng.random() < 0.3:
        s = "-" + s
    return s


def gen_float_expr(rng):
    """returns (text, items or None when the text uses singles / '!')"""
    n = rng.choice([1, 1, 2, 3])
    parts, items, pure = [], [], True
    for _ in range(n):
        k = rng.random()
        a = gen_float_num(rng)
        if k < 0.45:
            b = gen_float_num(rng)
            try:
                if float(a) > float(b) and rng.random() < 0.85:
                    a, b = b, a
            except (OverflowError, ValueError):
                pass
            parts.append(a + ":" + b); items.append(("c", a, b))
        elif k < 0.65:
            parts.append(a + ":"); items.append(("f", a))
        elif k < 0.8:
            parts.append(":" + a); items.append(("u", a))
        elif k < 0.93:
            parts.append(a); pure = False
        else:
            parts.append("!" + a); pure = False
    return ",".join(parts), (items if pure else None)


def nums_in(text):
    return re.findall(r"[-+]?\d+\.?\d*(?:[eE][-+]?\d+)?", text)


def probes_float(rng, text, per):
    ds = set()
    for s in nums_in(text):
        try:
            d = float(s)
        except ValueError:
            continue
        if math.isinf(d) or math.isnan(d):
            continue
        ds.add(d)
        ds.add(math.nextafter(d, math.inf)); ds.add(math.nextafter(d, -math.inf))
        if abs(d) < 2 ** 62:
            ds.add(float(math.floor(d))); ds.add(float(math.floor(d) + 1))
    ds |= {0.0, 1.0, -1.0, 0.5, rng.uniform(-10, 10), rng.choice([1e300, -1e300, 5e-324, 2.0 ** 63, -2.0 ** 63, 1e15, 123456789012.5])}
    ds = [d for d in ds if not math.isinf(d)]
    rng.shuffle(ds)
    return ds[:per]


def gen_alpha_string(rng):
    """compliant-looking strings outside the documented grammar"""
    k = rng.random()
    if k < 0.5:
        items = []
        for _ in range(rng.choice([1, 1, 2, 3])):
            a = rng.choice(["1", "5", "12", "010", "08", "00", "1e3", "1E3", "2e+2", "1e-2", "1e", "e", "E5", "1.5", "0.5", "1.", "1e.5", "e.5", "01e-5",
                            "1e5e", "+3", "-3", "1+2", "!5", "!-3", "!+3", "!0.0", "18446744073709551615", "18446744073709551616", "9223372036854775808",
                            "-9223372036854775809", "1e19", "-1e19", "9223372036854775808.0", "99999999999999999999", "1e400", "0001", "-010", "007"])
            b = rng.choice(["", "", ":", ":" + rng.choice(["7", "+7", "-7", "1e1", "010", "9.5"])])
            items.append(rng.choice(["", "", ":"]) + a + b)
        return ",".join(items) + rng.choice(["", "", ",", ":"])
    n = rng.randint(1, 8)
    return "".join(rng.choice(ALPHA if rng.random() < 0.5 else "0123456789:,-") for _ in range(n))


MALFORMED = ["", " ", " 1:2", "1:2 ", "1 :2", "1: 2", "1\t", "1\n:2", "1::2", "1:2:3", "1-2", "-", "1,-", "!", "!:", "!,", ".5", "1:.5", "1,.5", "1..2",
             "1.2.3", "1.", "1.e5", "a", "1a", "0x10", "1u", "1L", "1:5;", "(1)", "1:5,8x", "<1", "1&2", "1e5e5", "--1", "+-1", "-+1", "1,+", "1:-", "~1", "1 2",
             "1_000", "1'000", "\"1\"", "1/2", "1*2", "1=2", "#1", "1\\", "\x7f1", "\xe9", "1:\xa0"]


def gen_malformed(rng):
    if rng.random() < 0.6:
        return rng.choice(MALFORMED)
    base = render_expr(gen_int_expr(rng, False))
    pos = rng.randint(0, len(base))
    ins = rng.choice([" ", "\t", "x", "::", "..", "-", "a", "_", "'", ";", "<", "&", "--", "+", "!", ".", "e", "E", ":", "\x01"])
    return base[:pos] + ins + base[pos:]


def render_expr(v):
    return ",".join(render_int_range(r) for r in v)


def gen_number_string(rng):
    k = rng.random()
    if k < 0.25:
        return rng.choice(["", "-"]) + str(rng.choice([rng.randint(0, 100), rng.randint(0, 2 ** 64 + 10), 2 ** 63, 2 ** 64 - 1, 2 ** 64, 2 ** 63 - 1, 10 ** 19, 10 ** 25]))
    if k < 0.35:
        return rng.choice(["", "-"]) + "0" + "".join(rng.choice("01234567" if rng.random() < 0.8 else "0123456789") for _ in range(rng.randint(0, 24)))
    if k < 0.55:
        # halfway cases for decimal -> binary64: exact midpoint between two adjacent doubles, and its neighbours in the last digit
        d = abs(rng.choice([rng.uniform(0, 10), rng.uniform(0, 1e-3), rng.uniform(1e10, 1e20), float(rng.randint(2 ** 53, 2 ** 60)), rng.uniform(1e-310, 1e-307)]))
        up = math.nextafter(d, math.inf)
        mid = (Fraction(d) + Fraction(up)) / 2
        s = frac_to_decimal(mid)
        j = rng.random()
        if j < 0.4:
            return s
        if j < 0.7:
            return s + "1"
        return s[:-1] + str((int(s[-1]) - 1) % 10) + "9"
    if k < 0.9:
        return gen_float_num(rng)
    return rng.choice(["1e", "e", "1e+", "1.e", ".5", "0.5", "1e400", "1e-400", "1e309", "1.7976931348623158e308", "1.7976931348623159e308",
                       "4.9406564584124654e-324", "2.4703282292062327e-324", "2.4703282292062328e-324", "2.47032822920623272e-324", "9223372036854775808.0",
                       "9223372036854775807.0", "-9223372036854775808.0", "-9223372036854775809.5", "0e999999999", "1e99999999999999999999", "0.0000e-99999999999"])


def frac_to_decimal(q):
    """exact decimal expansion of a non-negative dyadic rational"""
    num, den = q.numerator, q.denominator
    ip = num // den
    rem = num % den
    digs = []
    while rem:
        rem *= 10
        digs.append(str(rem // den))
        rem %= den
    return str(ip) + ("." + "".join(digs) if digs else ".0")


def gen_double(rng):
    k = rng.random()
    if k < 0.3:
        return float(rng.randint(-10 ** 6, 10 ** 6)) / rng.choice([1, 2, 4, 8, 10, 100, 1000])
    if k < 0.5:
        # decimal ties of %.12g : 13 significant digits ending in 5 that are exactly representable
        return float(rng.randint(10 ** 11, 10 ** 12 - 1) * 10 + 5) / rng.choice([2, 10, 1, 20, 2 ** 10])
    if k < 0.7:
        return rng.uniform(-1, 1) * 10.0 ** rng.randint(-320, 308)
    if k < 0.8:
        return rng.choice([0.0, 5e-324, -5e-324, 1.7976931348623157e308, 2.2250738585072014e-308, 1e21, 1e22, 1e23, 123456789012.5, 999999999999.5, 9999999999995.0,
                           0.0001, 0.00001, 0.000099999999999995, 1e12, 1e11, 999999999999.0, 0.1, 0.3, 1 / 3])
    return float(rng.randint(I64MIN, I64MAX))


def gen_decls(rng):
    n = rng.choice([0, 1, 1, 2, 3, 4])
    ds = []
    for _ in range(n):
        nr = rng.choice(["1", "1", "2", "2", "3", "4", "any", "variadic"])
        fl = "".join(c for c in "bnu123ofv" if rng.random() < 0.22)
        fl = "".join(rng.sample(fl, len(fl)))
        ds.append(nr + ":" + fl)
    return "%d %d %s" % (rng.randint(0, 4), rng.choice([0, 0, 1, 2]), " ".join(ds))


# ---- loader robustness stream (arbitrary / mutated XML) -----------------------------------------------------------

def shipped_pool(rng, n_files):
    """top-level elements of a few shipped cfg files (python ElementTree)"""
    import glob, xml.etree.ElementTree as ET
    files = sorted(glob.glob(os.path.join(core.REPO, "cfg", "*.cfg")))
    pool = []
    for f in rng.sample(files, min(n_files, len(files))):
        try:
            root = ET.parse(f).getroot()
        except ET.ParseError:
            continue
        kids = list(root)
        for k in rng.sample(kids, min(40, len(kids))):
            pool.append(k)
    return pool


def gen_mutated_xml(rng, pool):
    """(xml text, list of mutation descriptions)"""
    import copy, xml.etree.ElementTree as ET
    root = ET.Element("def", {"format": "2"})
    for k in rng.sample(pool, min(len(pool), rng.randint(1, 6))):
        root.append(copy.deepcopy(k))
    f = ET.SubElement(root, "function", {"name": "f"})
    a = ET.SubElement(f, "arg", {"nr": "1"})
    ET.SubElement(a, "valid").text = rng.choice(["1:5", "0:", ":8", "1,2", "-3:3"])
    muts = []
    for _ in range(rng.choice([0, 1, 1, 1, 2, 3])):
        elems = list(root.iter())
        e = rng.choice(elems)
        k = rng.random()
        if k < 0.3:
            cands = [x for x in elems if (x.text or "").strip()]
            if cands:
                e = rng.choice(cands)
                e.text = None
                muts.append("empty-text:" + e.tag)
        elif k < 0.6:
            cands = [x for x in elems if x.attrib]
            if cands:
                e = rng.choice(cands)
                an = rng.choice(sorted(e.attrib))
                e.set(an, rng.choice(["", "x", "-1", "99999999999999999999", "1.5", " 1", "0x10", "true", "any", "-", "2147483648", "100000000", "7"]))
                muts.append("attr-value:%s@%s" % (e.tag, an))
        elif k < 0.7:
            cands = [x for x in elems if x.attrib]
            if cands:
                e = rng.choice(cands)
                an = rng.choice(sorted(e.attrib))
                del e.attrib[an]
                muts.append("attr-removed:%s@%s" % (e.tag, an))
        elif k < 0.8:
            if e is not root:
                old = e.tag
                e.tag = rng.choice(["arg", "function", "valid", "noreturn", "memory", "alloc", "dealloc", "container", "size", "access", "podtype", "define",
                                    "reflection", "call", "markup", "exporter", "prefix", "imported", "importer", "minsize", "returnValue", "warn", "smart-pointer",
                                    "platformtype", "type-checks", "unusedvar", "check", "entrypoint", "zzz"])
                muts.append("renamed:%s->%s" % (old, e.tag))
        elif k < 0.9:
            for par in elems:
                kids = list(par)
                if kids and rng.random() < 0.3:
                    c = rng.choice(kids)
                    par.remove(c)
                    muts.append("removed:" + c.tag)
                    break
        else:
            e.text = rng.choice(["x", "-1", "1:", "true", ",", " ", "999999999999999999999999"])
            muts.append("text:" + e.tag)
    text = '<?xml version="1.0"?>\n' + ET.tostring(root, encoding="unicode")
    if rng.random() < 0.12:
        pos = rng.randint(0, len(text))
        j = rng.random()
        if j < 0.4:
            text = text[:pos]; muts.append("truncated")
        elif j < 0.7:
            text = text[:pos] + rng.choice(["<", ">", "&", "\"", "</x>", "<a", "\x01"]) + text[pos:]; muts.append("raw-insert")
        else:
            text = text[:pos] + text[pos + rng.randint(1, 30):]; muts.append("raw-delete")
    return text, muts


def run_isolated(exe, ops, timeout=600):
    """run ops through the harness; a dying harness is a result ('crash:<signal>') for the op it died on"""
    out = []
    i = 0
    while i < len(ops):
        rc, lines, err = core.run_lines(exe, [], ops[i:], timeout=timeout)
        out += lines[:len(ops) - i]
        i = len(out)
        if i < len(ops):
            out.append("crash:rc=%s" % rc)
            i += 1
    return out


def loader_result_class(o):
    return "ok" if o.startswith("load=0") else ("error-code" if o.startswith("load=") else ("exception" if o.startswith("throw:") else "crash"))


def loader_stream(ctx, res, exe, n):
    rng = ctx.rng
    pool = shipped_pool(rng, 8 if ctx.tier != "thorough" else 30)
    docs, ops = [], []
    # hand-made corner cases first
    for t in ['<def><function name="f"><noreturn/></function></def>',
              '<def><function name="f"><arg nr="x"/></function></def>',
              '<def><memory><dealloc/></memory></def>',
              '<def><reflection><call arg="1"/></reflection></def>',
              '<def><markup ext=".x"><imported><importer/></imported></markup></def>',
              '<def><podtype name="x" size="q"/></def>',
              '<def format="3"/>', '<def format="x"/>', '<zzz/>', '', '<def>', '<def><function/></def>', '<def><function name="f"><arg/></function></def>',
              '<def><function name="f"><arg nr="1"><minsize type="value" value="x"/></arg></function></def>',
              '<def><function name="f"><arg nr="1"><not-uninit indirect="q"/></arg></function></def>',
              '<def><function name="f"><warn/></function></def>', '<def><define/></def>', '<def><container/></def>',
              '<def><container id="c"><size templateParameter="x"/></container></def>',
              '<def><function name="f"><returnValue container="x"/></function></def>',
              '<def><function name="f"><arg nr="1" direction="in" indirect="100000000"/></function></def>',
              '<def><function name="f"><arg nr="1" direction="in" indirect="-100000000"/></function></def>']:
        docs.append((t, ["hand"]))
    for _ in range(n):
        docs.append(gen_mutated_xml(rng, pool))
    for t, m in docs:
        ops.append("X %s 3" % hx(t.encode("utf-8", "replace").decode("latin-1")))
    out = run_isolated(exe, ops)
    bad = 0
    for (t, m), op, o in zip(docs, ops, out):
        cls = loader_result_class(o)
        res.count("loader:" + cls)
        res.case("loader|" + op, bool(m) and m != ["hand"] or True, dict(tie="loader-robustness", op="%d bytes, mutations %s" % (len(t), m), impl=o, model="(outside the model)") if bad == 0 and cls in ("exception", "crash") else None)
        if cls in ("exception", "crash"):
            bad += 1
            key = None     # every loader crash class found so far is repaired (e6ae137): a crash is a new violation
            res.violation("Library::load does not return an error for a well-formed-XML configuration: %s (mutations %s)" % (o[:120], m),
                          dict(op=op, xml=t if len(t) < 3000 else t[:3000] + "...", impl=o, mutations=m), concrete=True, key=key)
    res.extra["loader_docs"] = len(docs)
    res.extra["loader_crashes"] = bad


# ---- running -------------------------------------------------------------------------------------------------

def both(ctx, exe, drv, ops):
    rc, impl, err = core.run_lines(exe, [], ops, timeout=900)
    if len(impl) != len(ops):
        raise core.CheckBroken("C30 harness produced %d lines for %d ops (rc=%s): %s" % (len(impl), len(ops), rc, err[-400:]))
    rc, model, err2 = core.run_lines(drv, [], ops, timeout=900)
    if len(model) != len(ops):
        raise core.CheckBroken("C30 driver produced %d lines for %d ops (rc=%s): %s" % (len(model), len(ops), rc, err2[-400:]))
    return impl, model


def describe(op):
    f = op.split()
    try:
        if f[0] in ("I", "F", "V", "T", "N", "X"):
            f[1] = repr(core.unhx(f[1]).decode("latin-1"))
    except Exception:
        pass
    return " ".join(f)


def correspond(ctx, res, name, ops, impl, model, nontrivial):
    mism = []
    step = max(1, len(ops) // 3)
    for i, op in enumerate(ops):
        samp = dict(tie=name, op=describe(op), impl=impl[i], model=model[i]) if i % step == 0 else None
        res.case(name + "|" + op, nontrivial(op, impl[i]), samp)
        if impl[i] != model[i]:
            mism.append(i)
    res.traces_validated += len(ops) - len(mism)
    res.oblig("correspondence:" + name, not mism, "correspondence",
              "" if not mism else "%d of %d ops differ; first: %s impl=[%s] model=[%s]" % (len(mism), len(ops), describe(ops[mism[0]]), impl[mism[0]], model[mism[0]]))
    return mism


def load_corpus():
    p = os.path.join(core.VERIF, "corpus", "C30", "cases.json")
    return json.load(open(p)) if os.path.exists(p) else []


def cli_run(ctx, cfg_text, c_text, tag):
    d = os.path.join(ctx.tmp, "cli_" + tag)
    os.makedirs(d, exist_ok=True)
    cfg = os.path.join(d, "t.cfg")
    src = os.path.join(d, "t.c")
    open(cfg, "w", encoding="latin-1").write(cfg_text)
    open(src, "w").write(c_text)
    rc, out, err = core.sh([ctx.cppcheck, "--library=" + cfg, "--template={id}|{severity}|{line}|{message}", "-q", "--inconclusive", src], timeout=300)
    return rc, out, err


def cli_tie(ctx, res, drv, rng, cases, name):
    """cases: list of dict(valid=text, lit=C literal, op=model op line).  One function per case, one call per line."""
    ops = [c["op"] for c in cases]
    rc, model, err = core.run_lines(drv, [], ops)
    cfg = ['<?xml version="1.0"?>', '<def format="2">']
    body = ["void t(void) {"]
    for k, c in enumerate(cases):
        cfg.append('  <function name="f%d"><noreturn>false</noreturn><arg nr="1"><valid>%s</valid></arg></function>' % (k, c["valid"]))
        body.append("  f%d(%s);" % (k, c["lit"]))
    cfg.append("</def>")
    body.append("}")
    rc, out, err = cli_run(ctx, "\n".join(cfg) + "\n", "\n".join(body) + "\n", name)
    if rc != 0:
        res.oblig("cli:" + name, False, "correspondence", "cppcheck rc=%s: %s %s" % (rc, out[-300:], err[-300:]))
        return []
    reported = {}
    for line in (out + err).split("\n"):
        f = line.split("|")
        if len(f) >= 4 and f[0] == "invalidFunctionArg":
            reported[int(f[2])] = line
    bad, viol = [], []
    for k, c in enumerate(cases):
        line = k + 2
        m = model[k]
        want = (m == "load=0 r=0")
        got = line in reported
        res.case("cli|" + c["op"] + "|" + c["lit"], True, dict(tie="cli", op="f(%s) with <valid>%s</valid>" % (c["lit"], c["valid"]), impl="reported" if got else "silent", model=m) if k % 16 == 0 else None)
        res.count("cli:" + ("outside" if want else "inside"))
        if want != got:
            bad.append("f(%s) valid=%r model=%s cppcheck=%s" % (c["lit"], c["valid"], m, reported.get(line, "silent")))
        if c.get("ref") is not None and (not c["ref"]) != got:
            viol.append((c, got))
    res.traces_validated += len(cases) - len(bad)
    res.oblig("cli:" + name, not bad, "correspondence", "" if not bad else "%d of %d calls differ; first: %s" % (len(bad), len(cases), bad[0]))
    return viol


def run(ctx, res):
    rng = ctx.rng
    thorough = ctx.tier == "thorough"
    scale = 20 if thorough else 1
    core.prove(ctx, res, MODULES, THEOREMS)
    drv = ctx.driver("drv_c30")
    exe = ctx.harness("c30")

    # ---- corpus first -------------------------------------------------------------------------------------------
    res.extra["clause_levels"] = CLAUSE_LEVELS
    res.assumptions += [
        "value flow gives the argument expression exactly its Known constant (1==1 -> 1, !0 -> 1, literals) and astIsBool classifies comparisons/negations as boolean: not modelled, exercised by the CLI tie only",
        "glibc strtod / printf(%.12g) and libstdc++ istream>>double are correctly rounded (modelled so; validated on every run by the mathlib / tostring-cast correspondences incl. exact midpoints)",
        "static_cast<bigint>(double) at exactly 2^63 behaves as x86-64 cvttsd2si (INT64_MIN); undefined in C++",
        "the one-call harness program f(a); reaches Library::getarg like a real call of a global, non-variable function name",
    ]
    corpus = load_corpus()
    clicorp = [c for c in corpus if c.get("cli") == "args"]
    corpus = [c for c in corpus if c.get("cli") != "args"]
    for c in clicorp:
        # CLI witnesses: one-function cfg + one call; "expected_reported" = what the property demands for "finding"
        res2 = core.Result(ctx, res.level)
        import io, contextlib
        buf = io.StringIO()
        with contextlib.redirect_stdout(buf):
            fails = replay(ctx, res2, c)
        res.case("corpus-cli|" + c["case"], True, None)
        if fails:
            res.violation("%s: %s" % (c["note"], c["case"]), dict(c), concrete=True, key=c.get("key"))
        elif c.get("key"):
            res.count("witness-gone:" + c["key"])
    xcorp = [c for c in corpus if c["op"].startswith("X ")]
    corpus = [c for c in corpus if not c["op"].startswith("X ")]
    cops = [c["op"] for c in corpus]
    if xcorp:
        # loader witnesses: implementation only (arbitrary XML is outside the model), each in its own process
        xout = run_isolated(exe, [c["op"] for c in xcorp])
        for c, o in zip(xcorp, xout):
            res.case("corpus|" + c["op"], True, None)
            if loader_result_class(o) in ("exception", "crash"):
                res.violation("loader crash on a corpus document (%s): %s" % (c["note"], o[:100]), dict(op=c["op"], impl=o, note=c["note"]),
                              concrete=True, key=c.get("key"))
    if cops:
        impl, model = both(ctx, exe, drv, cops)
        correspond(ctx, res, "corpus", cops, impl, model, lambda op, out: True)
        for c, o in zip(corpus, impl):
            # "expect" = the verdict the property demands for this case; "key" = known-finding class if the real code deviates
            if "expect" in c and o != c["expect"]:
                res.violation("%s: %s gives %s, the declared meaning is %s" % (c["note"], describe(c["op"]), o, c["expect"]),
                              dict(op=c["op"], impl=o, documented=c["expect"], note=c["note"]), concrete=True, key=c.get("key"))
            elif c.get("key"):
                res.count("witness-gone:" + c["key"])

    # ---- C1: int path -------------------------------------------------------------------------------------------
    ops, meta = [], []
    for _ in range(220 * scale):
        v = gen_int_expr(rng)
        text = render_expr(v)
        for x in probes_int(rng, v, 7):
            ops.append("I %s %d" % (hx(text), x)); meta.append(("grammar", v, x))
    for _ in range(260 * scale):
        text = gen_alpha_string(rng)
        xs = set([0, 1, 5, 8, -3, -5, 1000, 100, 200, I64MAX, I64MIN, rng.randint(-20, 20)])
        for s in re.findall(r"\d+", text):
            if len(s) < 19:
                xs |= {int(s), -int(s), int(s) + 1}
        for x in rng.sample(sorted(xs), 5):
            ops.append("I %s %d" % (hx(text), x)); meta.append(("alpha", text, x))
    for _ in range(150 * scale):
        text = gen_malformed(rng)
        ops.append("I %s %d" % (hx(text), rng.randint(-3, 9))); meta.append(("malformed", text, 0))
    impl, model = both(ctx, exe, drv, ops)

    def nt_valid(op, out):
        t = core.unhx(op.split()[1]).decode("latin-1")
        return (out.startswith("load=0") and (":" in t or "," in t)) or (out.startswith("load=5") and t != "")
    correspond(ctx, res, "int", ops, impl, model, nt_valid)
    for (kind, a, x), op, o in zip(meta, ops, impl):
        res.count("int:" + kind + ":" + o.replace(" ", ","))
        if kind == "grammar":
            # P_impl: documented meaning vs the real verdict
            want = "load=0 r=%d" % (1 if ref_mem_int(a, x) else 0)
            if o != want:
                key = classify_int(a, x, o[-1])
                res.violation("isIntArgValid disagrees with the documented meaning of %r at %d: real=%s documented=%s" % (render_expr(a), x, o, want),
                              dict(op=op, valid=render_expr(a), x=x, impl=o, documented=want), concrete=True, key=key)
        elif kind == "malformed":
            t = a
            foreign = any(ch not in ALPHA for ch in t) or t == ""
            if foreign and o != "load=5":
                res.violation("loader accepted a <valid> text with a character outside the documented alphabet: %r -> %s" % (t, o),
                              dict(op=op, valid=t, impl=o), concrete=True, key=None)

    # ---- C2: float path ----------------------------------------------------------------------------------------
    ops, meta = [], []
    texts = [(t, None) for t in FLOAT_TEXTS]
    for _ in range(160 * scale):
        texts.append(gen_float_expr(rng))
    for _ in range(40 * scale):
        v = gen_int_expr(rng, False)
        if rng.random() < 0.5:
            v = [r for r in v if r[0] != "s"] or [("f", 0)]
        items = [(r[0],) + tuple(str(b) for b in r[1:]) for r in v] if all(r[0] != "s" for r in v) else None
        texts.append((render_expr(v), items))
    for text, items in texts:
        for d in probes_float(rng, text, 6):
            m, e = dbl_me(d)
            ops.append("F %s %d %d" % (hx(text), m, e)); meta.append((text, items, d))
    impl, model = both(ctx, exe, drv, ops)
    correspond(ctx, res, "float", ops, impl, model, nt_valid)
    for (text, items, d), op, o in zip(meta, ops, impl):
        res.count("float:" + o.replace(" ", ","))
        if items is not None and o.startswith("load=0"):
            try:
                want = "load=0 r=%d" % (1 if ref_mem_float(items, d) else 0)
            except (OverflowError, ValueError):
                continue
            if any(math.isinf(float(b)) for r in items for b in r[1:]):
                continue
            if o != want:
                res.violation("isFloatArgValid disagrees with the (correctly rounded) meaning of %r at %r: real=%s reference=%s" % (text, d, o, want),
                              dict(op=op, valid=text, x=repr(d), impl=o, reference=want), concrete=True, key=None)

    # ---- C3: parts ---------------------------------------------------------------------------------------------
    ops = []
    for _ in range(120 * scale):
        ops.append("V " + hx(gen_alpha_string(rng)))
        ops.append("V " + hx(gen_malformed(rng)))
    vimpl, vmodel = both(ctx, exe, drv, ops)
    correspond(ctx, res, "compliant", ops, vimpl, vmodel, lambda op, out: True)
    tops = []
    for _ in range(200 * scale):
        t = gen_alpha_string(rng) if rng.random() < 0.6 else gen_float_expr(rng)[0]
        tops.append(t)
    # tokenisation is only defined (and only used by the code) for texts the loader accepts
    rc, vout, err = core.run_lines(exe, [], ["V " + hx(t) for t in tops])
    ops = ["T " + hx(t) for t, o in zip(tops, vout) if o == "c=1"]
    timpl, tmodel = both(ctx, exe, drv, ops)
    correspond(ctx, res, "tokenize", ops, timpl, tmodel, lambda op, out: out.count(" ") >= 3)
    ops = ["N " + hx(gen_number_string(rng)) for _ in range(500 * scale)]
    nimpl, nmodel = both(ctx, exe, drv, ops)
    correspond(ctx, res, "mathlib", ops, nimpl, nmodel, lambda op, out: "E" not in out)
    ops = []
    for _ in range(400 * scale):
        m, e = dbl_me(gen_double(rng))
        ops.append("S %d %d" % (m, e))
    for _ in range(150 * scale):
        ops.append("C %d" % rng.choice([rng.randint(I64MIN, I64MAX), rng.randint(-2 ** 54, 2 ** 54), 2 ** 53 + 1, 2 ** 53 + 3, I64MAX, I64MIN, 2 ** 62 + 2 ** 9, 2 ** 62 + 2 ** 9 + 1]))
    simpl, smodel = both(ctx, exe, drv, ops)
    correspond(ctx, res, "tostring-cast", ops, simpl, smodel, lambda op, out: True)
    # P_impl for the float formatting: python's %.12g is an independent correctly rounded reference
    for op, o in zip(ops, simpl):
        f = op.split()
        if f[0] == "S":
            d = math.ldexp(int(f[1]), int(f[2]))
            want = "s " + hx(fmt_g12_tostring(d))
            if o != want:
                res.violation("MathLib::toString(double) differs from %%.12g reference for %r: %s vs %s" % (d, o, want), dict(op=op, impl=o, reference=want), concrete=True, key=None)

    # ---- C4: decision tables ----------------------------------------------------------------------------------------
    ops = ["D " + gen_decls(rng) for _ in range(400 * scale)]
    dimpl, dmodel = both(ctx, exe, drv, ops)
    correspond(ctx, res, "tables", ops, dimpl, dmodel, lambda op, out: "lib=1" in out and len(op.split()) > 3)
    # P_impl for the plain case (every call argument has numbered <arg> elements only, no optional/variadic/formatstr):
    # not-bool / not-null hold for argument k iff one of its <arg nr="k"> elements declares them
    for op, o in zip(ops, dimpl):
        f = op.split()
        ncall, fmt, decls = int(f[1]), int(f[2]), [d.split(":") for d in f[3:]]
        if fmt == 0 and ncall > 0 and decls and all(d[0] == "variadic" and not (set(d[1]) & set("ofv")) for d in decls):
            # <arg nr="variadic"> covers every argument of the call
            nn = any("n" in d[1] for d in decls); nb = any("b" in d[1] for d in decls)
            got = o.split()
            if got[:2] != ["load=0", "lib=1"] or any(not g.startswith("%d:%d%d" % (k + 1, nn, nb)) for k, g in enumerate(got[2:])):
                res.violation("not-null/not-bool of <arg nr=\"variadic\"> not applied to every argument: %s -> %s" % (op, o), dict(op=op, impl=o), concrete=True, key=None)
            continue
        if fmt != 0 or ncall == 0 or any(not d[0].isdigit() or set(d[1]) & set("ofv") for d in decls):
            continue
        if sorted(set(int(d[0]) for d in decls)) != list(range(1, ncall + 1)) and max([int(d[0]) for d in decls] or [0]) != ncall:
            continue
        if max(int(d[0]) for d in decls) != ncall:
            continue
        want = ["load=0", "lib=1"]
        got = o.split()
        for k in range(1, ncall + 1):
            mine = [d[1] for d in decls if int(d[0]) == k]
            nn = any("n" in fl for fl in mine); nb = any("b" in fl for fl in mine)
            g = got[1 + k] if len(got) > 1 + k else ""
            if not g.startswith("%d:%d%d" % (k, nn, nb)):
                res.violation("not-null/not-bool not applied as declared: %s -> %s (argument %d: declared not-null=%s not-bool=%s)" % (op, o, k, nn, nb),
                              dict(op=op, impl=o), concrete=True, key=None)
                break

    # ---- C5: CLI -----------------------------------------------------------------------------------------------
    cases = []
    for _ in range(60 * scale):
        v = gen_int_expr(rng, False)
        text = render_expr(v)
        for x in probes_int(rng, v, 3):
            if abs(x) > 2 ** 62:
                continue
            ref = ref_mem_int(v, x)
            cases.append(dict(valid=text, lit=str(x), op="I %s %d" % (hx(text), x), ref=ref))
    for text in rng.sample(FLOAT_TEXTS, 8 if not thorough else len(FLOAT_TEXTS)):
        for d in probes_float(rng, text, 3):
            if d != d or abs(d) > 1e300 or (d != 0 and abs(d) < 1e-300):
                continue
            lit = repr(float(d))
            if "e" not in lit and "." not in lit:
                lit += ".0"
            m, e = dbl_me(float(lit))
            cases.append(dict(valid=text, lit=lit, op="F %s %d %d" % (hx(text), m, e), ref=None))
    viol = cli_tie(ctx, res, drv, rng, cases, "invalidFunctionArg")
    for c, got in viol:
        res.violation("cppcheck %s invalidFunctionArg for f(%s) with <valid>%s</valid> but the documented meaning says the value is %s" %
                      ("reports" if got else "does not report", c["lit"], c["valid"], "inside" if c["ref"] else "outside"),
                      dict(cli=True, valid=c["valid"], lit=c["lit"], reported=got), concrete=True, key=None)
    loader_stream(ctx, res, exe, 250 * scale)
    cli_tables(ctx, res, drv, rng, 24 * scale)
    cli_args(ctx, res, drv, rng, 160 * min(scale, 8))
    cli_malformed(ctx, res, rng, 3 if not thorough else 12)

    if any(not o["ok"] for o in res.obligations) and not any(v["concrete"] and v.get("key") is None for v in res.violations):
        search(ctx, res, exe, drv)


def cli_tables(ctx, res, drv, rng, n):
    """not-bool / not-null at the CLI: g(a > 1) / g(a) and h(0) / h(1) against generated <arg> declarations"""
    cfg = ['<?xml version="1.0"?>', '<def format="2">']
    body = ["void t(int a, char *p) {"]
    expect = {}
    ops = []
    for k in range(n):
        nb, nn = rng.random() < 0.5, rng.random() < 0.5
        via_any = rng.random() < 0.25
        fl = ("b" if nb else "") + ("n" if nn else "")
        # a lone nr="any" entry never matches a call with arguments (matchArguments counts the numbered entries);
        # nr="variadic" is the declaration that covers "every argument" on its own
        cfg.append('  <function name="g%d"><noreturn>false</noreturn><arg nr="%s">%s%s</arg></function>' %
                   (k, "variadic" if via_any else "1", "<not-bool/>" if nb else "", "<not-null/>" if nn else ""))
        arg = rng.choice(["a > 1", "a == 2", "!a", "a", "a + 1", "0", "1", "p"])
        body.append("  g%d(%s);" % (k, arg))
        isbool = arg in ("a > 1", "a == 2", "!a")
        isnull = arg == "0"
        expect[k + 2] = (arg, nb and isbool, nn and isnull)
        ops.append("D 1 0 %s:%s" % ("variadic" if via_any else "1", fl))
    cfg.append("</def>"); body.append("}")
    rc, model, err = core.run_lines(drv, [], ops)
    rc, out, err = cli_run(ctx, "\n".join(cfg) + "\n", "\n".join(body) + "\n", "tables")
    got_bool, got_null = set(), set()
    for line in (out + err).split("\n"):
        f = line.split("|")
        if len(f) >= 4 and f[0] == "invalidFunctionArgBool":
            got_bool.add(int(f[2]))
        if len(f) >= 4 and f[0] == "nullPointer":
            got_null.add(int(f[2]))
    bad = []
    for k, m in enumerate(model):
        line = k + 2
        arg, _, _ = expect[line]
        mm = re.search(r" 1:(\d)(\d)", m)
        m_null, m_bool = mm.group(1) == "1", mm.group(2) == "1"
        want_bool = m_bool and arg in ("a > 1", "a == 2", "!a")
        want_null = m_null and arg == "0"
        res.case("cli-tables|%s|%s" % (ops[k], arg), True, dict(tie="cli-tables", op="g(%s) with %s" % (arg, ops[k]), impl="bool=%d null=%d" % (line in got_bool, line in got_null), model=m) if k % 8 == 0 else None)
        if want_bool != (line in got_bool) or want_null != (line in got_null):
            bad.append("g(%s) decl=%s model=%s cppcheck bool=%s null=%s" % (arg, ops[k], m, line in got_bool, line in got_null))
        if (expect[line][1] != (line in got_bool)) or (expect[line][2] != (line in got_null)):
            res.violation("not-bool/not-null restriction not applied as declared: g(%s) with %s: reported bool=%s null=%s" % (arg, ops[k], line in got_bool, line in got_null),
                          dict(cli=True, decl=ops[k], arg=arg), concrete=True, key=None)
    res.traces_validated += len(model) - len(bad)
    res.oblig("cli:tables", not bad and rc == 0, "correspondence", "" if not bad else "%d differ; first: %s" % (len(bad), bad[0]))


# argument expressions of the combined-restrictions tie: (C text, is a boolean expression, Known value or None)
ARG_EXPRS = [("1==1", True, 1), ("!0", True, 1), ("0==1", True, 0), ("!1", True, 0), ("1<2", True, 1), ("2>3", True, 0),
             ("a > 1", True, None), ("a == 2", True, None), ("!a", True, None),
             ("a", False, None), ("a + 1", False, None), ("5", False, 5), ("0", False, 0), ("1", False, 1), ("2", False, 2), ("-3", False, -3),
             ("36", False, 36), ("37", False, 37), ("buf", False, None)]


def gen_small_expr(rng):
    """<valid> texts whose verdict on 0 / 1 / small values varies (what the boolean block looks at)"""
    if rng.random() < 0.4:
        return rng.choice([[("c", 2, 36)], [("f", 1)], [("f", 0)], [("c", 0, 1)], [("s", 0), ("c", 2, 36)], [("u", -1), ("f", 1)], [("s", 1)], [("c", 0, 255)], [("f", 2)]])
    v = []
    for _ in range(rng.choice([1, 1, 2])):
        k = rng.random(); a = rng.randint(-4, 6)
        if k < 0.25:
            v.append(("s", a))
        elif k < 0.6:
            v.append(("c", a, a + rng.choice([0, 1, 2, 30])))
        elif k < 0.8:
            v.append(("f", a))
        else:
            v.append(("u", a))
    return v


def cli_args(ctx, res, drv, rng, n):
    """every declared restriction of one argument is checked independently: <valid> x <not-bool/> x <not-null/> x
    <not-uninit/> on the same <arg>, called with boolean constants / comparisons / negations / plain ints / an
    uninitialised buffer.  One function and one call (in its own C function, on its own line) per case."""
    cfg = ['<?xml version="1.0"?>', '<def format="2">']
    body = []
    cases = []
    pinned = [([("c", 2, 36)], True, False, "", "1==1"), ([("f", 1)], True, False, "", "0==1"), ([("c", 2, 36)], True, True, "u", "!0"),
              ([("c", 0, 1)], True, False, "", "1<2"), ([("c", 2, 36)], False, False, "", "1==1"), ([("f", 1)], True, True, "1", "!1"),
              ([("c", 2, 36)], True, False, "", "a > 1"), ([("c", 2, 36)], True, False, "", "5"), ([("c", 2, 36)], True, False, "", "1"),
              (None, True, True, "", "0"), ([("f", 1)], False, True, "", "0"), ([("c", 2, 36)], True, True, "1", "buf"),
              # boolean arguments without <not-bool/>: the "0 or 1 (boolean)" branch, constant inside / outside / no constant
              ([("c", 1, 5)], False, False, "", "1==1"), ([("c", 1, 5)], False, False, "", "0==1"), ([("c", 0, 1)], False, False, "", "1==1"),
              ([("u", 0)], False, False, "", "!1"), ([("u", 0)], False, False, "", "!0"), ([("f", 1)], False, False, "", "a > 1"),
              ([("c", 0, 255)], False, False, "", "a == 2"), ([("s", 1)], False, False, "", "1<2"), ([("s", 0), ("c", 2, 36)], False, False, "", "2>3"),
              ([("c", 1, 5)], True, False, "", "1==1")]
    for k in range(n):
        v = gen_small_expr(rng) if rng.random() < 0.75 else None
        nb, nn = rng.random() < 0.45, rng.random() < 0.4
        nu = rng.choice(["", "", "u", "1", "2"])
        pin = pinned[k] if k < len(pinned) else None
        if pin:
            v, nb, nn, nu = pin[0], pin[1], pin[2], pin[3]
        text = render_expr(v) if v else ""
        kids = [("<not-bool/>" if nb else ""), ("<not-null/>" if nn else ""),
                {"": "", "u": "<not-uninit/>", "1": '<not-uninit indirect="1"/>', "2": '<not-uninit indirect="2"/>'}[nu],
                ("<valid>%s</valid>" % text if v else "")]
        rng.shuffle(kids)
        cfg.append('  <function name="h%d"><noreturn>false</noreturn><arg nr="1">%s</arg></function>' % (k, "".join(kids)))
        expr, isbool, known = rng.choice(ARG_EXPRS)
        if pin:
            expr, isbool, known = [e for e in ARG_EXPRS if e[0] == pin[4]][0]
        body.append("void t%d(int a) { char buf[4]; h%d(%s); }" % (k, k, expr))
        cases.append(dict(v=v, text=text, nb=nb, nn=nn, nu=nu, expr=expr, isbool=isbool, known=known))
    cfg.append("</def>")
    rc, out, err = cli_run(ctx, "\n".join(cfg) + "\n", "\n".join(body) + "\n", "args")
    got = {}
    for line in (out + err).split("\n"):
        f = line.split("|")
        if len(f) < 4 or not f[2].isdigit():
            continue
        kind = f[0]
        if kind == "invalidFunctionArg":
            kind = "range" if "0 or 1 (boolean)" in f[3] else "value"
        got.setdefault(int(f[2]), set()).add(kind)
    aops = ["A %s %d %d %s" % (hx(c["text"]), c["nb"], c["isbool"], "-" if c["known"] is None else c["known"]) for c in cases]
    dops = ["D 1 0 1:%s%s%s" % ("b" if c["nb"] else "", "n" if c["nn"] else "", c["nu"]) for c in cases]
    rc1, am, e1 = core.run_lines(drv, [], aops)
    rc2, dm, e2 = core.run_lines(drv, [], dops)
    bad = []
    for k, c in enumerate(cases):
        g = got.get(k + 1, set())
        m = re.match(r"v=(\d) b=(\d) r=(\d)", am[k])
        dmm = re.search(r" 1:(\d)(\d)(\d)(\d)(\d)", dm[k])
        desc = "h(%s) with <arg>%s%s%s%s</arg>" % (c["expr"], "<not-bool/>" if c["nb"] else "", "<not-null/>" if c["nn"] else "",
                                                  "<not-uninit %s/>" % c["nu"] if c["nu"] else "", "<valid>%s</valid>" % c["text"] if c["v"] else "")
        res.case("cli-args|" + desc, True, dict(tie="cli-args", op=desc, impl=",".join(sorted(g)) or "silent", model=am[k] + " |" + dm[k].split(" 1:")[-1]) if k % 40 == 0 else None)
        res.count("cli-args:" + ("bool" if c["isbool"] else "buf" if c["expr"] == "buf" else "int") + (":known" if c["known"] is not None else ""))
        if c["isbool"] and not c["nb"] and c["v"] is not None:
            res.count("cli-args:bool-block:" + ("range-msg" if "range" in g else "silent"))
        if not m or not dmm:
            bad.append("%s: model gave %s / %s" % (desc, am[k], dm[k])); continue
        want = set()
        if m.group(1) == "1": want.add("value")
        if m.group(2) == "1": want.add("invalidFunctionArgBool")
        if m.group(3) == "1": want.add("range")
        if dmm.group(1) == "1" and c["known"] == 0: want.add("nullPointer")
        if c["expr"] == "buf" and dmm.group(4) == "1": want.add("uninitvar")     # data of the buffer: indirect level 1
        if want != g:
            bad.append("%s: model expects %s, cppcheck reports %s" % (desc, sorted(want), sorted(g)))
        # P_impl, restriction by restriction (no model involved)
        p_value = c["known"] is not None and c["v"] is not None and not ref_mem_int(c["v"], c["known"])
        p_bool = c["nb"] and c["isbool"]
        p_null = c["nn"] and c["known"] == 0
        # the property as written, on the finding id: for a constant argument, invalidFunctionArg (either message) <=> outside
        if c["known"] is not None and c["v"] is not None:
            id_rep = bool(g & {"value", "range"})
            if id_rep != p_value:
                key = None
                if (id_rep and c["isbool"] and not c["nb"] and g & {"value", "range"} == {"range"}
                        and not (ref_mem_int(c["v"], 0) and ref_mem_int(c["v"], 1))):
                    key = "bool-arg-range-message-constant-inside"
                res.violation("invalidFunctionArg is %s for the constant argument of %s although the constant %d lies %s the declared ranges; findings on the call: %s" %
                              ("reported" if id_rep else "not reported", desc, c["known"], "inside" if not p_value else "outside", sorted(g) or "none"),
                              dict(cli="args", case=desc, cfg_line=cfg[k + 2], call=body[k], reported=sorted(g), restriction="<valid> (finding id)",
                                   expected_reported=bool(p_value), finding="id:invalidFunctionArg"), concrete=True, key=key)
        for name, p, kind in (("<valid>", p_value, "value"), ("<not-bool/>", p_bool, "invalidFunctionArgBool"), ("<not-null/>", p_null, "nullPointer")):
            if p != (kind in g):
                res.violation("the %s restriction of an argument is not applied as declared: %s: %s is %s; all findings on the call: %s" %
                              (name, desc, kind if kind != "value" else "invalidFunctionArg", "reported" if kind in g else "NOT reported", sorted(g) or "none"),
                              dict(cli="args", case=desc, cfg_line=cfg[k + 2], call=body[k], reported=sorted(g), restriction=name,
                                   expected_reported=bool(p), finding=kind), concrete=True, key=None)
    res.traces_validated += len(cases) - len(bad)
    res.oblig("cli:args-combined", not bad and rc == 0, "correspondence", "" if not bad else "%d of %d differ; first: %s" % (len(bad), len(cases), bad[0]))


def cli_malformed(ctx, res, rng, n):
    bad = []
    for k in range(n):
        t = rng.choice([m for m in MALFORMED if all(32 <= ord(c) < 127 and c not in "<&" for c in m)])
        cfg = '<?xml version="1.0"?>\n<def format="2">\n  <function name="f"><arg nr="1"><valid>%s</valid></arg></function>\n</def>\n' % t
        rc, out, err = cli_run(ctx, cfg, "void t(void) { f(1); }\n", "bad%d" % k)
        ok = rc == 1 and "Failed to load library configuration file" in (out + err)
        res.case("cli-malformed|" + t, True, dict(tie="cli-malformed", op=repr(t), impl="rc=%d %s" % (rc, (out + err).strip()[:80]), model="rejected") if k == 0 else None)
        if not ok:
            bad.append("%r rc=%s %s" % (t, rc, (out + err)[:200]))
            res.violation("malformed <valid> text %r was not rejected by cppcheck --library (rc=%s)" % (t, rc), dict(cli=True, valid=t, rc=rc), concrete=True, key=None)
    res.oblig("cli:malformed-rejected", not bad, "correspondence", "; ".join(bad[:2]))


def search(ctx, res, exe, drv):
    """an obligation broke and no concrete failing input is known: evaluate P_impl on a wider, model-independent sample"""
    rng = ctx.rng
    ops, meta = [], []
    for _ in range(3000):
        v = gen_int_expr(rng, False)
        v = [(r[0], min(r[1], r[2]), max(r[1], r[2])) if r[0] == "c" else r for r in v]
        text = render_expr(v)
        for x in probes_int(rng, v, 8):
            ops.append("I %s %d" % (hx(text), x)); meta.append((v, x))
    rc, impl, err = core.run_lines(exe, [], ops, timeout=900)
    res.extra["search_ops"] = len(ops)
    n = 0
    for (v, x), op, o in zip(meta, ops, impl):
        want = "load=0 r=%d" % (1 if ref_mem_int(v, x) else 0)
        if o != want:
            res.violation("search: isIntArgValid disagrees with the documented meaning of %r at %d: real=%s documented=%s" % (render_expr(v), x, o, want),
                          dict(op=op, valid=render_expr(v), x=x, impl=o, documented=want), concrete=True, key=None)
            n += 1
            if n > 10:
                break


def replay(ctx, res, rp):
    exe = ctx.harness("c30")
    drv = ctx.driver("drv_c30")
    if rp.get("cli") == "args":
        cfg = '<?xml version="1.0"?>\n<def format="2">\n%s\n</def>\n' % rp["cfg_line"]
        rc, out, err = cli_run(ctx, cfg, rp["call"] + "\n", "replay")
        kinds = set()
        for line in (out + err).split("\n"):
            f = line.split("|")
            if len(f) >= 4 and f[2].isdigit():
                kinds.add(("range" if "0 or 1 (boolean)" in f[3] else "value") if f[0] == "invalidFunctionArg" else f[0])
        if rp["finding"] == "id:invalidFunctionArg":
            fails = bool(kinds & {"value", "range"}) != rp["expected_reported"]
        else:
            fails = (rp["finding"] in kinds) != rp["expected_reported"]
        print("replay: %s\n  cfg : %s\n  call: %s\n  cppcheck reports: %s\n  %s declared => %s expected to be %s" %
              (rp["case"], rp["cfg_line"].strip(), rp["call"], sorted(kinds) or "nothing", rp["restriction"], rp["finding"], "reported" if rp["expected_reported"] else "absent"))
        if fails:
            print("VIOLATION property=C30 replay=(replayed) still fails")
        return 1 if fails else 0
    if rp.get("cli"):
        print("replay: CLI case, re-run ./check.py C30 (stored: %s)" % {k: rp[k] for k in rp if k in ("valid", "lit", "decl", "arg")})
        return 1
    op = rp["op"]
    impl, model = both(ctx, exe, drv, [op])
    print("replay: %s\n  real : %s\n  model: %s\n  documented/reference: %s" % (describe(op), impl[0], model[0], rp.get("documented", rp.get("reference", "-"))))
    want = rp.get("documented", rp.get("reference"))
    fails = (want is not None and impl[0] != want) or (want is None and impl[0] != model[0])
    if fails:
        print("VIOLATION property=C30 replay=(replayed) still fails")
    return 1 if fails else 0

"""C03 — always-true / always-false verdicts are true.

Obligations
  theorems   Cppcheck.CondExpr.*  (Lean; model of isSameExpression / isOppositeCond / checkCompareValueOutOfTypeRange /
             comparison() on the pure integer condition language, C17 semantics on LP64)
  C1         in-process: real Tokenizer + real isSameExpression / isOppositeCond / isOppositeExpression /
             CheckCondition::comparison / checkCompareValueOutOfTypeRange  ==  Lean model on the serialised ASTs
  C2         Lean evaluator (the semantics the theorems are about) == gcc -fsanitize=undefined on the same inputs
P_impl       every verdict of the real code (in-process relation, CLI finding) is evaluated on boundary + random inputs
             by the natively compiled program: a UB-free input on which the flagged condition takes the other value
             is a VIOLATION (or a KNOWN-FINDING when its classifier key is listed).
"""
import os, re, json, hashlib, itertools, shutil
from .. import core, build_repo

ID = "C03"
LEVEL = "other"
RULE = ("in-process cases = pairs of conditions over 4 typed integer parameters from the grammar (literals with suffixes, "
        "variables, unary - ~ !, + - * & | ^, comparisons, && ||), the second derived from the first by a relating mutation "
        "(negated / flipped comparator, swapped operands, constant +-1, other spelling of the constant, !, !!, != 0, "
        "&&/|| with a further atom) or independent; C and C++; non-trivial = the real code answers true for at least one "
        "of the relations or reports a finding, or the two conditions share an operand.  CLI cases = generated functions "
        "with nested / sequential / else-if / early-return conditions and assignments in between")
EXPLANATION = ("Proved (Lean, all expressions, all environments, C17 semantics with UB as 'no value'): soundness of the model of "
               "isSameExpression and isOppositeCond(isNot=false/true) under decidable side conditions, of the out-of-type-range "
               "verdict and of the bit-and/bit-or comparison verdict; counterexample theorems where the code's rule is unsound. "
               "Tie: the real functions run in-process on the real Tokenizer's AST against the model (exact agreement), the "
               "model's semantics against gcc. Partial: the theorems cover the pure integer fragment (no calls, casts, floats, "
               "pointers, followVar, containers); knownConditionTrueFalse and the flow part of multiCondition2 (modification "
               "scan between the conditions) are only validated per generated program by execution, not proved.")
THEOREMS = []
MODULES = ["Cppcheck.Props.C03"]

# ------------------------------------------------------------------------------------------------------------------
# C types (LP64)

TYPES = {  # code -> (C spelling, bits, signed)
    "s1": ("signed char", 8, True), "u1": ("unsigned char", 8, False),
    "s2": ("short", 16, True), "u2": ("unsigned short", 16, False),
    "s3": ("int", 32, True), "u3": ("unsigned int", 32, False),
    "s4": ("long", 64, True), "u4": ("unsigned long", 64, False),
    "s5": ("long long", 64, True), "u5": ("unsigned long long", 64, False),
}
VAR_TYPE_WEIGHTS = [("s3", 10), ("u3", 5), ("s1", 2), ("u1", 3), ("s2", 2), ("u2", 2), ("s4", 3), ("u4", 3), ("s5", 1), ("u5", 1)]


def tmin(t):
    _, b, s = TYPES[t]
    return -(1 << (b - 1)) if s else 0


def tmax(t):
    _, b, s = TYPES[t]
    return (1 << (b - 1)) - 1 if s else (1 << b) - 1


def lit_type_value(text):
    """C17 6.4.4.1 type and value of an integer constant spelling (with the `-` the tokenizer merges into the number)"""
    s = text
    neg = s.startswith("-")
    if neg:
        s = s[1:]
    m = re.match(r"^(0[xX][0-9a-fA-F]+|[0-9]+)([uUlL]*)$", s)
    if not m:
        return None
    body, suf = m.group(1), m.group(2).lower()
    hexa = body.lower().startswith("0x")
    octal = (not hexa) and len(body) > 1 and body[0] == "0"
    if octal:
        return None
    v = int(body, 16) if hexa else int(body)
    u = "u" in suf
    nl = suf.count("l")
    if u:
        cands = ["u3", "u4", "u5"][nl:]
    elif hexa:
        cands = [["s3", "u3", "s4", "u4", "s5", "u5"], ["s4", "u4", "s5", "u5"], ["s5", "u5"]][nl]
    else:
        cands = [["s3", "s4", "s5"], ["s4", "s5"], ["s5"]][nl]
    for t in cands:
        if v <= tmax(t):
            if neg:
                # unary minus applied to the constant: type after promotion, value wrapped for unsigned
                _, b, sg = TYPES[t]
                v2 = -v
                if not sg:
                    v2 %= (1 << b)
                elif v2 < tmin(t):
                    return None
                return t, v2
            return t, v
    return None


# ------------------------------------------------------------------------------------------------------------------
# expression trees of the generator:  ("lit", text) ("var", name) ("un", op, e) ("bin", op, l, r)

UNOPS = {"neg": "-", "compl": "~", "lnot": "!"}
BINOPS = {"add": "+", "sub": "-", "mul": "*", "div": "/", "mod": "%", "shl": "<<", "shr": ">>", "band": "&", "bor": "|",
          "bxor": "^", "lt": "<", "le": "<=", "gt": ">", "ge": ">=", "eq": "==", "ne": "!=", "land": "&&", "lor": "||"}
CMPS = ["lt", "le", "gt", "ge", "eq", "ne"]
NEG_CMP = {"lt": "ge", "le": "gt", "gt": "le", "ge": "lt", "eq": "ne", "ne": "eq"}
FLIP_CMP = {"lt": "gt", "le": "ge", "gt": "lt", "ge": "le", "eq": "eq", "ne": "ne"}


def pr(e):
    """C text of a tree, every non-leaf operand parenthesised"""
    k = e[0]
    if k == "lit" or k == "var":
        return e[1]
    if k == "un":
        return UNOPS[e[1]] + opnd(e[2])
    return opnd(e[2]) + " " + BINOPS[e[1]] + " " + opnd(e[3])


def opnd(e):
    if e[0] == "var" or (e[0] == "lit" and not e[1].startswith("-")):
        return e[1]
    return "(" + pr(e) + ")"


def tree_size(e):
    if e[0] in ("lit", "var"):
        return 1
    return 1 + sum(tree_size(x) for x in e[2:])


class Gen:
    def __init__(self, rng):
        self.rng = rng

    def wchoice(self, pairs):
        tot = sum(w for _, w in pairs)
        x = self.rng.uniform(0, tot)
        for v, w in pairs:
            x -= w
            if x <= 0:
                return v
        return pairs[-1][0]

    def params(self):
        return [(n, self.wchoice(VAR_TYPE_WEIGHTS)) for n in "abcd"]

    def const(self, near=None):
        r = self.rng
        if near is not None and r.random() < 0.7:
            v = near + r.choice([-2, -1, 1, 2, 0])
        else:
            v = self.wchoice([(0, 3), (1, 4), (2, 3), (3, 2), (5, 2), (7, 2), (8, 1), (16, 1), (100, 1), (127, 1), (128, 1), (255, 2), (256, 1),
                              (32767, 1), (65535, 1), (65536, 1), (70000, 1), (2147483647, 1), (2147483648, 1), (4294967295, 2),
                              (4294967296, 1), (5000000000, 1), (9223372036854775807, 1), (r.randrange(0, 300), 3)])
            if r.random() < 0.2:
                v = -v
        return v

    def lit(self, v=None, near=None):
        r = self.rng
        if v is None:
            v = self.const(near)
        neg = v < 0
        a = -v if neg else v
        style = self.wchoice([("d", 10), ("x", 2), ("u", 3), ("l", 2), ("ul", 1)])
        if style == "x":
            s = "0x%x" % a
        else:
            s = "%d" % a
            s += {"d": "", "u": "U", "l": "L", "ul": "UL"}[style]
        if neg:
            s = "-" + s
        if lit_type_value(s) is None:
            s = ("-" if neg else "") + "%d" % min(a, 2147483647)
        return ("lit", s)

    def var(self):
        return ("var", self.rng.choice("abcd"))

    def term(self, depth=0):
        """an integer-valued operand"""
        r = self.rng
        x = r.random()
        if depth >= 2 or x < 0.55:
            return self.var()
        if x < 0.62:
            return self.lit()
        if x < 0.70:
            return ("un", r.choice(["neg", "compl"]), self.term(depth + 1))
        op = self.wchoice([("add", 4), ("sub", 3), ("mul", 2), ("band", 4), ("bor", 3), ("bxor", 1)])
        l = self.term(depth + 1)
        rr = self.lit() if r.random() < 0.5 else self.term(depth + 1)
        if r.random() < 0.2:
            l, rr = rr, l
        return ("bin", op, l, rr)

    def atom(self):
        """a condition without && ||"""
        r = self.rng
        x = r.random()
        if x < 0.08:
            return self.term()
        if x < 0.14:
            return ("un", "lnot", self.term())
        op = r.choice(CMPS)
        l = self.term()
        rr = self.lit() if r.random() < 0.6 else self.term()
        if r.random() < 0.15:
            l, rr = rr, l
        return ("bin", op, l, rr)

    def cond(self, depth=0):
        r = self.rng
        if depth < 2 and r.random() < 0.3:
            return ("bin", r.choice(["land", "lor"]), self.cond(depth + 1), self.cond(depth + 1))
        return self.atom()

    # ---- mutations producing a related condition ---------------------------------------------
    def mutate(self, c, depth=0):
        r = self.rng
        k = c[0]
        choices = ["same", "not", "notnot", "ne0", "eq0", "and_atom", "or_atom", "fresh"]
        if k == "bin" and c[1] in CMPS:
            choices += ["negcmp", "flipswap", "negflip", "othercmp", "const", "const", "respell", "swapraw", "sub", "eq1", "ne1", "boolk"] * 2
        if k == "bin" and c[1] in ("land", "lor"):
            choices += ["demorgan", "swap", "mutl", "mutr", "dropl", "dropr", "otherlogic"] * 3
        if k == "bin" and c[1] in ("add", "mul", "band", "bor", "bxor"):
            choices += ["swap"] * 3
        if k == "un" and c[1] == "lnot":
            choices += ["strip", "strip_ne0"] * 3
        m = r.choice(choices)
        if m == "same":
            return c
        if m == "not":
            return ("un", "lnot", c)
        if m == "notnot":
            return ("un", "lnot", ("un", "lnot", c))
        if m == "ne0":
            z = ("lit", r.choice(["0", "0", "0", "0U", "0x0", "0L"]))
            return ("bin", "ne", c, z) if r.random() < 0.7 else ("bin", "ne", z, c)
        if m == "eq0":
            return ("bin", "eq", c, ("lit", "0"))
        if m == "eq1":
            return ("bin", r.choice(["eq", "ne"]), c, ("lit", r.choice(["1", "0", "2", "1U", "-1"])))
        if m == "ne1":
            return ("bin", r.choice(["eq", "ne"]), ("lit", r.choice(["1", "0", "2"])), c)
        if m == "boolk":
            return ("un", "lnot", ("bin", r.choice(["eq", "ne"]), c, ("lit", r.choice(["1", "0", "2"]))))
        if m == "and_atom":
            o = self.atom()
            return ("bin", "land", c, o) if r.random() < 0.5 else ("bin", "land", o, c)
        if m == "or_atom":
            o = self.atom()
            return ("bin", "lor", c, o) if r.random() < 0.5 else ("bin", "lor", o, c)
        if m == "fresh":
            return self.cond()
        if m == "negcmp":
            return ("bin", NEG_CMP[c[1]], c[2], c[3])
        if m == "flipswap":
            return ("bin", FLIP_CMP[c[1]], c[3], c[2])
        if m == "negflip":
            return ("bin", FLIP_CMP[NEG_CMP[c[1]]], c[3], c[2])
        if m == "othercmp":
            return ("bin", r.choice(CMPS), c[2], c[3])
        if m == "swapraw":
            return ("bin", c[1], c[3], c[2])
        if m in ("const", "respell"):
            i = 3 if c[3][0] == "lit" else (2 if c[2][0] == "lit" else None)
            if i is None:
                return ("bin", r.choice(CMPS), c[2], self.lit())
            tv = lit_type_value(c[i][1])
            v = tv[1] if tv else 0
            if m == "respell":
                nl = self.lit(v)
            else:
                nl = self.lit(None, near=v)
            op = c[1] if r.random() < 0.4 else r.choice(CMPS)
            out = list(c)
            out[1] = op
            out[i] = nl
            if r.random() < 0.2:
                out[2], out[3] = out[3], out[2]
            return tuple(out)
        if m == "sub":
            i = r.choice([2, 3])
            out = list(c)
            out[i] = self.mutate(c[i], depth + 1) if c[i][0] != "lit" and depth < 2 else c[i]
            return tuple(out)
        if m == "demorgan":
            o = "lor" if c[1] == "land" else "land"
            return ("bin", o, self.mutate(c[2], depth + 1) if depth < 2 else c[2], self.mutate(c[3], depth + 1) if depth < 2 else c[3])
        if m == "swap":
            return ("bin", c[1], c[3], c[2])
        if m == "mutl":
            return ("bin", c[1], self.mutate(c[2], depth + 1) if depth < 2 else c[2], c[3])
        if m == "mutr":
            return ("bin", c[1], c[2], self.mutate(c[3], depth + 1) if depth < 2 else c[3])
        if m == "dropl":
            return self.mutate(c[3], depth + 1) if depth < 2 else c[3]
        if m == "dropr":
            return self.mutate(c[2], depth + 1) if depth < 2 else c[2]
        if m == "otherlogic":
            return ("bin", "lor" if c[1] == "land" else "land", c[2], c[3])
        if m == "strip":
            return c[2]
        if m == "strip_ne0":
            return ("bin", "ne", c[2], ("lit", "0"))
        return c

    def pair(self):
        c1 = self.cond()
        c2 = self.mutate(c1)
        if self.rng.random() < 0.25:
            c2 = self.mutate(c2)
        if self.rng.random() < 0.3:
            c1, c2 = c2, c1
        return c1, c2


# ------------------------------------------------------------------------------------------------------------------
# the harness' tree serialisation

class HNode:
    __slots__ = ("kind", "col", "what", "vt", "k", "f", "r", "num", "kids")

    def sexp(self):
        head = [self.kind, str(self.col), self.what, self.vt, self.k, self.f, self.r]
        if self.kind == "L":
            head.append(self.num)
        out = " ".join(head)
        for c in self.kids:
            out += " " + c.sexp()
        return out

    def walk(self):
        yield self
        for c in self.kids:
            yield from c.walk()


def parse_tree(toks, i=0):
    n = HNode()
    n.kind = toks[i]
    n.col = int(toks[i + 1])
    n.what, n.vt, n.k, n.f, n.r = toks[i + 2:i + 7]
    i += 7
    n.num = None
    n.kids = []
    if n.kind == "L":
        n.num = toks[i]
        i += 1
    elif n.kind == "U":
        c, i = parse_tree(toks, i)
        n.kids = [c]
    elif n.kind == "B":
        c, i = parse_tree(toks, i)
        d, i = parse_tree(toks, i)
        n.kids = [c, d]
    elif n.kind != "V":
        raise ValueError("bad tree")
    return n, i


def parse_harness_line(line):
    """-> dict(trees=[HNode], r12, r21, findings=[(id, col, msg)]) or None for an `err` line"""
    if not line.startswith("ok "):
        return None
    parts = line[3:].split(" # ")
    trees = []
    for t in parts[0].split(" | "):
        n, i = parse_tree(t.split())
        trees.append(n)
    r12, r21 = parts[1].split()
    fnd = []
    if parts[2] != "-":
        for item in parts[2].split(";"):
            head, hexmsg = item.rsplit(":", 1)
            fid, col = head.split("@")
            fnd.append((fid, int(col), core.unhx(hexmsg).decode("latin-1")))
    return dict(trees=trees, r12=r12, r21=r21, findings=fnd, raw_trees=parts[0], raw_findings=parts[2])


def ident_at(src, col):
    m = re.match(r"[A-Za-z_]\w*", src[col - 1:])
    return m.group(0) if m else None


def sem_tables(src, params, trees):
    """the `vars` and `lits` fields of the driver ops: what the C compiler sees"""
    ptypes = dict(params)
    vs, ls = {}, {}
    for t in trees:
        for n in t.walk():
            if n.kind == "V":
                name = ident_at(src, n.col)
                if name not in ptypes:
                    return None
                if vs.setdefault(n.what, ptypes[name]) != ptypes[name]:
                    return None
            elif n.kind == "L":
                text = core.unhx(n.what).decode("latin-1")
                tv = lit_type_value(text)
                if tv is None:
                    return None
                ls[n.what] = tv
    vars_s = ",".join("%s:%s" % (k, v) for k, v in sorted(vs.items())) or "-"
    lits_s = ",".join("%s:%s:%d" % (k, t, v) for k, (t, v) in sorted(ls.items())) or "-"
    return vars_s, lits_s, vs


def source_of(params, c1, c2=None):
    s = "void f(" + ", ".join("%s %s" % (TYPES[t][0], n) for n, t in params) + ") { if (" + pr(c1) + ") {}"
    if c2 is not None:
        s += " if (" + pr(c2) + ") {}"
    return s + " }"


# ------------------------------------------------------------------------------------------------------------------
# native oracle: gcc -fsanitize=undefined; every evaluation prints one line, UB reports of the sanitizer runtime
# (stderr redirected into the same unbuffered stream) precede the line of the evaluation they belong to

def input_vectors(rng, params, consts, n):
    per = {}
    for name, t in params:
        lo, hi = tmin(t), tmax(t)
        vals = {lo, lo + 1, -1, 0, 1, 2, hi - 1, hi}
        for c in consts:
            for d in (-1, 0, 1):
                vals.add(c + d)
        vals = sorted(v for v in vals if lo <= v <= hi)
        per[name] = vals
    out = []
    names = [p[0] for p in params]
    for _ in range(n):
        vec = []
        for name, t in params:
            if rng.random() < 0.8:
                vec.append(rng.choice(per[name]))
            else:
                vec.append(rng.randint(tmin(t), tmax(t)))
        out.append(vec)
    # tie variables together now and then (x == y cases)
    for vec in out[: n // 4]:
        i, j = rng.randrange(len(names)), rng.randrange(len(names))
        ti = params[i][1]
        if tmin(ti) <= vec[j] <= tmax(ti):
            vec[i] = vec[j]
    return out


def c_lit(v, t):
    _, b, s = TYPES[t]
    if s:
        if v == -(1 << 63):
            return "(-9223372036854775807LL - 1)"
        return "%dLL" % v
    return "%dULL" % v


class Oracle:
    """batch of C expressions over typed parameter lists evaluated natively on input vectors"""

    def __init__(self, ctx):
        self.ctx = ctx
        self.funcs = []     # (params, text)
        self.calls = []     # (func index, vector)

    def add(self, params, text, vectors):
        self.funcs.append((params, text))
        fi = len(self.funcs) - 1
        first = len(self.calls)
        for v in vectors:
            self.calls.append((fi, v))
        return first, len(vectors)

    def run(self, tag="oracle"):
        """-> list of ('v', value) | ('ub', None) per call"""
        if not self.calls:
            return []
        src = ["#include <stdio.h>", "#include <unistd.h>"]
        for i, (params, text) in enumerate(self.funcs):
            src.append("static long long __attribute__((noinline)) f%d(%s) { return (long long)(%s); }" %
                       (i, ", ".join("%s %s" % (TYPES[t][0], n) for n, t in params), text))
        src.append("int main(void) { dup2(1, 2); setvbuf(stdout, NULL, _IONBF, 0); setvbuf(stderr, NULL, _IONBF, 0);")
        body = []
        for ci, (fi, vec) in enumerate(self.calls):
            params = self.funcs[fi][0]
            args = ", ".join("(%s)%s" % (TYPES[t][0], c_lit(v, t)) for (n, t), v in zip(params, vec))
            body.append("  printf(\"R %d %%lld\\n\", f%d(%s));" % (ci, fi, args))
        # split main into chunks to keep gcc fast
        chunk = 400
        mains = []
        for k in range(0, len(body), chunk):
            mains.append("static void __attribute__((noinline)) run%d(void) {\n%s\n}" % (k // chunk, "\n".join(body[k:k + chunk])))
        src[len(self.funcs) + 2:len(self.funcs) + 2] = mains
        src.append("".join("  run%d();\n" % j for j in range(len(mains))) + "  return 0; }")
        cpath = os.path.join(self.ctx.tmp, tag + ".c")
        exe = os.path.join(self.ctx.tmp, tag)
        open(cpath, "w").write("\n".join(src) + "\n")
        rc, out, err = core.sh(["gcc", "-std=gnu17", "-O0", "-w", "-fsanitize=undefined", "-fno-sanitize=alignment",
                                cpath, "-o", exe], timeout=600)
        if rc != 0:
            raise core.CheckBroken("oracle program does not compile:\n" + (out + err)[-3000:])
        rc, out, err = core.sh([exe], timeout=600, env={"UBSAN_OPTIONS": "print_stacktrace=0:halt_on_error=0"})
        res = [None] * len(self.calls)
        ub = False
        for line in out.split("\n"):
            if line.startswith("R "):
                _, ci, v = line.split()
                res[int(ci)] = ("ub", None) if ub else ("v", int(v))
                ub = False
            elif "runtime error" in line:
                ub = True
        if any(r is None for r in res):
            raise core.CheckBroken("oracle program output incomplete (rc=%s): %s" % (rc, out[-500:]))
        return res


# ------------------------------------------------------------------------------------------------------------------

def find_node(tree, col):
    for n in tree.walk():
        if n.col == col:
            return n
    return None


def parent_of(tree, node):
    for n in tree.walk():
        if node in n.kids:
            return n
    return None


def text_of_hnode(src, n):
    """C text of a harness subtree, rebuilt from the tokens' spellings (fully parenthesised)"""
    if n.kind == "L":
        return core.unhx(n.what).decode("latin-1")
    if n.kind == "V":
        return ident_at(src, n.col)
    if n.kind == "U":
        return UNOPS[n.what] + "(" + text_of_hnode(src, n.kids[0]) + ")"
    return "(" + text_of_hnode(src, n.kids[0]) + ") " + BINOPS[n.what] + " (" + text_of_hnode(src, n.kids[1]) + ")"


def classify_pair(rel, trees, vs, src):
    """known-finding key of a refuted in-process relation (None = not a listed class)"""
    return None


def run_inprocess(ctx, res, n_pairs, n_inputs, corpus):
    rng = ctx.rng
    g = Gen(rng)
    exe = ctx.harness("c03")
    drv = ctx.driver("drv_c03")
    cases = []
    for item in corpus:
        cases.append(dict(lang=item["lang"], params=[tuple(p) for p in item["params"]], src=item["src"], corpus=item.get("name")))
    for i in range(n_pairs):
        params = g.params()
        c1, c2 = g.pair()
        lang = "cpp" if rng.random() < 0.4 else "c"
        cases.append(dict(lang=lang, params=params, src=source_of(params, c1, c2), share=None))
    ops = ["conds %s %s" % (c["lang"], core.hx(c["src"])) for c in cases]
    rc, impl, err = core.run_lines(exe, [], ops)
    if len(impl) != len(ops):
        raise core.CheckBroken("c03 harness died: rc=%s %s" % (rc, err[-800:]))
    # stage 2: the model on the serialised trees
    dops, didx = [], []
    for i, (c, line) in enumerate(zip(cases, impl)):
        h = parse_harness_line(line)
        c["h"] = h
        if h is None:
            res.count("harness:" + line.split(":")[0][:40])
            continue
        st = sem_tables(c["src"], c["params"], h["trees"])
        if st is None:
            res.count("harness:sem-unresolved")
            c["h"] = None
            continue
        c["vars_s"], c["lits_s"], c["vs"] = st
        dops.append("case %s %s %s | %s" % (c["lang"], st[0], st[1], h["raw_trees"]))
        didx.append(i)
    rc, model, err = core.run_lines(drv, [], dops)
    if len(model) != len(dops):
        raise core.CheckBroken("drv_c03 died: rc=%s %s" % (rc, err[-800:]))
    impl_c, model_c, ops_c = [], [], []
    for j, i in enumerate(didx):
        c = cases[i]
        h = c["h"]
        mparts = model[j].split(" # ")
        c["annok"] = mparts[2] if len(mparts) == 3 else "?"
        impl_c.append("%s %s # %s" % (h["r12"], h["r21"], h["raw_findings"]))
        model_c.append(" # ".join(mparts[:2]))
        ops_c.append(dops[j])
    def nontriv(op, out):
        return "T" in out.split(" # ")[0] or not out.endswith("# -")
    core.correspond(ctx, res, "isSame/isOpposite/comparison/typeRange in-process", ops_c, impl_c, model_c, nontrivial=nontriv)
    return cases, didx


def run(ctx, res):
    core.prove(ctx, res, MODULES, THEOREMS)
    quick = ctx.tier != "thorough"
    corpus = []
    cpath = os.path.join(core.VERIF, "corpus", "C03", "cases.json")
    if os.path.exists(cpath):
        corpus = json.load(open(cpath)).get("inprocess", [])
    run_inprocess(ctx, res, 400 if quick else 6000, 40, corpus)


def replay(ctx, res, rd):
    return 0

"""C03 — always-true / always-false verdicts are true.

Obligations
  theorems   Cppcheck.CondExpr.*  (Lean; model of isSameExpression / isOppositeCond / checkCompareValueOutOfTypeRange /
             comparison() on the pure integer condition language, C17 semantics on LP64)
  C1         in-process: real Tokenizer + real isSameExpression / isOppositeCond / isOppositeExpression /
             CheckCondition::comparison / checkCompareValueOutOfTypeRange  ==  Lean model on the serialised ASTs
  C2         Lean evaluator (the semantics the theorems are about) == gcc -fsanitize=undefined on the same inputs
P_impl       every verdict of the real code (in-process relation, CLI finding) is evaluated on boundary + random inputs
             by the natively compiled program: a UB-free input on which the flagged condition takes the other value
             is a VIOLATION (or a KNOWN-FINDING when its classifier key is listed).
"""
import os, re, json, hashlib, itertools, shutil
from .. import core, build_repo

ID = "C03"
LEVEL = "other"
RULE = ("in-process cases = pairs of conditions over 4 typed integer parameters (10 integer types) from the grammar (literals with "
        "U/L/UL suffixes and hex, variables, unary - ~ !, + - * & | ^, comparisons, && ||, bit tests next to their mask constant), "
        "the second derived from the first by a relating mutation (negated / flipped comparator, operands swapped at any depth, "
        "constant +-1/+-2, other spelling of the constant, !, !!, != 0, == 1/2, &&/|| with a further atom, De Morgan) or independent; "
        "C and C++; non-trivial = the real code answers true for at least one relation or reports a finding.  CLI cases = generated "
        "functions with nested / sequential-after-early-return / else-if / plain conditions and assignments in between (half from "
        "the hazard-free profile: int/long, small non-negative constants, no ~); one case per verdict of a listed id, checked "
        "against the truth values of the flagged node in all UB-free native runs")
EXPLANATION = ("Proved (Lean, all expressions, all environments, C17 semantics with UB as 'no value'): soundness of the model of "
               "isSameExpression and isOppositeCond(isNot=false/true) under decidable side conditions, of the out-of-type-range "
               "verdict and of the bit-and/bit-or comparison verdict, composed down to the findings the driver prints "
               "(findings_mem, range_finding_sound_partial, comparison_finding_sound_partial: bit tests with one number token); "
               "counterexample theorems where the code's rule is unsound "
               "(and about the pre-fix functions of the fixed findings F03a/F03c). "
               "Tie: the real functions run in-process on the real Tokenizer's AST against the model (exact agreement), the "
               "model's semantics against gcc. Partial: the theorems cover the pure integer fragment (no calls, casts, floats, "
               "pointers, followVar, containers); knownConditionTrueFalse and the flow part of multiCondition2 (modification "
               "scan between the conditions) are only validated per generated program by execution, not proved; isOppositeExpression "
               "is tied but has no theorem; sufficiency of the recursion fuel is argued, not proved.")
MODULES = ["Cppcheck.Props.C03"]

# ------------------------------------------------------------------------------------------------------------------
# C types (LP64)

TYPES = {  # code -> (C spelling, bits, signed)
    "s1": ("signed char", 8, True), "u1": ("unsigned char", 8, False),
    "s2": ("short", 16, True), "u2": ("unsigned short", 16, False),
    "s3": ("int", 32, True), "u3": ("unsigned int", 32, False),
    "s4": ("long", 64, True), "u4": ("unsigned long", 64, False),
    "s5": ("long long", 64, True), "u5": ("unsigned long long", 64, False),
}
VAR_TYPE_WEIGHTS = [("s3", 10), ("u3", 5), ("s1", 2), ("u1", 3), ("s2", 2), ("u2", 2), ("s4", 3), ("u4", 3), ("s5", 1), ("u5", 1)]


def tmin(t):
    _, b, s = TYPES[t]
    return -(1 << (b - 1)) if s else 0


def tmax(t):
    _, b, s = TYPES[t]
    return (1 << (b - 1)) - 1 if s else (1 << b) - 1


def lit_type_value(text):
    """C17 6.4.4.1 type and value of an integer constant spelling (with the `-` the tokenizer merges into the number)"""
    s = text
    neg = s.startswith("-")
    if neg:
        s = s[1:]
    m = re.match(r"^(0[xX][0-9a-fA-F]+|[0-9]+)([uUlL]*)$", s)
    if not m:
        return None
    body, suf = m.group(1), m.group(2).lower()
    hexa = body.lower().startswith("0x")
    octal = (not hexa) and len(body) > 1 and body[0] == "0"
    if octal:
        return None
    v = int(body, 16) if hexa else int(body)
    u = "u" in suf
    nl = suf.count("l")
    if u:
        cands = ["u3", "u4", "u5"][nl:]
    elif hexa:
        cands = [["s3", "u3", "s4", "u4", "s5", "u5"], ["s4", "u4", "s5", "u5"], ["s5", "u5"]][nl]
    else:
        cands = [["s3", "s4", "s5"], ["s4", "s5"], ["s5"]][nl]
    for t in cands:
        if v <= tmax(t):
            if neg:
                # unary minus applied to the constant: type after promotion, value wrapped for unsigned
                _, b, sg = TYPES[t]
                v2 = -v
                if not sg:
                    v2 %= (1 << b)
                elif v2 < tmin(t):
                    return None
                return t, v2
            return t, v
    return None


# ------------------------------------------------------------------------------------------------------------------
# expression trees of the generator:  ("lit", text) ("var", name) ("un", op, e) ("bin", op, l, r)

UNOPS = {"neg": "-", "compl": "~", "lnot": "!"}
BINOPS = {"add": "+", "sub": "-", "mul": "*", "div": "/", "mod": "%", "shl": "<<", "shr": ">>", "band": "&", "bor": "|",
          "bxor": "^", "lt": "<", "le": "<=", "gt": ">", "ge": ">=", "eq": "==", "ne": "!=", "land": "&&", "lor": "||"}
CMPS = ["lt", "le", "gt", "ge", "eq", "ne"]
NEG_CMP = {"lt": "ge", "le": "gt", "gt": "le", "ge": "lt", "eq": "ne", "ne": "eq"}
FLIP_CMP = {"lt": "gt", "le": "ge", "gt": "lt", "ge": "le", "eq": "eq", "ne": "ne"}


def pr(e):
    """C text of a tree, every non-leaf operand parenthesised"""
    k = e[0]
    if k == "lit" or k == "var":
        return e[1]
    if k == "un":
        return UNOPS[e[1]] + opnd(e[2])
    return opnd(e[2]) + " " + BINOPS[e[1]] + " " + opnd(e[3])


def opnd(e):
    if e[0] == "var" or (e[0] == "lit" and not e[1].startswith("-")):
        return e[1]
    return "(" + pr(e) + ")"


def tree_size(e):
    if e[0] in ("lit", "var"):
        return 1
    return 1 + sum(tree_size(x) for x in e[2:])


class Gen:
    """safe = True: the fragment without integer-conversion hazards (int / long variables, small non-negative decimal
    constants, no `~`): a violation there is never absorbed by a known-finding class"""

    def __init__(self, rng, safe=False):
        self.rng = rng
        self.safe = safe

    def wchoice(self, pairs):
        tot = sum(w for _, w in pairs)
        x = self.rng.uniform(0, tot)
        for v, w in pairs:
            x -= w
            if x <= 0:
                return v
        return pairs[-1][0]

    def params(self):
        if self.safe:
            return [(n, self.wchoice([("s3", 4), ("s4", 1)])) for n in "abcd"]
        return [(n, self.wchoice(VAR_TYPE_WEIGHTS)) for n in "abcd"]

    def const(self, near=None):
        r = self.rng
        if self.safe:
            if near is not None and r.random() < 0.7:
                return max(0, near + r.choice([-2, -1, 1, 2, 0]))
            return self.wchoice([(0, 3), (1, 4), (2, 3), (3, 2), (5, 2), (7, 2), (8, 1), (16, 1), (100, 1), (127, 1), (255, 1),
                                 (256, 1), (65535, 1), (70000, 1), (r.randrange(0, 300), 3)])
        if near is not None and r.random() < 0.7:
            v = near + r.choice([-2, -1, 1, 2, 0])
        else:
            v = self.wchoice([(0, 3), (1, 4), (2, 3), (3, 2), (5, 2), (7, 2), (8, 1), (16, 1), (100, 1), (127, 1), (128, 1), (255, 2), (256, 1),
                              (32767, 1), (65535, 1), (65536, 1), (70000, 1), (2147483647, 1), (2147483648, 1), (4294967295, 2),
                              (4294967296, 1), (5000000000, 1), (9223372036854775807, 1), (r.randrange(0, 300), 3)])
            if r.random() < 0.2:
                v = -v
        return v

    def lit(self, v=None, near=None):
        r = self.rng
        if v is None:
            v = self.const(near)
        neg = v < 0
        a = -v if neg else v
        style = self.wchoice([("d", 10), ("x", 2)]) if self.safe else self.wchoice([("d", 10), ("x", 2), ("u", 3), ("l", 2), ("ul", 1)])
        if style == "x":
            s = "0x%x" % a
        else:
            s = "%d" % a
            s += {"d": "", "u": "U", "l": "L", "ul": "UL"}[style]
        if neg:
            s = "-" + s
        if lit_type_value(s) is None:
            s = ("-" if neg else "") + "%d" % min(a, 2147483647)
        return ("lit", s)

    def var(self):
        return ("var", self.rng.choice("abcd"))

    def term(self, depth=0):
        """an integer-valued operand"""
        r = self.rng
        x = r.random()
        if depth >= 2 or x < 0.55:
            return self.var()
        if x < 0.62:
            return self.lit()
        if x < 0.70:
            return ("un", "neg" if self.safe else r.choice(["neg", "compl"]), self.term(depth + 1))
        op = self.wchoice([("add", 4), ("sub", 3), ("mul", 2), ("band", 4), ("bor", 3), ("bxor", 1)])
        l = self.term(depth + 1)
        rr = self.lit() if r.random() < 0.5 else self.term(depth + 1)
        if r.random() < 0.2:
            l, rr = rr, l
        return ("bin", op, l, rr)

    def atom(self):
        """a condition without && ||"""
        r = self.rng
        x = r.random()
        if x < 0.08:
            return self.term()
        if x < 0.14:
            return ("un", "lnot", self.term())
        op = r.choice(CMPS)
        if x < 0.24:
            # bit test against a constant next to the mask: `(t & k) op k'`, `(t | k) op k'`
            k = r.choice([1, 3, 7, 8, 16, 255, 256]) if self.safe else abs(self.const())
            mask = ("bin", r.choice(["band", "band", "bor"]), self.term(1), self.lit(k))
            rr = self.lit(max(0, k + r.choice([-1, 0, 0, 1])))
            return ("bin", op, mask, rr) if r.random() < 0.85 else ("bin", op, rr, mask)
        l = self.term()
        rr = self.lit() if r.random() < 0.6 else self.term()
        if r.random() < 0.15:
            l, rr = rr, l
        return ("bin", op, l, rr)

    def cond(self, depth=0):
        r = self.rng
        if depth < 2 and r.random() < 0.3:
            return ("bin", r.choice(["land", "lor"]), self.cond(depth + 1), self.cond(depth + 1))
        return self.atom()

    # ---- mutations producing a related condition ---------------------------------------------
    def mutate(self, c, depth=0):
        r = self.rng
        k = c[0]
        choices = ["same", "not", "notnot", "ne0", "eq0", "and_atom", "or_atom", "deepswap", "deepswap"]
        if r.random() < 0.05:
            choices.append("fresh")
        if k == "bin" and c[1] in CMPS:
            choices += ["negcmp", "flipswap", "negflip", "othercmp", "const", "const", "respell", "swapraw", "sub", "eq1", "ne1", "boolk"] * 2
        if k == "bin" and c[1] in ("land", "lor"):
            choices += ["demorgan", "swap", "mutl", "mutr", "dropl", "dropr", "otherlogic"] * 3
        if k == "bin" and c[1] in ("add", "sub", "mul", "band", "bor", "bxor"):
            choices += ["swap"] * 3
        if k == "un" and c[1] == "lnot":
            choices += ["strip", "strip_ne0"] * 3
        m = r.choice(choices)
        if m == "same":
            return c
        if m == "deepswap":
            # swap the operands of one arithmetic / bitwise operator somewhere below (commutative or not)
            paths = []
            def walk(t, path):
                if t[0] == "bin":
                    if t[1] in ("add", "sub", "mul", "band", "bor", "bxor"):
                        paths.append(path)
                    walk(t[2], path + (2,)); walk(t[3], path + (3,))
                elif t[0] == "un":
                    walk(t[2], path + (2,))
            walk(c, ())
            if not paths:
                return c
            def rebuild(t, path):
                if not path:
                    return ("bin", t[1], t[3], t[2])
                lst = list(t)
                lst[path[0]] = rebuild(t[path[0]], path[1:])
                return tuple(lst)
            return rebuild(c, r.choice(paths))
        if m == "not":
            return ("un", "lnot", c)
        if m == "notnot":
            return ("un", "lnot", ("un", "lnot", c))
        if m == "ne0":
            z = ("lit", "0" if self.safe else r.choice(["0", "0", "0", "0U", "0x0", "0L"]))
            return ("bin", "ne", c, z) if r.random() < 0.7 else ("bin", "ne", z, c)
        if m == "eq0":
            return ("bin", "eq", c, ("lit", "0"))
        if m == "eq1":
            return ("bin", r.choice(["eq", "ne"]), c, ("lit", r.choice(["1", "0"] if self.safe else ["1", "0", "2", "1U", "-1"])))
        if m == "ne1":
            return ("bin", r.choice(["eq", "ne"]), ("lit", r.choice(["1", "0"] if self.safe else ["1", "0", "2"])), c)
        if m == "boolk":
            return ("un", "lnot", ("bin", r.choice(["eq", "ne"]), c, ("lit", r.choice(["1", "0"] if self.safe else ["1", "0", "2"]))))
        if m == "and_atom":
            o = self.atom()
            return ("bin", "land", c, o) if r.random() < 0.5 else ("bin", "land", o, c)
        if m == "or_atom":
            o = self.atom()
            return ("bin", "lor", c, o) if r.random() < 0.5 else ("bin", "lor", o, c)
        if m == "fresh":
            return self.cond()
        if m == "negcmp":
            return ("bin", NEG_CMP[c[1]], c[2], c[3])
        if m == "flipswap":
            return ("bin", FLIP_CMP[c[1]], c[3], c[2])
        if m == "negflip":
            return ("bin", FLIP_CMP[NEG_CMP[c[1]]], c[3], c[2])
        if m == "othercmp":
            return ("bin", r.choice(CMPS), c[2], c[3])
        if m == "swapraw":
            return ("bin", c[1], c[3], c[2])
        if m in ("const", "respell"):
            i = 3 if c[3][0] == "lit" else (2 if c[2][0] == "lit" else None)
            if i is None:
                return ("bin", r.choice(CMPS), c[2], self.lit())
            tv = lit_type_value(c[i][1])
            v = tv[1] if tv else 0
            if m == "respell":
                nl = self.lit(v)
            else:
                nl = self.lit(None, near=v)
            op = c[1] if r.random() < 0.4 else r.choice(CMPS)
            out = list(c)
            out[1] = op
            out[i] = nl
            if r.random() < 0.2:
                out[2], out[3] = out[3], out[2]
            return tuple(out)
        if m == "sub":
            i = r.choice([2, 3])
            out = list(c)
            out[i] = self.mutate(c[i], depth + 1) if c[i][0] != "lit" and depth < 2 else c[i]
            return tuple(out)
        if m == "demorgan":
            o = "lor" if c[1] == "land" else "land"
            return ("bin", o, self.mutate(c[2], depth + 1) if depth < 2 else c[2], self.mutate(c[3], depth + 1) if depth < 2 else c[3])
        if m == "swap":
            return ("bin", c[1], c[3], c[2])
        if m == "mutl":
            return ("bin", c[1], self.mutate(c[2], depth + 1) if depth < 2 else c[2], c[3])
        if m == "mutr":
            return ("bin", c[1], c[2], self.mutate(c[3], depth + 1) if depth < 2 else c[3])
        if m == "dropl":
            return self.mutate(c[3], depth + 1) if depth < 2 else c[3]
        if m == "dropr":
            return self.mutate(c[2], depth + 1) if depth < 2 else c[2]
        if m == "otherlogic":
            return ("bin", "lor" if c[1] == "land" else "land", c[2], c[3])
        if m == "strip":
            return c[2]
        if m == "strip_ne0":
            return ("bin", "ne", c[2], ("lit", "0"))
        return c

    def pair(self):
        c1 = self.cond()
        c2 = self.mutate(c1)
        if self.rng.random() < 0.25:
            c2 = self.mutate(c2)
        if self.rng.random() < 0.3:
            c1, c2 = c2, c1
        return c1, c2


# ------------------------------------------------------------------------------------------------------------------
# the harness' tree serialisation

class HNode:
    __slots__ = ("kind", "col", "what", "vt", "k", "f", "r", "num", "kids")

    def sexp(self):
        head = [self.kind, str(self.col), self.what, self.vt, self.k, self.f, self.r]
        if self.kind == "L":
            head.append(self.num)
        out = " ".join(head)
        for c in self.kids:
            out += " " + c.sexp()
        return out

    def walk(self):
        yield self
        for c in self.kids:
            yield from c.walk()


def parse_tree(toks, i=0):
    n = HNode()
    n.kind = toks[i]
    n.col = int(toks[i + 1])
    n.what, n.vt, n.k, n.f, n.r = toks[i + 2:i + 7]
    i += 7
    n.num = None
    n.kids = []
    if n.kind == "L":
        n.num = toks[i]
        i += 1
    elif n.kind == "U":
        c, i = parse_tree(toks, i)
        n.kids = [c]
    elif n.kind == "B":
        c, i = parse_tree(toks, i)
        d, i = parse_tree(toks, i)
        n.kids = [c, d]
    elif n.kind != "V":
        raise ValueError("bad tree")
    return n, i


def parse_harness_line(line):
    """-> dict(trees=[HNode], r12, r21, findings=[(id, col, msg)]) or None for an `err` line"""
    if not line.startswith("ok "):
        return None
    parts = line[3:].split(" # ")
    trees = []
    for t in parts[0].split(" | "):
        n, i = parse_tree(t.split())
        trees.append(n)
    r12, r21 = parts[1].split()
    fnd = []
    if parts[2] != "-":
        for item in parts[2].split(";"):
            head, hexmsg = item.rsplit(":", 1)
            fid, col = head.split("@")
            fnd.append((fid, int(col), core.unhx(hexmsg).decode("latin-1")))
    return dict(trees=trees, r12=r12, r21=r21, findings=fnd, raw_trees=parts[0], raw_findings=parts[2])


def ident_at(src, col):
    m = re.match(r"[A-Za-z_]\w*", src[col - 1:])
    return m.group(0) if m else None


def sem_tables(src, params, trees):
    """the `vars` and `lits` fields of the driver ops: what the C compiler sees"""
    ptypes = dict(params)
    vs, ls = {}, {}
    for t in trees:
        for n in t.walk():
            if n.kind == "V":
                name = ident_at(src, n.col)
                if name not in ptypes:
                    return None
                if vs.setdefault(n.what, ptypes[name]) != ptypes[name]:
                    return None
            elif n.kind == "L":
                text = core.unhx(n.what).decode("latin-1")
                tv = lit_type_value(text)
                if tv is None:
                    return None
                ls[n.what] = tv
    vars_s = ",".join("%s:%s" % (k, v) for k, v in sorted(vs.items())) or "-"
    lits_s = ",".join("%s:%s:%d" % (k, t, v) for k, (t, v) in sorted(ls.items())) or "-"
    return vars_s, lits_s, vs


def source_of(params, c1, c2=None):
    s = "void f(" + ", ".join("%s %s" % (TYPES[t][0], n) for n, t in params) + ") { if (" + pr(c1) + ") {}"
    if c2 is not None:
        s += " if (" + pr(c2) + ") {}"
    return s + " }"


# ------------------------------------------------------------------------------------------------------------------
# native oracle: gcc -fsanitize=undefined; every evaluation prints one line, UB reports of the sanitizer runtime
# (stderr redirected into the same unbuffered stream) precede the line of the evaluation they belong to

def input_vectors(rng, params, consts, n):
    per = {}
    for name, t in params:
        lo, hi = tmin(t), tmax(t)
        vals = {lo, lo + 1, -1, 0, 1, 2, hi - 1, hi}
        for c in consts:
            for d in (-1, 0, 1):
                vals.add(c + d)
        vals = sorted(v for v in vals if lo <= v <= hi)
        per[name] = vals
    out = []
    names = [p[0] for p in params]
    for _ in range(n):
        vec = []
        for name, t in params:
            if rng.random() < 0.8:
                vec.append(rng.choice(per[name]))
            else:
                vec.append(rng.randint(tmin(t), tmax(t)))
        out.append(vec)
    # tie variables together now and then (x == y cases)
    for vec in out[: n // 4]:
        i, j = rng.randrange(len(names)), rng.randrange(len(names))
        ti = params[i][1]
        if tmin(ti) <= vec[j] <= tmax(ti):
            vec[i] = vec[j]
    return out


def c_lit(v, t):
    _, b, s = TYPES[t]
    if s:
        if v == -(1 << 63):
            return "(-9223372036854775807LL - 1)"
        return "%dLL" % v
    return "%dULL" % v


class Oracle:
    """batch of C expressions over typed parameter lists evaluated natively on input vectors"""

    def __init__(self, ctx):
        self.ctx = ctx
        self.funcs = []     # (params, text)
        self.calls = []     # (func index, vector)

    def add(self, params, text, vectors):
        """a function whose text contains TR(…) returns 2 when the marked node is not evaluated, else its truth value"""
        self.funcs.append((params, text))
        fi = len(self.funcs) - 1
        first = len(self.calls)
        for v in vectors:
            self.calls.append((fi, v))
        return first, len(vectors)

    def run(self, tag="oracle", per_file=2000):
        """-> list of ('v', value) | ('ub', None) per call.
        Undefined behaviour is detected by gcc's -fsanitize=undefined in trap mode: the failing check executes an illegal
        instruction, the SIGILL handler jumps back and the evaluation is recorded as `ub` (no report de-duplication)."""
        if not self.calls:
            return []
        # calls are grouped per function (add() appends the vectors of one function contiguously): one table + loop each
        groups = []
        for ci, (fi, vec) in enumerate(self.calls):
            if groups and groups[-1][0] == fi and groups[-1][1] + len(groups[-1][2]) == ci:
                groups[-1][2].append(vec)
            else:
                groups.append((fi, ci, [vec]))
        res = [None] * len(self.calls)
        for part, k0 in enumerate(range(0, len(groups), per_file)):
            self._run_part("%s_%d" % (tag, part), groups[k0:k0 + per_file], res)
        if any(r is None for r in res):
            raise core.CheckBroken("oracle program output incomplete")
        return res

    def _run_part(self, tag, groups, res):
        src = ["#include <stdio.h>", "#include <signal.h>", "#include <setjmp.h>",
               "static sigjmp_buf jb;", "static void onill(int s) { (void)s; siglongjmp(jb, 1); }",
               "static int tr_seen, tr_val;",
               "#define TR(e) ({ __typeof__(e) v_ = (e); tr_seen = 1; tr_val = (v_ != 0); v_; })",
               "#define CALL(ci, e) do { if (sigsetjmp(jb, 1) == 0) { long long r_ = (e); printf(\"R %d %lld\\n\", ci, r_); } "
               "else printf(\"U %d\\n\", ci); } while (0)"]
        mains = []
        for gi, (fi, first, vecs) in enumerate(groups):
            params, text = self.funcs[fi]
            if "TR(" in text:
                src.append("static long long __attribute__((noinline)) f%d(%s) { tr_seen = 0; (void)(%s); return tr_seen ? tr_val : 2; }" %
                           (fi, ", ".join("%s %s" % (TYPES[t][0], n) for n, t in params), text))
            else:
                src.append("static long long __attribute__((noinline)) f%d(%s) { return (long long)(%s); }" %
                           (fi, ", ".join("%s %s" % (TYPES[t][0], n) for n, t in params), text))
            np_ = max(1, len(params))
            rows = ",".join("{" + ",".join("%dULL" % (v % (1 << 64)) for v in vec) + ("" if vec else "0") + "}" for vec in vecs)
            args = ", ".join("(%s)t[k][%d]" % (TYPES[t][0], j) for j, (n, t) in enumerate(params))
            mains.append("static void __attribute__((noinline)) run%d(void) { static const unsigned long long t[%d][%d] = {%s}; "
                         "for (int k = 0; k < %d; ++k) CALL(%d + k, f%d(%s)); }" % (gi, len(vecs), np_, rows, len(vecs), first, fi, args))
        src += mains
        src.append("int main(void) { signal(SIGILL, onill); signal(SIGFPE, onill); signal(SIGTRAP, onill);\n" +
                   "".join("  run%d();\n" % j for j in range(len(mains))) + "  return 0; }")
        cpath = os.path.join(self.ctx.tmp, tag + ".c")
        exe = os.path.join(self.ctx.tmp, tag)
        open(cpath, "w").write("\n".join(src) + "\n")
        rc, out, err = core.sh(["gcc", "-std=gnu17", "-O0", "-w", "-fsanitize=undefined", "-fno-sanitize=alignment",
                                "-fsanitize-undefined-trap-on-error", cpath, "-o", exe], timeout=1800)
        if rc != 0:
            raise core.CheckBroken("oracle program does not compile:\n" + (out + err)[-3000:])
        rc, out, err = core.sh([exe], timeout=900)
        for line in out.split("\n"):
            if line.startswith("R "):
                _, ci, v = line.split()
                res[int(ci)] = ("v", int(v))
            elif line.startswith("U "):
                res[int(line.split()[1])] = ("ub", None)


# ------------------------------------------------------------------------------------------------------------------

def find_node(tree, col):
    for n in tree.walk():
        if n.col == col:
            return n
    return None


def parent_of(tree, node):
    for n in tree.walk():
        if node in n.kids:
            return n
    return None


def text_of_hnode(src, n, mark=None):
    """C text of a harness subtree, rebuilt from the tokens' spellings (fully parenthesised); the node `mark` is wrapped
    in TR(…), which records whether it is evaluated and its truth value"""
    if n.kind == "L":
        t = core.unhx(n.what).decode("latin-1")
    elif n.kind == "V":
        t = ident_at(src, n.col)
    elif n.kind == "U":
        t = UNOPS[n.what] + "(" + text_of_hnode(src, n.kids[0], mark) + ")"
    else:
        t = "(" + text_of_hnode(src, n.kids[0], mark) + ") " + BINOPS[n.what] + " (" + text_of_hnode(src, n.kids[1], mark) + ")"
    return "TR(" + t + ")" if n is mark else t


REL_NAMES = ["same", "oppF", "oppT"]


def classify_rel(rel, flags):
    """known-finding key of a refuted in-process relation; `flags` = the model's side-condition letters of the two trees
    (annOK cmpSafe vtOK).  A refutation under all side conditions contradicts a theorem: never a known class."""
    f1, f2 = flags
    if rel == "oppF" and (f1[1] == "F" or f2[1] == "F"):
        return "F03b:isOppositeCond-known-values-inexact-comparison"
    return None


def c_eval_closed(n):
    """(type, value) of a constant harness subtree under C semantics (LP64); None = variable inside, undefined behaviour or
    an operator this little evaluator does not know"""
    def wrap(t, v):
        _, bits, sg = TYPES[t]
        v %= (1 << bits)
        return v - (1 << bits) if sg and v >= (1 << (bits - 1)) else v
    if n.kind == "L":
        return lit_type_value(core.unhx(n.what).decode("latin-1"))
    if n.kind == "V":
        return None
    ks = [c_eval_closed(k) for k in n.kids]
    if any(k is None for k in ks):
        return None
    if n.kind == "U":
        t, v = ks[0]
        if n.what == "lnot":
            return "s3", int(v == 0)
        t = promote_t(t)
        r = -v if n.what == "neg" else ~v
        if t[0] == "s" and not (tmin(t) <= r <= tmax(t)):
            return None
        return t, wrap(t, r)
    (ta, va), (tb, vb) = ks
    op = n.what
    if op in ("land", "lor"):
        return "s3", int((va != 0 and vb != 0) if op == "land" else (va != 0 or vb != 0))
    if op in ("shl", "shr", "div", "mod"):
        return None
    t = uac_t(ta, tb)
    x, y = wrap(t, va), wrap(t, vb)
    if op in CMPS:
        return "s3", int({"lt": x < y, "le": x <= y, "gt": x > y, "ge": x >= y, "eq": x == y, "ne": x != y}[op])
    r = {"add": x + y, "sub": x - y, "mul": x * y, "band": x & y, "bor": x | y, "bxor": x ^ y}.get(op)
    if r is None:
        return None
    if t[0] == "s" and not (tmin(t) <= r <= tmax(t)):
        return None
    return t, wrap(t, r)


def known_differs_from_c_value(n):
    """a constant, non-literal operand whose Known value (annotation k) is not its C value (as `long long`)"""
    if n.kind == "L" or n.k == "-":
        return False
    tv = c_eval_closed(n)
    if tv is None:
        return False
    v = tv[1]
    v64 = ((v + (1 << 63)) % (1 << 64)) - (1 << 63)
    return int(n.k) != v64


def signed_operand_in_or_chain(n):
    """a non-literal operand with a signed value type below a chain of `|` (the class of F03d: `comparison()` tests the sign
    of the first operand of the top `|` only)"""
    if n.kind == "B" and n.what == "bor":
        return any(signed_operand_in_or_chain(k) for k in n.kids)
    return n.kind != "L" and n.vt.startswith("s")


def classify_finding(fid, msg, cmpnode, src, flag):
    """known-finding key of a refuted in-process finding.  Inside the domain of a theorem (range_finding_sound_partial:
    annOK, cmpSafe, vtOK; comparison_finding_sound_partial: covered bit test, annOK, cmpSafe) a refutation is never a known
    class; the classes are narrowed to their failing inputs."""
    if any(known_differs_from_c_value(k) for k in cmpnode.kids):
        # the Known value of an unsigned constant expression is folded in 64 bits without wrap-around (C01 F5)
        return "F03f:constant-folded-without-unsigned-wrap"
    if fid == "compareValueOutOfTypeRangeError":
        return "F03e:compareValueOutOfTypeRange-inexact-comparison" if flag[1] == "F" else None
    if fid == "comparisonError":
        bit = cmpnode.kids[1] if cmpnode.kids[0].k != "-" else cmpnode.kids[0]
        if flag[1] == "F" or ("(X |" in msg and signed_operand_in_or_chain(bit)):
            return "F03d:comparison-bitop-inexact"
    return None


def claimed_bool(msg):
    if msg.endswith("always true."):
        return True
    if msg.endswith("always false."):
        return False
    return None


def consts_of(trees):
    out = set()
    for t in trees:
        for n in t.walk():
            if n.kind == "L":
                tv = lit_type_value(core.unhx(n.what).decode("latin-1"))
                if tv:
                    out.add(tv[1])
    return out


def env_str(vs_by_name, params, vec):
    """driver environment: varid=value for the variables that occur"""
    items = []
    for (name, t), v in zip(params, vec):
        if name in vs_by_name:
            items.append("%s=%d" % (vs_by_name[name], v))
    return ",".join(items) or "-"


def run_inprocess(ctx, res, n_pairs, n_inputs, corpus):
    rng = ctx.rng
    g = Gen(rng)
    exe = ctx.harness("c03")
    drv = ctx.driver("drv_c03")
    cases = []
    for item in corpus:
        cases.append(dict(lang=item["lang"], params=[tuple(p) for p in item["params"]], src=item["src"], corpus=item.get("name"),
                          inputs=item.get("inputs")))
    for i in range(n_pairs):
        params = g.params()
        c1, c2 = g.pair()
        lang = "cpp" if rng.random() < 0.4 else "c"
        cases.append(dict(lang=lang, params=params, src=source_of(params, c1, c2)))
    ops = ["conds %s %s" % (c["lang"], core.hx(c["src"])) for c in cases]
    rc, impl, err = core.run_lines(exe, [], ops)
    if len(impl) != len(ops):
        raise core.CheckBroken("c03 harness died: rc=%s %s" % (rc, err[-800:]))
    # stage 2: the model on the serialised trees
    dops, didx = [], []
    for i, (c, line) in enumerate(zip(cases, impl)):
        h = parse_harness_line(line)
        c["h"] = h
        if h is None:
            res.count("harness:" + line.split(":")[0][:40])
            continue
        st = sem_tables(c["src"], c["params"], h["trees"])
        if st is None:
            res.count("harness:sem-unresolved")
            c["h"] = None
            continue
        c["vars_s"], c["lits_s"], c["vs"] = st
        dops.append("case %s %s %s | %s" % (c["lang"], st[0], st[1], h["raw_trees"]))
        didx.append(i)
    rc, model, err = core.run_lines(drv, [], dops)
    if len(model) != len(dops):
        raise core.CheckBroken("drv_c03 died: rc=%s %s" % (rc, err[-800:]))
    impl_c, model_c, ops_c = [], [], []
    for j, i in enumerate(didx):
        c = cases[i]
        h = c["h"]
        mparts = model[j].split(" # ")
        c["flags"] = mparts[2].split() if len(mparts) == 3 else []
        impl_c.append("%s %s # %s" % (h["r12"], h["r21"], h["raw_findings"]))
        model_c.append(" # ".join(mparts[:2]))
        ops_c.append(dops[j])
        covered = c["flags"] and all(f == "TTT" for f in c["flags"])
        res.count("inprocess:theorem-hypotheses-hold" if covered else "inprocess:outside-hypotheses")
        for k, name in enumerate(REL_NAMES + ["oppExpr"]):
            if h["r12"][k] == "T" or h["r21"][k] == "T":
                res.count("inprocess:%s=true" % name)
        for f in h["findings"]:
            res.count("inprocess:" + f[0])

    def nontriv(op, out):
        return "T" in out.split(" # ")[0] or not out.endswith("# -")
    core.correspond(ctx, res, "isSame/isOpposite/comparison/typeRange in-process", ops_c, impl_c, model_c, nontrivial=nontriv)

    # ---- P_impl: every claim of the real code against native execution; C2: Lean semantics against native execution
    orc = Oracle(ctx)
    evalops, evalmeta = [], []
    for i in didx:
        c = cases[i]
        h = c["h"]
        trees = h["trees"]
        claims = []
        if len(trees) == 2:
            for k, name in enumerate(REL_NAMES):
                if h["r12"][k] == "T" or h["r21"][k] == "T":
                    claims.append(("rel", name))
        for (fid, col, msg) in h["findings"]:
            b = claimed_bool(msg)
            node = None
            for t in trees:
                n = find_node(t, col)
                if n is not None:
                    node = (t, n)
            if b is None or node is None:
                res.oblig("finding-location", False, "machinery", "cannot place %s@%d in %s" % (fid, col, c["src"]))
                continue
            par = parent_of(node[0], node[1])
            if par is None or par.kind != "B" or par.what not in CMPS:
                res.oblig("finding-location", False, "machinery", "parent of %s@%d is not a comparison in %s" % (fid, col, c["src"]))
                continue
            claims.append(("finding", fid, msg, b, par, trees.index(node[0])))
        c["claims"] = claims
        sample_sem = (i % 3 == 0)
        if not claims and not sample_sem:
            continue
        vecs = input_vectors(rng, c["params"], consts_of(trees), n_inputs)
        if c.get("inputs"):
            vecs = [list(v) for v in c["inputs"]] + vecs
        c["vecs"] = vecs
        c["calls"] = {}
        texts = [text_of_hnode(c["src"], t) for t in trees]
        for ti, tx in enumerate(texts):
            c["calls"]["cond%d" % ti] = orc.add(c["params"], tx, vecs)
        for cl in claims:
            if cl[0] == "finding":
                key = "cmp@%d" % cl[4].col
                if key not in c["calls"]:
                    # the comparison inside its condition: only the evaluations that really happen count
                    c["calls"][key] = orc.add(c["params"], text_of_hnode(c["src"], trees[cl[5]], mark=cl[4]), vecs)
        # Lean evaluator on the same inputs (roots only)
        byname = {}
        for t in trees:
            for n in t.walk():
                if n.kind == "V":
                    byname[ident_at(c["src"], n.col)] = n.what
        envs = ";".join(env_str(byname, c["params"], v) for v in vecs)
        for ti, t in enumerate(trees):
            evalops.append("eval %s %s %s | %s" % (c["vars_s"], c["lits_s"], envs, t.sexp()))
            evalmeta.append((i, ti))
    native = orc.run("inproc")
    rc, evout, err = core.run_lines(drv, [], evalops)
    if len(evout) != len(evalops):
        raise core.CheckBroken("drv_c03 (eval) died: rc=%s %s" % (rc, err[-800:]))
    # C2
    sem_mism, sem_n = [], 0
    for (i, ti), line in zip(evalmeta, evout):
        c = cases[i]
        first, n = c["calls"]["cond%d" % ti]
        vals = line.split(",")
        if len(vals) != n:
            sem_mism.append((c["src"], "driver: " + line[:200]))
            continue
        for j in range(n):
            kind, v = native[first + j]
            mine = vals[j]
            want = "ub" if kind == "ub" else "v:%d" % v
            sem_n += 1
            if mine == "ub" and want != "ub":
                # gcc evaluates some undefined expressions without executing the overflowing operation (`-c <= k` is
                # folded to `c >= -k`); such an input counts as not UB-free for P_impl
                res.count("semantics:lean-ub-gcc-folded")
                native[first + j] = ("ub", None)
            elif mine != want and not (mine.startswith("v:") and want.startswith("v:") and
                                       (int(mine[2:]) - int(want[2:])) % (1 << 64) == 0):
                sem_mism.append((c["src"], "cond%d input %s: lean %s gcc %s" % (ti, c["vecs"][j], mine, want)))
    res.evaluations += sem_n
    res.count("semantics:evaluations-vs-gcc", sem_n)
    res.oblig("correspondence:Lean semantics (eval) == gcc -fsanitize=undefined", not sem_mism, "correspondence",
              "" if not sem_mism else "%d differ; first: %s" % (len(sem_mism), sem_mism[0]))
    # P_impl
    for i in didx:
        c = cases[i]
        if not c.get("claims"):
            continue
        def val(key, j):
            first, n = c["calls"][key]
            return native[first + j]
        nvec = len(c["vecs"])
        for cl in c["claims"]:
            bad = None
            checked = 0
            for j in range(nvec):
                if cl[0] == "rel":
                    a, b = val("cond0", j), val("cond1", j)
                    if a[0] == "ub" or b[0] == "ub":
                        continue
                    checked += 1
                    ta, tb = a[1] != 0, b[1] != 0
                    ok = (ta == tb) if cl[1] == "same" else (not (ta and tb)) if cl[1] == "oppF" else (ta != tb)
                    if not ok:
                        bad = (j, a[1], b[1])
                        break
                else:
                    a = val("cmp@%d" % cl[4].col, j)
                    # the condition around the node must be UB-free as well (judged by gcc and by the Lean semantics: gcc
                    # folds some overflowing operations away)
                    if a[0] == "ub" or a[1] == 2 or val("cond%d" % cl[5], j)[0] == "ub":
                        continue
                    checked += 1
                    if (a[1] != 0) != cl[3]:
                        bad = (j, a[1], None)
                        break
            res.count("P_impl:claims-checked")
            res.count("P_impl:executions", checked)
            if bad is None:
                continue
            j = bad[0]
            inp = dict(zip([p[0] for p in c["params"]], c["vecs"][j]))
            if cl[0] == "rel":
                key = classify_rel(cl[1], c["flags"])
                what = ("in-process %s claimed by the real code for the conditions of `%s` but for %s the conditions evaluate to %s and %s "
                        "(UB-free, gcc)" % (cl[1], c["src"], inp, bad[1], bad[2]))
                rd = dict(kind="inprocess-rel", rel=cl[1], lang=c["lang"], params=c["params"], src=c["src"], input=c["vecs"][j])
            else:
                key = classify_finding(cl[1], cl[2], cl[4], c["src"], c["flags"][cl[5]])
                what = ("%s: `%s` reported for `%s` in `%s` but for %s it evaluates to %s (UB-free, gcc)" %
                        (cl[1], cl[2], text_of_hnode(c["src"], cl[4]), c["src"], inp, bad[1]))
                rd = dict(kind="inprocess-finding", id=cl[1], msg=cl[2], col=cl[4].col, lang=c["lang"], params=c["params"],
                          src=c["src"], input=c["vecs"][j])
            if cl[0] == "rel" and all(f == "TTT" for f in c["flags"]):
                key = None     # contradicts a theorem: model, semantics or tie is wrong - never absorbed by a known finding
            res.violation(what, rd, concrete=True, key=key)
    return cases, didx


# ------------------------------------------------------------------------------------------------------------------
# CLI tie: generated functions analysed by the built cppcheck binary; every verdict checked by native execution

class PNode:
    """condition tree node of a generated program with a unique id and, after printing, its (line, column)"""
    def __init__(self, tree, ids):
        self.kind = tree[0]
        self.id = len(ids)
        ids.append(self)
        self.line = self.col = None
        if self.kind in ("lit", "var"):
            self.text = tree[1]
            self.kids = []
        elif self.kind == "un":
            self.op = tree[1]
            self.kids = [PNode(tree[2], ids)]
        else:
            self.op = tree[1]
            self.kids = [PNode(tree[2], ids), PNode(tree[3], ids)]
        self.parent = None
        for k in self.kids:
            k.parent = self

    def plain(self, line, col0):
        """text without instrumentation; records the position (1-based column) of every node's token"""
        self.line = line
        if self.kind in ("lit", "var"):
            # a negative number is one token (`-` merged into the number) that keeps the column of the digits
            self.col = col0 + 1 if self.text.startswith("-") else col0
            return self.text
        if self.kind == "un":
            self.col = col0
            return UNOPS[self.op] + self.kids[0].wrapped(line, col0 + len(UNOPS[self.op]))
        l = self.kids[0].wrapped(line, col0)
        self.col = col0 + len(l) + 1
        sym = BINOPS[self.op]
        r = self.kids[1].wrapped(line, self.col + len(sym) + 1)
        return l + " " + sym + " " + r

    def wrapped(self, line, col0):
        if self.kind == "var" or (self.kind == "lit" and not self.text.startswith("-")):
            return self.plain(line, col0)
        return "(" + self.plain(line, col0 + 1) + ")"

    def traced(self):
        if self.kind == "lit":
            return self.text if not self.text.startswith("-") else "(" + self.text + ")"
        if self.kind == "var":
            inner = self.text
        elif self.kind == "un":
            inner = UNOPS[self.op] + self.kids[0].traced()
        else:
            inner = self.kids[0].traced() + " " + BINOPS[self.op] + " " + self.kids[1].traced()
        return "TR(%d, %s)" % (self.id, inner)


def promote_t(t):
    return "s3" if TYPES[t][1] < 32 else t


RANK = {"1": 0, "2": 1, "3": 2, "4": 3, "5": 4}


def uac_t(a, b):
    a, b = promote_t(a), promote_t(b)
    if a == b:
        return a
    sa, sb = a[0] == "s", b[0] == "s"
    if sa == sb:
        return b if RANK[a[1]] < RANK[b[1]] else a
    u, sg = (b, a) if sa else (a, b)
    if RANK[sg[1]] <= RANK[u[1]]:
        return u
    if TYPES[u][1] < TYPES[sg][1]:
        return sg
    return "u" + sg[1]


def ptype(n, ptypes):
    """static C type of a PNode"""
    if n.kind == "lit":
        tv = lit_type_value(n.text)
        return tv[0] if tv else "s3"
    if n.kind == "var":
        return ptypes[n.text]
    if n.kind == "un":
        return "s3" if n.op == "lnot" else promote_t(ptype(n.kids[0], ptypes))
    if n.op in CMPS or n.op in ("land", "lor"):
        return "s3"
    if n.op in ("shl", "shr"):
        return promote_t(ptype(n.kids[0], ptypes))
    return uac_t(ptype(n.kids[0], ptypes), ptype(n.kids[1], ptypes))


def hazards(n, ptypes, out=None):
    """integer-conversion hazards inside a condition: the constructs whose C semantics (modular unsigned arithmetic, signed
    to unsigned conversion, bit complement) differ from arithmetic on unbounded integers"""
    if out is None:
        out = set()
    if n.kind == "un":
        if n.op == "compl":
            out.add("complement")
        if n.op == "neg" and promote_t(ptype(n.kids[0], ptypes))[0] == "u":
            out.add("negated-unsigned")
    elif n.kind == "bin" and n.op not in ("land", "lor", "shl", "shr"):
        ta, tb = promote_t(ptype(n.kids[0], ptypes)), promote_t(ptype(n.kids[1], ptypes))
        t = uac_t(ta, tb)
        if t[0] == "u" and (ta[0] == "s" or tb[0] == "s"):
            out.add("signed-converted-to-unsigned")
        if t[0] == "u" and n.op in ("add", "sub", "mul"):
            out.add("unsigned-wrap")
        if n.op == "sub" and n.kids[0].kind == "lit" and n.kids[1].kind != "lit":
            out.add("const-minus-expr")
        if n.op == "mul" and (n.kids[0].kind == "lit") != (n.kids[1].kind == "lit"):
            out.add("mul-by-const")
        if n.op in ("eq", "ne"):
            for k, o in ((n.kids[0], n.kids[1]), (n.kids[1], n.kids[0])):
                tv = lit_type_value(k.text) if k.kind == "lit" else None
                if tv and tv[1] not in (0, 1) and (o.kind == "un" and o.op == "lnot" or o.kind == "bin" and (o.op in CMPS or o.op in ("land", "lor"))):
                    out.add("bool-compared-with-int")
    for k in n.kids:
        hazards(k, ptypes, out)
    return out


def iter_stmts(stmts):
    """every statement, depth first.  Kinds: ("raw", text) ("seq", [..]) ("if", cond, then, else|None)
    ("while", cond, body) ("for", init_text, cond, step_text, body)"""
    for st in stmts:
        yield st
        if st[0] == "seq":
            yield from iter_stmts(st[1])
        elif st[0] == "if":
            yield from iter_stmts(st[2])
            if st[3]:
                yield from iter_stmts(st[3])
        elif st[0] == "while":
            yield from iter_stmts(st[2])
        elif st[0] == "for":
            yield from iter_stmts(st[4])


def stmt_cond(st):
    return st[1] if st[0] in ("if", "while") else st[2] if st[0] == "for" else None


def stmt_texts(st):
    """the plain C texts of a statement that may write variables"""
    if st[0] == "raw":
        return [st[1]]
    if st[0] == "for":
        return [st[1], st[3]]
    return []


ASSIGN_RE = re.compile(r"^(?:(?:int|long)\s+)?([A-Za-z_]\w*)\s*(=|[-+*/%]=|<<=|>>=|\+\+|--)(.*)$")


def assignments(stmts):
    """(variable, operator, right-hand-side text) of every assignment statement / for-init / for-step"""
    out = []
    for st in iter_stmts(stmts):
        for t in stmt_texts(st):
            m = ASSIGN_RE.match(t.strip().rstrip(";"))
            if m and m.group(1) not in ("r", "return"):
                out.append((m.group(1), m.group(2), m.group(3)))
    return out


def func_ptypes(f):
    """types of the parameters and of the locals declared by `int v = …` / `long v = …` in raw statements and for-inits"""
    pt = dict(f["params"])
    for st in iter_stmts(f["stmts"]):
        for t in stmt_texts(st):
            m = re.match(r"^\s*(int|long)\s+([A-Za-z_]\w*)\s*=", t)
            if m:
                pt[m.group(2)] = "s3" if m.group(1) == "int" else "s4"
    return pt


class ProgGen:
    """one function: int fN(T a, T b, T c, T d) { int r = 0; <stmts> return r; }"""

    def __init__(self, g, ids):
        self.g = g
        self.rng = g.rng
        self.ids = ids

    def cond(self, tree):
        return PNode(tree, self.ids)

    COMPOUND = ["+=", "-=", "*=", "/=", "%=", "<<=", ">>=", "++", "--"]

    @staticmethod
    def apply_compound(op, k, c):
        """image of the constant k under `v op= c` (C semantics for / and %)"""
        if op == "+=":
            return k + c
        if op == "-=":
            return k - c
        if op == "*=":
            return k * c
        if op == "/=":
            return int(k / c) if c else k
        if op == "%=":
            return (abs(k) % c) * (1 if k >= 0 else -1) if c else k
        if op == "<<=":
            return k << c if k >= 0 else k
        if op == ">>=":
            return k >> c
        return k + 1 if op == "++" else k - 1

    @staticmethod
    def compound_text(v, op, c):
        return "%s%s;" % (v, op) if op in ("++", "--") else "%s %s %d;" % (v, op, c)

    def assign(self, v=None):
        r = self.rng
        v = v or r.choice("abcd")
        k = r.random()
        if k < 0.3:
            return ("raw", "%s = %s;" % (v, pr(self.g.term(1))))
        op = r.choice(self.COMPOUND)
        c = r.randrange(1, 4)
        if op == "*=" and r.random() < 0.15:
            c = r.choice([0, -1, -2])
        return ("raw", self.compound_text(v, op, c))

    def flow(self):
        """a condition on one variable, a compound assignment by a constant, a condition on the image of the constant:
        the shapes in which value flow carries (im)possible values and bounds through an assignment"""
        r = self.rng
        v = r.choice("abcd")
        k1 = r.randrange(-6, 11)
        cmp1, cmp2 = r.choice(CMPS), r.choice(CMPS)
        op = r.choice(self.COMPOUND)
        c = r.randrange(1, 4)
        k2 = self.apply_compound(op, k1, c) + r.choice([-1, 0, 0, 0, 1])
        c1 = ("bin", cmp1, ("var", v), ("lit", str(k1)))
        c2 = ("bin", cmp2, ("var", v), ("lit", str(k2)))
        if r.random() < 0.2:
            c2 = ("bin", FLIP_CMP[cmp2], ("lit", str(k2)), ("var", v))
        asg = ("raw", self.compound_text(v, op, c))
        inner = ("if", self.cond(c2), [self.mark()], None)
        if r.random() < 0.6:
            return ("if", self.cond(c1), [asg, inner], None)
        return ("seq", [("if", self.cond(c1), [("raw", "return %d;" % r.randrange(1, 50))], None), asg, inner])

    def mark(self):
        return ("raw", "r += %d;" % self.rng.randrange(1, 100))

    def stmts(self, depth):
        r = self.rng
        out = []
        for _ in range(r.randrange(1, 3)):
            out.append(self.stmt(depth))
        return out

    def stmt(self, depth):
        r = self.rng
        g = self.g
        k = r.random()
        if r.random() < 0.3:
            return self.flow()
        c1 = g.cond()
        c2 = g.mutate(c1)
        if r.random() < 0.3:
            c2 = g.mutate(c2)
        mid = [self.assign()] if r.random() < 0.25 else []
        if k < 0.40:   # nested
            inner = ("if", self.cond(c2), [self.mark()] + (self.stmts(depth + 1) if depth < 1 and r.random() < 0.3 else []), None)
            return ("if", self.cond(c1), mid + [inner] + ([self.mark()] if r.random() < 0.3 else []), None)
        if k < 0.60:   # early exit then the same / related condition
            return ("seq", [("if", self.cond(c1), [("raw", "return %d;" % r.randrange(1, 50))], None)] + mid +
                    [("if", self.cond(c2), [self.mark()], None)])
        if k < 0.80:   # else if
            return ("if", self.cond(c1), [self.mark()], [("if", self.cond(c2), [self.mark()], None)])
        if k < 0.92:
            return ("if", self.cond(c1), [self.mark()], None)
        return self.assign()

    def body(self):
        out = []
        for _ in range(self.rng.randrange(1, 4)):
            out.append(self.stmt(0))
        return out


def emit_stmts(stmts, ind, lines, tlines):
    """appends the plain lines (cppcheck) and the traced lines (gcc); every condition is printed on the line of its keyword"""
    pad = "  " * ind
    for st in stmts:
        if st[0] == "raw":
            lines.append(pad + st[1]); tlines.append(pad + st[1])
        elif st[0] == "seq":
            emit_stmts(st[1], ind, lines, tlines)
        elif st[0] == "while":
            head = pad + "while ("
            lines.append(head + st[1].plain(len(lines) + 1, len(head) + 1) + ") {")
            tlines.append(head + st[1].traced() + ") {")
            emit_stmts(st[2], ind + 1, lines, tlines)
            lines.append(pad + "}"); tlines.append(pad + "}")
        elif st[0] == "for":
            head = pad + "for (" + st[1] + "; "
            lines.append(head + st[2].plain(len(lines) + 1, len(head) + 1) + "; " + st[3] + ") {")
            tlines.append(head + st[2].traced() + "; " + st[3] + ") {")
            emit_stmts(st[4], ind + 1, lines, tlines)
            lines.append(pad + "}"); tlines.append(pad + "}")
        else:
            _, c, then, els = st
            head = pad + "if ("
            lines.append(head + c.plain(len(lines) + 1, len(head) + 1) + ") {")
            tlines.append(head + c.traced() + ") {")
            emit_stmts(then, ind + 1, lines, tlines)
            if els is None:
                lines.append(pad + "}"); tlines.append(pad + "}")
            else:
                # `} else if (…) {` : the else-if condition on the line of the `else`
                e = els[0]
                head = pad + "} else if ("
                lines.append(head + e[1].plain(len(lines) + 1, len(head) + 1) + ") {")
                tlines.append(head + e[1].traced() + ") {")
                emit_stmts(e[2], ind + 1, lines, tlines)
                lines.append(pad + "}"); tlines.append(pad + "}")


def flow_family():
    """deterministic functions run on every CLI batch of the first kind: for every compound assignment by a constant, a point
    / lower-bound / upper-bound fact established before it and tested on the image of the constant after it, nested and
    after an early return; inputs -9..9.  (On an analyser that carries facts through a non-invertible assignment these are
    the programs that show it.)"""
    V = lambda n: ["var", n]
    L = lambda k: ["lit", str(k)]
    B = lambda op, l, r: ["bin", op, l, r]
    mark = ["raw", "r += 1;"]
    params = [["a", "s3"], ["b", "s3"], ["c", "s3"], ["d", "s3"]]
    inputs = [[x, 0, 0, 0] for x in range(-9, 10)]
    items = []
    for op in ProgGen.COMPOUND:
        c = 2
        asg = ["raw", ProgGen.compound_text("a", op, c)]
        T = lambda k: ProgGen.apply_compound(op, k, c)
        shapes = [("point", B("ne", V("a"), L(6)), B("ne", V("a"), L(T(6))), B("eq", V("a"), L(6))),
                  ("lower", B("gt", V("a"), L(0)), B("gt", V("a"), L(T(0))), B("le", V("a"), L(0))),
                  ("upper", B("lt", V("a"), L(5)), B("ge", V("a"), L(T(5))), B("ge", V("a"), L(5)))]
        for name, c1, c2, notc1 in shapes:
            items.append(dict(name="flow %s %s nested" % (op, name), params=params, inputs=inputs,
                              stmts=[["if", c1, [asg, ["if", c2, [mark], None]], None]]))
            items.append(dict(name="flow %s %s after return" % (op, name), params=params, inputs=inputs,
                              stmts=[["seq", [["if", notc1, [["raw", "return 9;"]], None], asg, ["if", c2, [mark], None]]]]))
    return items


CLI_IDS = {"knownConditionTrueFalse", "oppositeInnerCondition", "identicalInnerCondition", "overlappingInnerCondition",
           "identicalConditionAfterEarlyExit", "comparisonError", "compareValueOutOfTypeRangeError", "multiCondition",
           "incorrectLogicOperator", "unsignedLessThanZero", "unsignedPositive", "badBitmaskCheck"}


def cli_claim(fid, msg):
    """-> (target, value): target 'node' = the token at the location, 'parent' = the comparison above it"""
    if fid == "knownConditionTrueFalse":
        m = re.search(r"is always (true|false)$", msg)
        return ("node", m.group(1) == "true") if m else None
    if fid == "oppositeInnerCondition":
        return ("node", False)
    if fid in ("identicalInnerCondition", "overlappingInnerCondition"):
        return ("node", True)
    if fid == "identicalConditionAfterEarlyExit":
        return ("node", False) if "second condition is always false" in msg else None
    if fid == "multiCondition":
        if "always false" in msg:
            return ("node", False)
        if "always true" in msg:
            return ("node", True)
        return None
    if fid == "incorrectLogicOperator":
        if msg.startswith("Logical disjunction always evaluates to true"):
            return ("node", True)
        if msg.startswith("Logical conjunction always evaluates to false"):
            return ("node", False)
        return None
    if fid in ("comparisonError", "compareValueOutOfTypeRangeError"):
        b = claimed_bool(msg)
        return ("parent", b) if b is not None else None
    if fid == "unsignedLessThanZero":
        return ("cmp", False)
    if fid == "unsignedPositive":
        return ("cmp", True)
    if fid == "badBitmaskCheck":
        return ("node", True) if "always true" in msg else None
    return None


def run_cli(ctx, res, n_funcs, n_inputs, corpus, lang="c"):
    rng = ctx.rng
    g = Gen(rng)
    gsafe = Gen(rng, safe=True)
    ids = []
    funcs = []
    for item in corpus:
        funcs.append(dict(params=[tuple(p) for p in item["params"]], stmts=None, raw=item, name=item.get("name")))
    for i in range(n_funcs):
        gg = gsafe if i % 2 == 0 else g
        pg = ProgGen(gg, ids)
        funcs.append(dict(params=gg.params(), stmts=pg.body(), safe=gg.safe))
    lines, tlines = [], []
    tlines += ["#include <stdio.h>", "#include <signal.h>", "#include <setjmp.h>",
               "static sigjmp_buf jb; static void onill(int s) { (void)s; siglongjmp(jb, 1); }",
               "static int nrec; static int recs[4096];",
               "static void rec(int id, int t) { if (nrec < 4096) recs[nrec++] = id * 2 + (t ? 1 : 0); }",
               "#define TR(id, e) ({ __typeof__(e) v_ = (e); rec(id, v_ != 0); v_; })"]
    for fi, f in enumerate(funcs):
        sig = "int f%d(%s) {" % (fi, ", ".join("%s %s" % (TYPES[t][0], n) for n, t in f["params"]))
        f["first_line"] = len(lines) + 1
        lines.append(sig); tlines.append("static " + sig)
        lines.append("  int r = 0;"); tlines.append("  int r = 0;")
        if f["stmts"] is None:
            # corpus function: conditions given as trees in a small statement language (see corpus/C03/cases.json)
            pg = ProgGen(g, ids)
            f["stmts"] = build_corpus_stmts(f["raw"]["stmts"], pg)
        emit_stmts(f["stmts"], 1, lines, tlines)
        lines.append("  return r;"); tlines.append("  return r;")
        lines.append("}"); tlines.append("}")
        f["last_line"] = len(lines)
    src = "\n".join(lines) + "\n"
    ext = ".c" if lang == "c" else ".cpp"
    spath = os.path.join(ctx.tmp, "cli_%s%s" % (lang, ext))
    open(spath, "w").write(src)
    rc, out, err = core.sh([ctx.cppcheck, "--enable=style,warning", "--platform=unix64", "--quiet", "--inline-suppr",
                            "--template={line}:{column}:{id}:{message}", spath], timeout=1200)
    findings = []
    for ln in (out + err).split("\n"):
        m = re.match(r"^(\d+):(\d+):(\w+):(.*)$", ln)
        if m:
            findings.append((int(m.group(1)), int(m.group(2)), m.group(3), m.group(4)))
    bypos = {}
    for n in ids:
        if n.line is not None:
            bypos[(n.line, n.col)] = n
    claims = []
    for (ln, col, fid, msg) in findings:
        res.count("cli:finding:" + fid)
        if fid not in CLI_IDS:
            continue
        cl = cli_claim(fid, msg)
        if cl is None:
            res.count("cli:no-truth-claim:" + fid)
            continue
        n = bypos.get((ln, col))
        if n is None:
            res.oblig("cli-finding-location", False, "machinery", "no condition token at %d:%d for %s: %s\n%s" % (ln, col, fid, msg, lines[ln - 1]))
            continue
        if n.kind == "lit" and n.parent is not None and n.parent.kind == "un" and n.parent.op == "neg":
            n = n.parent      # `-` followed by a number is one token for cppcheck
        target = n
        if cl[0] == "parent":
            target = n.parent
        elif cl[0] == "cmp":
            target = n if (n.kind == "bin" and n.op in CMPS) else n.parent
            # "less than zero" / "can't be negative" is a verdict only for `x < 0`, `0 > x` / `x >= 0`, `0 <= x`
            if target is not None and target.kind == "bin":
                zl = target.kids[0].kind == "lit" and lit_type_value(target.kids[0].text) and lit_type_value(target.kids[0].text)[1] == 0
                zr = target.kids[1].kind == "lit" and lit_type_value(target.kids[1].text) and lit_type_value(target.kids[1].text)[1] == 0
                strict = (fid == "unsignedLessThanZero" and ((target.op == "lt" and zr) or (target.op == "gt" and zl))) or \
                         (fid == "unsignedPositive" and ((target.op == "ge" and zr) or (target.op == "le" and zl)))
                if not strict:
                    res.count("cli:no-truth-claim:" + fid)
                    continue
        if target is None or (cl[0] != "node" and not (target.kind == "bin" and target.op in CMPS)):
            res.oblig("cli-finding-location", False, "machinery", "no comparison for %s at %d:%d: %s" % (fid, ln, col, lines[ln - 1]))
            continue
        claims.append(dict(line=ln, col=col, id=fid, msg=msg, node=target, value=cl[1]))
    # native execution of every function on its inputs
    main = ["int main(void) { signal(SIGILL, onill); signal(SIGFPE, onill); signal(SIGTRAP, onill);"]
    runs = []
    for fi, f in enumerate(funcs):
        vecs = input_vectors(rng, f["params"], set(consts_in_stmts(f["stmts"])), n_inputs)
        if f.get("raw") and f["raw"].get("inputs"):
            vecs = [list(v) for v in f["raw"]["inputs"]] + vecs
        f["vecs"] = vecs
        rows = ",".join("{" + ",".join("%dULL" % (v % (1 << 64)) for v in vec) + "}" for vec in vecs)
        args = ", ".join("(%s)t%d[k][%d]" % (TYPES[t][0], fi, j) for j, (n, t) in enumerate(f["params"]))
        tlines.append("static const unsigned long long t%d[%d][%d] = {%s};" % (fi, len(vecs), len(f["params"]), rows))
        main.append("  for (int k = 0; k < %d; ++k) { nrec = 0; if (sigsetjmp(jb, 1) == 0) { int r_ = f%d(%s); printf(\"D %d %%d %%d\", k, r_); "
                    "for (int i = 0; i < nrec; ++i) printf(\" %%d\", recs[i]); printf(\"\\n\"); } else printf(\"X %d %%d\\n\", k); }" %
                    (len(vecs), fi, args, fi, fi))
    main.append("  return 0; }")
    tpath = os.path.join(ctx.tmp, "cli_traced_%s.c" % lang)
    texe = os.path.join(ctx.tmp, "cli_traced_%s" % lang)
    open(tpath, "w").write("\n".join(tlines + main) + "\n")
    rc, out, err = core.sh(["gcc", "-std=gnu17", "-O0", "-w", "-fsanitize=undefined", "-fno-sanitize=alignment",
                            "-fsanitize-undefined-trap-on-error", tpath, "-o", texe], timeout=900)
    if rc != 0:
        raise core.CheckBroken("traced CLI program does not compile:\n" + (out + err)[-3000:])
    rc, out, err = core.sh([texe], timeout=600)
    seen = {}       # node id -> {truth: (function, vector index)}
    nruns = nub = 0
    for ln in out.split("\n"):
        p = ln.split()
        if not p:
            continue
        if p[0] == "X":
            nub += 1
            continue
        if p[0] != "D":
            continue
        nruns += 1
        fi, k = int(p[1]), int(p[2])
        for w in p[4:]:
            w = int(w)
            seen.setdefault(w // 2, {}).setdefault(w % 2, (fi, k))
    res.count("cli:functions", len(funcs))
    res.count("cli:runs-ub-free", nruns)
    res.count("cli:runs-with-ub", nub)
    res.evaluations += nruns
    for cl in claims:
        n = cl["node"]
        obs = seen.get(n.id, {})
        res.count("cli:claims-checked")
        canon = "cli|%s|%s|%s" % (cl["id"], cl["msg"], lines[cl["line"] - 1].strip())
        res.case(canon, True, dict(tie="cli", finding="%s: %s" % (cl["id"], cl["msg"]), line=lines[cl["line"] - 1].strip(),
                                   evaluated=sorted(obs.keys())) if len(res.samples) < 12 else None)
        res.traces_validated += 1
        wrong = 0 if cl["value"] else 1
        if wrong not in obs:
            continue
        fi, k = obs[wrong]
        f = funcs[fi]
        fsrc = "\n".join(lines[f["first_line"] - 1:f["last_line"]])
        inp = dict(zip([p[0] for p in f["params"]], f["vecs"][k]))
        key = classify_cli(cl, f, lines)
        what = ("cppcheck reports %s `%s` at line %d column %d (`%s`), but with %s the flagged expression evaluates to %s in a UB-free "
                "execution\n%s" % (cl["id"], cl["msg"], cl["line"] - f["first_line"] + 1, cl["col"], lines[cl["line"] - 1].strip(), inp,
                                   "true" if wrong else "false", fsrc))
        res.violation(what, dict(kind="cli", id=cl["id"], msg=cl["msg"], function=fsrc, params=f["params"], input=f["vecs"][k],
                                 stmts=spec_of_stmts(f["stmts"]), rel_line=cl["line"] - f["first_line"] + 1, col=cl["col"], lang=lang),
                      concrete=True, key=key)
    return funcs, claims, findings


def consts_in_stmts(stmts):
    out = []
    def walk_node(n):
        if n.kind == "lit":
            tv = lit_type_value(n.text)
            if tv:
                out.append(tv[1])
        for k in n.kids:
            walk_node(k)
    for st in iter_stmts(stmts):
        for t in stmt_texts(st):
            for m in re.finditer(r"-?\d+", t):
                out.append(int(m.group(0)))
        c = stmt_cond(st)
        if c is not None:
            walk_node(c)
    return out


def tree_of(n):
    if n.kind in ("lit", "var"):
        return [n.kind, n.text]
    if n.kind == "un":
        return ["un", n.op, tree_of(n.kids[0])]
    return ["bin", n.op, tree_of(n.kids[0]), tree_of(n.kids[1])]


def spec_of_stmts(stmts):
    out = []
    for st in stmts:
        if st[0] == "raw":
            out.append(["raw", st[1]])
        elif st[0] == "seq":
            out.append(["seq", spec_of_stmts(st[1])])
        elif st[0] == "while":
            out.append(["while", tree_of(st[1]), spec_of_stmts(st[2])])
        elif st[0] == "for":
            out.append(["for", st[1], tree_of(st[2]), st[3], spec_of_stmts(st[4])])
        else:
            out.append(["if", tree_of(st[1]), spec_of_stmts(st[2]), spec_of_stmts(st[3]) if st[3] else None])
    return out


def build_corpus_stmts(spec, pg):
    """corpus statement language: ["raw", text] | ["if", <tree>, [stmts], null | [stmts]] | ["seq", [stmts]] |
    ["while", <tree>, [stmts]] | ["for", init text, <tree>, step text, [stmts]]; trees as nested lists"""
    def tree(t):
        return tuple(tree(x) if isinstance(x, list) else x for x in t)
    out = []
    for st in spec:
        if st[0] == "raw":
            out.append(("raw", st[1]))
        elif st[0] == "seq":
            out.append(("seq", build_corpus_stmts(st[1], pg)))
        elif st[0] == "while":
            out.append(("while", pg.cond(tree(st[1])), build_corpus_stmts(st[2], pg)))
        elif st[0] == "for":
            out.append(("for", st[1], pg.cond(tree(st[2])), st[3], build_corpus_stmts(st[4], pg)))
        else:
            out.append(("if", pg.cond(tree(st[1])), build_corpus_stmts(st[2], pg), build_corpus_stmts(st[3], pg) if st[3] else None))
    return out


FLOW_IDS = {"knownConditionTrueFalse", "unsignedLessThanZero", "unsignedPositive", "badBitmaskCheck"}
PAIR_IDS = {"oppositeInnerCondition", "identicalInnerCondition", "overlappingInnerCondition", "identicalConditionAfterEarlyExit",
            "multiCondition", "incorrectLogicOperator"}


def node_vars(n, out=None):
    if out is None:
        out = set()
    if n.kind == "var":
        out.add(n.text)
    for k in n.kids:
        node_vars(k, out)
    return out


def root_of(node):
    while node.parent is not None:
        node = node.parent
    return node


def func_conds(f):
    return [stmt_cond(st) for st in iter_stmts(f["stmts"]) if stmt_cond(st) is not None]


def relevant_hazards(node, f):
    """hazards of the conditions the flagged node's verdict can depend on: its own condition, every condition of the function
    that shares a variable with it, and the assignments to those variables (with the variables on their right-hand sides)"""
    ptypes = func_ptypes(f)
    root = root_of(node)
    assigns = [(v, op, set(re.findall(r"\b[A-Za-z_]\w*\b", rhs))) for v, op, rhs in assignments(f["stmts"])]
    V = node_vars(root)
    for lhs, op, rhs in assigns:
        if lhs in V:
            V = V | (rhs & set(ptypes))
    out = set()
    for c in func_conds(f):
        if c is root or (node_vars(c) & V):
            hazards(c, ptypes, out)
    for lhs, op, rhs in assigns:
        if lhs in V and ptypes.get(lhs) not in ("s3", "s4"):
            out.add("assignment-to-narrow-or-unsigned")
    return out


def stale_self_reference(node, f):
    """the class of F03j: a variable v of the flagged condition is changed by `v -= k` / `v++` (any compound assignment or
    increment) somewhere in the function, and a condition of the function holds an `==` / `!=` whose two operands both mention
    v (value flow keeps the symbolic value `v == E(v)` across the compound assignment although E changes with v)"""
    V = node_vars(root_of(node))
    changed = {v for v, op, rhs in assignments(f["stmts"]) if op != "="}
    def selfref(n, v):
        if n.kind == "bin" and n.op in ("eq", "ne") and v in node_vars(n.kids[0]) and v in node_vars(n.kids[1]):
            return True
        return any(selfref(k, v) for k in n.kids)
    return any(v in changed and any(selfref(c, v) for c in func_conds(f)) for v in V)


def enclosing_loops(root, f):
    """the while / for statements whose body holds the statement with condition `root`"""
    out = []
    for st in iter_stmts(f["stmts"]):
        if st[0] in ("while", "for"):
            body = st[2] if st[0] == "while" else st[4]
            if any(stmt_cond(x) is root for x in iter_stmts(body)):
                out.append(st)
    return out


def has_lor(n):
    return (n.kind == "bin" and n.op == "lor") or any(has_lor(k) for k in n.kids)


def classify_loops_and_products(cl, f):
    """the classes of the findings F03k-F03o (loops, aliases, products); each is specific to its shape"""
    root = root_of(cl["node"])
    V = node_vars(root)
    asg = assignments(f["stmts"])
    loops = enclosing_loops(root, f)
    if cl["id"] == "identicalConditionAfterEarlyExit":
        # F03k: the "early exit" is a `break` / `continue` at the head of a loop body with the same condition
        for st in iter_stmts(f["stmts"]):
            if st[0] in ("while", "for"):
                body = st[2] if st[0] == "while" else st[4]
                if body and body[0][0] == "raw" and re.match(r"^(break|continue);", body[0][1]) and (node_vars(stmt_cond(st)) & V):
                    return "F03k:identicalConditionAfterEarlyExit-loop-break-is-no-exit"
    if cl["id"] in FLOW_IDS:
        for st in loops:
            if st[0] == "for" and has_lor(st[2]) and (node_vars(st[2]) & V):
                return "F03l:for-loop-condition-with-oror-bounds-the-loop-variable"
        for st in loops:
            if st[0] == "for":
                m = ASSIGN_RE.match(st[1].strip())
                if m and m.group(1) in V and m.group(2) == "=":
                    src_vars = set(re.findall(r"\b[A-Za-z_]\w*\b", m.group(3)))
                    for c in func_conds(f):
                        def eq_on(n):
                            return (n.kind == "bin" and n.op == "eq" and (node_vars(n) & src_vars)) or any(eq_on(k) for k in n.kids)
                        if c is not root and eq_on(c):
                            return "F03m:possible-value-of-if-eq-becomes-loop-start-value"
        for v, op, rhs in asg:
            if v in V and op == "*=" and re.match(r"^\s*(0|-\d+)\s*$", rhs):
                return "F03o:impossible-value-through-multiplication-by-zero-or-negative"
    if cl["id"] in FLOW_IDS:
        # F03p: `v = w;` (plain copy) between two occurrences of a comparison that mentions both v and w, v inside arithmetic
        def cmp_with(n, v, w):
            if n.kind == "bin" and n.op in CMPS and v in node_vars(n) and w in node_vars(n) and \
                    any(k.kind != "var" and v in node_vars(k) for k in n.kids):
                return True
            return any(cmp_with(k, v, w) for k in n.kids)
        for v, op, rhs in asg:
            w = rhs.strip()
            if op == "=" and re.match(r"^[A-Za-z_]\w*$", w) and w != v and cmp_with(root, v, w):
                return "F03p:known-comparison-survives-copy-assignment-of-operand"
    if cl["id"] == "oppositeInnerCondition" and loops:
        # F03n: the outer condition is on a copy (`int y = x;`), the inner one on x inside a loop that changes x
        copies = {(v, rhs.strip()) for v, op, rhs in asg if op == "=" and re.match(r"^\s*[A-Za-z_]\w*\s*$", rhs)}
        changed = {v for v, op, rhs in asg if op != "="}
        if any(src in V and src in changed for v, src in copies):
            return "F03n:oppositeInnerCondition-through-copy-and-loop-modification"
    return None


def classify_cli(cl, f, lines):
    """known-finding key of a refuted CLI verdict (None = not a listed class: reported as a new violation).
    The excuse is granted per flagged node (`relevant_hazards`), not per function.  The former classes F03a
    (isSameExpression), F03c (Known value on the left of a bit test) and F03i (`k - x`, `x * k` in a condition) are fixed
    in the code and are no classes any more."""
    k = classify_loops_and_products(cl, f)
    if k:
        return k
    if cl["id"] in FLOW_IDS and stale_self_reference(cl["node"], f):
        return "F03j:symbolic-value-self-reference-stale-after-compound-assignment"
    hz = relevant_hazards(cl["node"], f)
    conv = hz - {"bool-compared-with-int", "const-minus-expr", "mul-by-const"}
    if "bool-compared-with-int" in hz and cl["id"] in FLOW_IDS | PAIR_IDS:
        return "F03h:value-flow-bool-compared-with-constant-not-01"
    if not conv:
        return None
    if cl["id"] == "compareValueOutOfTypeRangeError":
        return "F03e:compareValueOutOfTypeRange-inexact-comparison"
    if cl["id"] == "comparisonError":
        return "F03d:comparison-bitop-inexact"
    if cl["id"] in PAIR_IDS:
        return "F03b:isOppositeCond-known-values-inexact-comparison"
    if cl["id"] in FLOW_IDS:
        return "F03g:value-flow-verdict-with-integer-conversion-hazard"
    return None


THEOREMS = ["Cppcheck.CondExpr.same_sound", "Cppcheck.CondExpr.same_sound_sim", "Cppcheck.CondExpr.same_sound_prefix_counterexample",
            "Cppcheck.CondExpr.opposite_sound_partial", "Cppcheck.CondExpr.opposite_not_sound",
            "Cppcheck.CondExpr.opposite_sound_counterexample",
            "Cppcheck.CondExpr.multiCondition_opposite_given_unmodified_partial",
            "Cppcheck.CondExpr.multiCondition_same_given_unmodified",
            "Cppcheck.CondExpr.outOfTypeRange_table_sound", "Cppcheck.CondExpr.outOfTypeRange_interval_sound",
            "Cppcheck.CondExpr.outOfTypeRange_sound_partial", "Cppcheck.CondExpr.outOfTypeRange_counterexample",
            "Cppcheck.CondExpr.bitand_compare_table_sound", "Cppcheck.CondExpr.bitor_compare_table_sound",
            "Cppcheck.CondExpr.bitand_compare_sound_partial", "Cppcheck.CondExpr.bitand_compare_sound_left_partial",
            "Cppcheck.CondExpr.bitor_compare_sound_partial", "Cppcheck.CondExpr.bitor_compare_sound_left_partial",
            "Cppcheck.CondExpr.bitor_compare_counterexample", "Cppcheck.CondExpr.bit_compare_prefix_counterexample",
            "Cppcheck.CondExpr.findings_mem", "Cppcheck.CondExpr.finding_msg_verdict",
            "Cppcheck.CondExpr.range_finding_sound_partial", "Cppcheck.CondExpr.comparison_finding_sound_partial",
            "Cppcheck.CondExpr.eval_inRange"]


def load_corpus():
    cpath = os.path.join(core.VERIF, "corpus", "C03", "cases.json")
    if os.path.exists(cpath):
        return json.load(open(cpath))
    return {}


def run(ctx, res):
    import time
    t0 = time.time()
    core.prove(ctx, res, MODULES, THEOREMS)
    t1 = time.time()
    quick = ctx.tier != "thorough"
    corpus = load_corpus()
    run_inprocess(ctx, res, 500 if quick else 8000, 24 if quick else 40, corpus.get("inprocess", []))
    t2 = time.time()
    # batches keep the instrumented translation units small (gcc's time and memory grow faster than linearly)
    run_cli(ctx, res, 80 if quick else 250, 24 if quick else 32, corpus.get("cli", []) + flow_family(), "c")
    if not quick:
        for _ in range(4):
            run_cli(ctx, res, 250, 32, [], "c")
        for _ in range(2):
            run_cli(ctx, res, 250, 32, [], "cpp")
    t3 = time.time()
    res.assumptions = [
        "theorem hypotheses (decidable, printed per case by drv_c03): annOK (annotations agree with the C semantics; excludes "
        "context-dependent Known values), cmpSafe (comparisons with a Known operand are exact; excludes F03b/F03e), vtOK, "
        "bitShape (x & n, n & x, unsigned x | n) for the Expr-level comparisonError theorem, S.lval \"0\" = 0",
        "the fuel size e1 + size e2 of isSame / isOpp is sufficient (argued, not proved; exhaustion returns false = the conservative side)",
        "multiCondition_*_given_unmodified: no variable of the outer condition is written between the conditions (the code's "
        "modification scan is outside the model)",
        "C semantics = LP64 (unix64), gcc 12 -fsanitize=undefined (trap mode) as execution oracle",
    ]
    res.extra["phase_s"] = dict(lean=round(t1 - t0, 1), inprocess=round(t2 - t1, 1), cli=round(t3 - t2, 1))


def replay(ctx, res, rd):
    """re-run one stored case; 1 = it still fails"""
    kind = rd.get("kind")
    if kind in ("inprocess-rel", "inprocess-finding"):
        item = dict(lang=rd["lang"], params=rd["params"], src=rd["src"], inputs=[rd["input"]], name="replay")
        run_inprocess(ctx, res, 0, 8, [item])
    elif kind == "cli":
        item = dict(params=rd["params"], stmts=rd["stmts"], inputs=[rd["input"]], name="replay")
        run_cli(ctx, res, 0, 8, [item], rd.get("lang", "c"))
    else:
        print("replay: nothing to run for this file (no concrete input stored)")
        return 0
    for v in res.violations:
        print("still fails: " + v["what"][:700])
    print("replay: %d violation(s)" % len(res.violations))
    return 1 if res.violations else 0

"""C05 — results are invariant under meaning-preserving rewrites (partial: level "other").

Obligations
  theorems   Cppcheck.C05.*  (Lean): pattern matching is equivariant under spelling maps that respect the strings a pattern
             compares with (documented language, compiled and interpreted matcher); every pattern literal of lib/*.cpp is
             equivariant under every renaming that avoids `Gen.Reserved.reserved`; simplecpp's lexer is layout-insensitive on
             well-formed layouts (see docs/C05.md for the statements)
  T1         Gen/Reserved.lean = every pattern literal the repo's own matchcompiler sees in lib/*.cpp + every string literal
             compared with str()/strAt()/originalName(); the python extraction of the reserved set is compared with the
             set the Lean definition computes (driver)
  C1         in-process simplecpp::TokenList vs. the Lean lexer (token spellings, line, column, flags) on generated sources
  C2         the model's layout function vs. the real lexer on generated layouts (tokens + positions of render L)
  C3         real interpreted Token::Match on renamed token lists vs. the original lists (P_impl of part 1) and vs. the model
  M          CLI metamorphic pairs (validation + search only): layout edits, consistent renaming, reordering of
             independent function definitions; findings compared as multisets under the location / name map
P_impl       findings(rewrite(P)) == map(findings(P))   on the real binary, --enable=all --inconclusive
"""
import collections, concurrent.futures, glob, hashlib, json, os, re, subprocess, time
from .. import core, build_repo
from . import c33

ID = "C05"
LEVEL = "other"
RULE = ("cases = (a) sources for the lexer tie: generated C token streams with random layout (spaces, tabs, newlines, CRLF, // and "
        "/* */ comments, glued and separated operators, floats, literals with escapes/prefixes), non-trivial = >= 3 tokens and a "
        "comment or a multi-character operator or a literal; (b) (pattern, token list, renaming) triples, non-trivial = the "
        "renaming changes a token of the list; (c) CLI pairs (generated C program with planted findings, rewritten variant: layout / "
        "rename / reorder), non-trivial = the original has >= 1 finding and the rewrite changed the text")
EXPLANATION = ("Proved (Lean, unbounded): Token::Match's documented language, the compiled and the interpreted matcher give the same "
               "verdict on a token list and on its renamed copy whenever the spelling map respects the strings the pattern compares "
               "with; every pattern literal in lib/*.cpp is equivariant under every renaming that avoids the extracted reserved set; "
               "simplecpp's readfile+combineOperators+removeComments yields the same token spellings, at the positions the layout "
               "function predicts, for every well-formed layout of a token sequence (so any two layouts of the same tokens lex alike). "
               "Only sampled (CLI metamorphic pairs, never part of a proof): everything behind the token stream - dependence on names "
               "through ordered containers keyed by name, str() comparisons outside patterns, name-prefix tests, symbol-database "
               "definition order, value flow. Token classification (tokType/isName/varId) is assumed unchanged by the renaming.")
THEOREMS = []   # filled below
MODULES = ["Cppcheck.Props.C05"]


class Unrecognised(Exception):
    pass


# ---- translator ------------------------------------------------------------------------------------------------------
def cxx_unescape(s):
    """value of the inside of a C++ narrow string literal (closed set of escapes; fail closed)"""
    out, i = [], 0
    simple = {"n": "\n", "t": "\t", "\\": "\\", '"': '"', "'": "'", "0": "\0", "r": "\r", "a": "\a", "b": "\b", "f": "\f", "v": "\v", "?": "?"}
    while i < len(s):
        c = s[i]
        if c == "\\":
            if i + 1 >= len(s):
                raise Unrecognised("dangling backslash in %r" % s)
            d = s[i + 1]
            if d in simple and not (d == "0" and i + 2 < len(s) and s[i + 2].isdigit()):
                out.append(simple[d]); i += 2
            elif d == "x":
                m = re.match(r"[0-9a-fA-F]{1,2}", s[i + 2:])
                if not m:
                    raise Unrecognised("escape in %r" % s)
                out.append(chr(int(m.group(0), 16))); i += 2 + len(m.group(0))
            elif d in "01234567":
                m = re.match(r"[0-7]{1,3}", s[i + 1:])
                out.append(chr(int(m.group(0), 8) & 255)); i += 1 + len(m.group(0))
            else:
                raise Unrecognised("escape \\%s in %r" % (d, s))
        else:
            out.append(c); i += 1
    return "".join(out)


def strip_comments(s):
    """blank out // and /* */ comments and char literals, keep string literals"""
    out, i, n = [], 0, len(s)
    while i < n:
        c = s[i]
        if s.startswith("//", i):
            j = s.find("\n", i)
            i = n if j < 0 else j
        elif s.startswith("/*", i):
            j = s.find("*/", i + 2)
            i = n if j < 0 else j + 2
            out.append(" ")
        elif c == '"':
            j = i + 1
            while j < n and s[j] != '"':
                j += 2 if s[j] == "\\" else 1
            out.append(s[i:j + 1]); i = j + 1
        elif c == "'":
            j = i + 1
            while j < n and s[j] != "'" and j - i < 6:
                j += 2 if s[j] == "\\" else 1
            if j < n and s[j] == "'":
                out.append("' '"); i = j + 1
            else:
                out.append(c); i += 1      # digit separator
        elif c == "R" and s.startswith('R"', i) and (i == 0 or not (s[i - 1].isalnum() or s[i - 1] == "_")):
            m = re.match(r'R"([^()\\ ]{0,16})\(', s[i:])
            if m:
                end = s.find(")" + m.group(1) + '"', i)
                i = n if end < 0 else end + len(m.group(1)) + 2
                out.append('""')
            else:
                out.append(c); i += 1
        else:
            out.append(c); i += 1
    return "".join(out)


STRLIT = r'"((?:[^"\\\n]|\\.)*)"'
CMP_FWD = re.compile(r'(?:\bstr\(\)|\bstrAt\([^()]*\)|\boriginalName\(\))\s*(?:==|!=)\s*' + STRLIT)
CMP_REV = re.compile(STRLIT + r'\s*(?:==|!=)\s*[\w>.()-]*?(?:\bstr\(\)|\bstrAt\([^()]*\)|\boriginalName\(\))')
CMP_ANY = re.compile(r'(?:\bstr\(\)|\bstrAt\([^()]*\)|\boriginalName\(\))\s*(?:==|!=)\s*(\S)')
IDENT = re.compile(r"^[A-Za-z_$][A-Za-z_0-9$]*$")
WORD = re.compile(r"[A-Za-z_][A-Za-z_0-9]*")

C_KEYWORDS = """alignas alignof and and_eq asm auto bitand bitor bool break case catch char char8_t char16_t char32_t class compl concept const
consteval constexpr constinit const_cast continue co_await co_return co_yield decltype default delete do double dynamic_cast else enum
explicit export extern false float for friend goto if inline int long mutable namespace new noexcept not not_eq nullptr operator or or_eq
private protected public register reinterpret_cast requires return short signed sizeof static static_assert static_cast struct switch
template this thread_local throw true try typedef typeid typename union unsigned using virtual void volatile wchar_t while xor xor_eq
restrict _Bool _Complex _Imaginary _Alignas _Alignof _Atomic _Generic _Noreturn _Static_assert _Thread_local final override NULL
main argc argv""".split()


def extract(ctx):
    """all extraction from the working tree: patterns, compared literals, identifier-like literals, cfg words"""
    src = c33.scan_sources(ctx)
    pats = []
    for s in src:
        pats.append(cxx_unescape(s["pattern"]))
    patterns = sorted(set(pats))
    cmp_lits, id_lits = set(), set()
    shapes = collections.Counter()
    for f in sorted(glob.glob(os.path.join(core.REPO, "lib", "*.cpp")) + glob.glob(os.path.join(core.REPO, "lib", "*.h"))):
        text = strip_comments(open(f, encoding="utf-8", errors="replace").read())
        for m in CMP_FWD.finditer(text):
            cmp_lits.add(cxx_unescape(m.group(1)))
        for m in CMP_REV.finditer(text):
            cmp_lits.add(cxx_unescape(m.group(1)))
        for m in CMP_ANY.finditer(text):
            shapes["literal" if m.group(1) == '"' else "non-literal"] += 1
        for m in re.finditer(STRLIT, text):
            try:
                v = cxx_unescape(m.group(1))
            except Unrecognised:
                continue
            for w in v.split():
                if IDENT.match(w):
                    id_lits.add(w)
            if IDENT.match(v):
                id_lits.add(v)
    cfg_words = set()
    for w in WORD.findall(open(os.path.join(core.REPO, "cfg", "std.cfg"), encoding="utf-8", errors="replace").read()):
        cfg_words.add(w)
    return dict(patterns=patterns, call_sites=len(src), cmp_lits=sorted(cmp_lits), id_lits=sorted(id_lits),
                cfg_words=sorted(cfg_words), shapes=dict(shapes))


def lean_str(s):
    out = ['"']
    for ch in s:
        o = ord(ch)
        if ch == '"':
            out.append('\\"')
        elif ch == "\\":
            out.append("\\\\")
        elif 32 <= o < 127:
            out.append(ch)
        else:
            out.append("\\x%02x" % o)
    out.append('"')
    return "".join(out)


def lean_list(name, items, chunk=150):
    parts = []
    names = []
    for k in range(0, max(len(items), 1), chunk):
        nm = "%s_%d" % (name, k // chunk)
        names.append(nm)
        parts.append("def %s : List String := [\n  %s]\n" % (nm, ",\n  ".join(lean_str(x) for x in items[k:k + chunk])))
    parts.append("def %s : List Str := (%s).map String.toList\n" % (name, " ++ ".join(names)))
    return "\n".join(parts)


def gen_text(ex):
    return ("import Cppcheck.Model.MatchEquiv\n"
            "/- GENERATED by vlib/props/c05.py from /repo's working tree on every run - do not edit.\n"
            "   patterns    = every pattern literal tools/matchcompiler.py sees in lib/*.cpp (%d call sites, %d distinct)\n"
            "   strLiterals = every string literal compared with str()/strAt()/originalName() in lib/*.cpp, lib/*.h (%d)\n-/\n"
            "namespace Cppcheck.Gen.Reserved\nopen Cppcheck.Wire\n\n%s\n%s\n"
            "/-- spellings a renaming must leave alone: computed from the two tables by the Lean definition -/\n"
            "def reserved : List Str := Cppcheck.MatchEquiv.reservedOf patterns strLiterals\n\n"
            "end Cppcheck.Gen.Reserved\n") % (ex["call_sites"], len(ex["patterns"]), len(ex["cmp_lits"]),
                                               lean_list("patterns", ex["patterns"]), lean_list("strLiterals", ex["cmp_lits"]))


_EX = {}


def translate(ctx):
    ex = extract(ctx)
    ctx.write_gen("Reserved", gen_text(ex))
    _EX["ex"] = ex
    return ex


def run(ctx, res):
    raise core.CheckBroken("C05 under construction")

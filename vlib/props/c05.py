"""C05 — results are invariant under meaning-preserving rewrites (partial: level "other").

Obligations
  theorems   Cppcheck.C05.*  (Lean): pattern matching is equivariant under spelling maps that respect the strings a pattern
             compares with (documented language, compiled and interpreted matcher); every pattern literal of lib/*.cpp is
             equivariant under every renaming that avoids `Gen.Reserved.reserved`; simplecpp's lexer is layout-insensitive on
             well-formed layouts (see docs/C05.md for the statements)
  T1         Gen/Reserved.lean = every pattern literal the repo's own matchcompiler sees in lib/*.cpp + every string literal
             compared with str()/strAt()/originalName(); the python extraction of the reserved set is compared with the
             set the Lean definition computes (driver)
  C1         in-process simplecpp::TokenList vs. the Lean lexer (token spellings, line, column, flags) on generated sources
  C2         the model's layout function vs. the real lexer on generated layouts (tokens + positions of render L)
  C3         real interpreted Token::Match on renamed token lists vs. the original lists (P_impl of part 1) and vs. the model
  M          CLI metamorphic pairs (validation + search only): layout edits, consistent renaming, reordering of
             independent function definitions; findings compared as multisets under the location / name map
P_impl       findings(rewrite(P)) == map(findings(P))   on the real binary, --enable=all --inconclusive
"""
import collections, concurrent.futures, glob, hashlib, json, os, re, subprocess, time
from .. import core, build_repo
from . import c33

ID = "C05"
LEVEL = "other"
RULE = ("cases = (a) sources for the lexer tie: generated C token streams with random layout (spaces, tabs, newlines, CRLF, // and "
        "/* */ comments, glued and separated operators, floats, literals with escapes/prefixes), non-trivial = >= 3 tokens and a "
        "comment or a multi-character operator or a literal; (b) (pattern, token list, renaming) triples, non-trivial = the "
        "renaming changes a token of the list; (c) CLI pairs (generated C program with planted findings, rewritten variant: layout / "
        "rename / reorder), non-trivial = the original has >= 1 finding and the rewrite changed the text")
EXPLANATION = ("Proved (Lean, unbounded): Token::Match's documented language, the compiled and the interpreted matcher give the same "
               "verdict on a token list and on its renamed copy whenever the spelling map respects the strings the pattern compares "
               "with; every pattern literal in lib/*.cpp is equivariant under every renaming that avoids the extracted reserved set; "
               "simplecpp's readfile+combineOperators+removeComments yields the same token spellings, at the positions the layout "
               "function predicts, for every well-formed layout of a token sequence (so any two layouts of the same tokens lex alike). "
               "Inserting / removing comments and joining / splitting lines have NO theorem: comment tokens take part in combineOperators "
               "(proved counterexample comment_line_insertion_not_neutral = open finding F05d, valid C++); these families are sampled on "
               "the real lexer and by CLI pairs. "
               "Definition order: a check of the shape `flatMap verdict` over the definitions is Perm-invariant (perFunction_perm_invariant); "
               "CheckExceptionSafety::nothrowThrows is modelled, proved invariant and tied on C++ call-graph programs; a translator guard lists the "
               "containers check entry points carry across functions (fail closed on a new one). "
               "Only sampled (CLI metamorphic pairs, never part of a proof): everything behind the token stream - dependence on names "
               "through ordered containers keyed by name, str() comparisons outside patterns, name-prefix tests, symbol-database "
               "definition order, value flow. Token classification (tokType/isName/varId) is assumed unchanged by the renaming.")
THEOREMS = ["Cppcheck.C05.lexRaw_of_layout", "Cppcheck.C05.tokens_of_layout", "Cppcheck.C05.combine_relocation", "Cppcheck.C05.lexer_layout",
            "Cppcheck.C05.lexer_layout_lineShift", "Cppcheck.C05.comment_line_insertion_not_neutral", "Cppcheck.C05.executable_scope_probe_dead", "Cppcheck.C05.perFunction_perm_invariant", "Cppcheck.C05.nothrowThrows_perm_invariant",
            "Cppcheck.C05.sharedMemo_order_dependent",
            "Cppcheck.C05.match_equivariant", "Cppcheck.C05.match_equivariant_compiled", "Cppcheck.C05.match_equivariant_interpreted",
            "Cppcheck.C05.findmatch_equivariant", "Cppcheck.C05.renaming_equivariant", "Cppcheck.C05.all_source_patterns_equivariant",
            "Cppcheck.C05.all_source_patterns_equivariant_compiled"]
MODULES = ["Cppcheck.Props.C05"]


class Unrecognised(Exception):
    pass


# ---- translator ------------------------------------------------------------------------------------------------------
def cxx_unescape(s):
    """value of the inside of a C++ narrow string literal (closed set of escapes; fail closed)"""
    out, i = [], 0
    simple = {"n": "\n", "t": "\t", "\\": "\\", '"': '"', "'": "'", "0": "\0", "r": "\r", "a": "\a", "b": "\b", "f": "\f", "v": "\v", "?": "?"}
    while i < len(s):
        c = s[i]
        if c == "\\":
            if i + 1 >= len(s):
                raise Unrecognised("dangling backslash in %r" % s)
            d = s[i + 1]
            if d in simple and not (d == "0" and i + 2 < len(s) and s[i + 2].isdigit()):
                out.append(simple[d]); i += 2
            elif d == "x":
                m = re.match(r"[0-9a-fA-F]{1,2}", s[i + 2:])
                if not m:
                    raise Unrecognised("escape in %r" % s)
                out.append(chr(int(m.group(0), 16))); i += 2 + len(m.group(0))
            elif d in "01234567":
                m = re.match(r"[0-7]{1,3}", s[i + 1:])
                out.append(chr(int(m.group(0), 8) & 255)); i += 1 + len(m.group(0))
            else:
                raise Unrecognised("escape \\%s in %r" % (d, s))
        else:
            out.append(c); i += 1
    return "".join(out)


def strip_comments(s):
    """blank out // and /* */ comments and char literals, keep string literals"""
    out, i, n = [], 0, len(s)
    while i < n:
        c = s[i]
        if s.startswith("//", i):
            j = s.find("\n", i)
            i = n if j < 0 else j
        elif s.startswith("/*", i):
            j = s.find("*/", i + 2)
            i = n if j < 0 else j + 2
            out.append(" ")
        elif c == '"':
            j = i + 1
            while j < n and s[j] != '"':
                j += 2 if s[j] == "\\" else 1
            out.append(s[i:j + 1]); i = j + 1
        elif c == "'":
            j = i + 1
            while j < n and s[j] != "'" and j - i < 6:
                j += 2 if s[j] == "\\" else 1
            if j < n and s[j] == "'":
                out.append("' '"); i = j + 1
            else:
                out.append(c); i += 1      # digit separator
        elif c == "R" and s.startswith('R"', i) and (i == 0 or not (s[i - 1].isalnum() or s[i - 1] == "_")):
            m = re.match(r'R"([^()\\ ]{0,16})\(', s[i:])
            if m:
                end = s.find(")" + m.group(1) + '"', i)
                i = n if end < 0 else end + len(m.group(1)) + 2
                out.append('""')
            else:
                out.append(c); i += 1
        else:
            out.append(c); i += 1
    return "".join(out)


STRLIT = r'"((?:[^"\\\n]|\\.)*)"'
CMP_FWD = re.compile(r'(?:\bstr\(\)|\bstrAt\([^()]*\)|\boriginalName\(\))\s*(?:==|!=)\s*' + STRLIT)
CMP_REV = re.compile(STRLIT + r'\s*(?:==|!=)\s*[\w>.()-]*?(?:\bstr\(\)|\bstrAt\([^()]*\)|\boriginalName\(\))')
CMP_ANY = re.compile(r'(?:\bstr\(\)|\bstrAt\([^()]*\)|\boriginalName\(\))\s*(?:==|!=)\s*(\S)')
IDENT = re.compile(r"^[A-Za-z_$][A-Za-z_0-9$]*$")
WORD = re.compile(r"[A-Za-z_][A-Za-z_0-9]*")

C_KEYWORDS = """alignas alignof and and_eq asm auto bitand bitor bool break case catch char char8_t char16_t char32_t class compl concept const
consteval constexpr constinit const_cast continue co_await co_return co_yield decltype default delete do double dynamic_cast else enum
explicit export extern false float for friend goto if inline int long mutable namespace new noexcept not not_eq nullptr operator or or_eq
private protected public register reinterpret_cast requires return short signed sizeof static static_assert static_cast struct switch
template this thread_local throw true try typedef typeid typename union unsigned using virtual void volatile wchar_t while xor xor_eq
restrict _Bool _Complex _Imaginary _Alignas _Alignof _Atomic _Generic _Noreturn _Static_assert _Thread_local final override NULL
main argc argv""".split()


def extract(ctx):
    """all extraction from the working tree: patterns, compared literals, identifier-like literals, cfg words"""
    src = c33.scan_sources(ctx)
    pats = []
    for s in src:
        pats.append(cxx_unescape(s["pattern"]))
    patterns = sorted(set(pats))
    cmp_lits, id_lits = set(), set()
    shapes = collections.Counter()
    for f in sorted(glob.glob(os.path.join(core.REPO, "lib", "*.cpp")) + glob.glob(os.path.join(core.REPO, "lib", "*.h"))):
        text = strip_comments(open(f, encoding="utf-8", errors="replace").read())
        for m in CMP_FWD.finditer(text):
            cmp_lits.add(cxx_unescape(m.group(1)))
        for m in CMP_REV.finditer(text):
            cmp_lits.add(cxx_unescape(m.group(1)))
        for m in CMP_ANY.finditer(text):
            shapes["literal" if m.group(1) == '"' else "non-literal"] += 1
        for m in re.finditer(STRLIT, text):
            try:
                v = cxx_unescape(m.group(1))
            except Unrecognised:
                continue
            for w in v.split():
                if IDENT.match(w):
                    id_lits.add(w)
            if IDENT.match(v):
                id_lits.add(v)
    cfg_words = set()
    for w in WORD.findall(open(os.path.join(core.REPO, "cfg", "std.cfg"), encoding="utf-8", errors="replace").read()):
        cfg_words.add(w)
    return dict(patterns=patterns, call_sites=len(src), cmp_lits=sorted(cmp_lits), id_lits=sorted(id_lits),
                cfg_words=sorted(cfg_words), shapes=dict(shapes))


def lean_str(s):
    out = ['"']
    for ch in s:
        o = ord(ch)
        if ch == '"':
            out.append('\\"')
        elif ch == "\\":
            out.append("\\\\")
        elif 32 <= o < 127:
            out.append(ch)
        else:
            out.append("\\x%02x" % o)
    out.append('"')
    return "".join(out)


def lean_list(name, items, chunk=150):
    parts = []
    names = []
    for k in range(0, max(len(items), 1), chunk):
        nm = "%s_%d" % (name, k // chunk)
        names.append(nm)
        parts.append("def %s : List String := [\n  %s]\n" % (nm, ",\n  ".join(lean_str(x) for x in items[k:k + chunk])))
    parts.append("def %s : List Str := (%s).map String.toList\n" % (name, " ++ ".join(names)))
    return "\n".join(parts)


def gen_text(ex):
    return ("import Cppcheck.Model.MatchEquiv\n"
            "/- GENERATED by vlib/props/c05.py from /repo's working tree on every run - do not edit.\n"
            "   patterns    = every pattern literal tools/matchcompiler.py sees in lib/*.cpp (%d call sites, %d distinct)\n"
            "   strLiterals = every string literal compared with str()/strAt()/originalName() in lib/*.cpp, lib/*.h (%d)\n-/\n"
            "namespace Cppcheck.Gen.Reserved\nopen Cppcheck.Wire\n\n%s\n%s\n"
            "/-- spellings a renaming must leave alone: computed from the two tables by the Lean definition -/\n"
            "def reserved : List Str := Cppcheck.MatchEquiv.reservedOf patterns strLiterals\n\n"
            "end Cppcheck.Gen.Reserved\n") % (ex["call_sites"], len(ex["patterns"]), len(ex["cmp_lits"]),
                                               lean_list("patterns", ex["patterns"]), lean_list("strLiterals", ex["cmp_lits"]))


# ---- generated C programs (token lines) ------------------------------------------------------------------------------
TOKRE = re.compile(r"""[A-Za-z_$][A-Za-z_0-9$]*|\d[\w.]*|"(?:[^"\\]|\\.)*"|'(?:[^'\\]|\\.)*'|<<=|>>=|\.\.\.|->|\+\+|--|<<|>>|<=|>=|==|!=|&&|\|\||[-+*/%&|^]=|\S""")

# each template: list of blocks; a block = (kind, lines).  kind "struct" | "func".  $names are instantiated per use;
# names starting with $F are functions (prototype derived from the first line of the block).
TEMPLATES = {
    "nullPointer": [("func", ["void $Ff(void) {", "int *$p = 0;", "*$p = 1;", "}"])],
    "nullPointerRedundantCheck": [("func", ["int $Ff(int *$p) {", "if ($p == 0) {", "}", "return *$p;", "}"])],
    "arrayIndexOutOfBounds": [("func", ["void $Ff(void) {", "int $a[10];", "$a[10] = 0;", "}"])],
    "arrayLoop": [("func", ["void $Ff(void) {", "int $a[5];", "int $i;", "for ($i = 0; $i <= 5; $i++) {", "$a[$i] = 0;", "}", "}"])],
    "uninitvar": [("func", ["int $Ff(void) {", "int $a;", "return $a;", "}"])],
    "zerodiv": [("func", ["int $Ff(int $x) {", "int $z = 0;", "return $x / $z;", "}"])],
    "zerodivcond": [("func", ["int $Ff(int $x) {", "int $r = 100 / $x;", "if ($x == 0) {", "$r = 0;", "}", "return $r;", "}"])],
    "memleak": [("func", ["void $Ff(void) {", "char *$p = malloc(10);", "if ($p) {", "$p[0] = 0;", "}", "}"])],
    "memleakRet": [("func", ["int $Ff(int $n) {", "char *$p = malloc(10);", "if ($n) {", "return 1;", "}", "free($p);", "return 0;", "}"])],
    "unusedVariable": [("func", ["void $Ff(void) {", "int $a;", "}"])],
    "knownCondition": [("func", ["int $Ff(void) {", "int $x = 5;", "if ($x == 5) {", "return 1;", "}", "return 0;", "}"])],
    "shadow": [("func", ["int $Ff(int $n) {", "int $x = $n;", "{", "int $x = 2;", "$n += $x;", "}", "return $x + $n;", "}"])],
    "shadowLate": [("func", ["int $Ff(int $n) {", "{", "int $x = 2;", "$n += $x;", "}", "int $x = $n;", "return $x + $n;", "}"])],
    "structUnion": [("struct", ["struct $S {", "int $a;", "union {", "int $b;", "char $c;", "};", "};"]),
                    ("func", ["int $Ff(void) {", "struct $S $s;", "$s.$b = 1;", "return $s.$a;", "}"])],
    "structPlain": [("struct", ["struct $S {", "int $a;", "int $b;", "};"]),
                    ("func", ["int $Ff(void) {", "struct $S $s;", "$s.$a = 1;", "return $s.$a + $s.$b;", "}"])],
    "variableScope": [("func", ["int $Ff(int $n) {", "int $i = 0;", "if ($n) {", "$i = $n * 2;", "return $i;", "}", "return 0;", "}"])],
    "redundantAssignment": [("func", ["int $Ff(void) {", "int $x;", "$x = 1;", "$x = 2;", "return $x;", "}"])],
    "calleeDiv": [("func", ["static int $Fg(int $d) {", "return 100 / $d;", "}"]), ("func", ["int $Ff(void) {", "return $Fg(0);", "}"])],
    "calleeNull": [("func", ["static void $Fg(int *$q) {", "*$q = 0;", "}"]), ("func", ["void $Ff(void) {", "$Fg(0);", "}"])],
    "calleeCond": [("func", ["static int $Fg(int $v) {", "if ($v > 10) {", "return 1;", "}", "return 0;", "}"]),
                   ("func", ["int $Ff(void) {", "return $Fg(3) + $Fg(4);", "}"])],
    "constParam": [("func", ["int $Ff(int *$p) {", "return *$p;", "}"])],
    "unsignedLess": [("func", ["int $Ff(unsigned $u) {", "if ($u < 0) {", "return 1;", "}", "return 0;", "}"])],
    "duplicateExpr": [("func", ["int $Ff(int $a) {", "return $a == $a;", "}"])],
    "duplicateBranch": [("func", ["int $Ff(int $a) {", "int $r;", "if ($a) {", "$r = 1;", "} else {", "$r = 1;", "}", "return $r;", "}"])],
    "switchFall": [("func", ["int $Ff(int $x) {", "switch ($x) {", "case 1:", "$x = 2;", "case 2:", "$x = 3;", "break;", "}", "return $x;", "}"])],
    "bufferOverrun": [("func", ["void $Ff(void) {", "char $b[4];", "strcpy($b, \"toolong\");", "}"])],
    "selfAssign": [("func", ["void $Ff(int $a) {", "$a = $a;", "}"])],
    "ptrArith": [("func", ["int $Ff(const int *$p, int $n) {", "int $s = 0;", "while ($n > 0) {", "$s += *$p;", "$p++;", "$n--;", "}", "return $s;", "}"])],
    "cleanLoop": [("func", ["int $Ff(int $n) {", "int $s = 0;", "int $i;", "for ($i = 0; $i < $n; $i++) {", "$s += $i;", "}", "return $s;", "}"])],
    "oppositeInner": [("func", ["int $Ff(int $a) {", "if ($a > 3) {", "if ($a < 2) {", "return 1;", "}", "}", "return 0;", "}"])],
    "intOverflowShift": [("func", ["int $Ff(void) {", "int $x = 1;", "return $x << 40;", "}"])],
    "doubleFree": [("func", ["void $Ff(void) {", "char *$p = malloc(4);", "free($p);", "free($p);", "}"])],
    "useAfterFree": [("func", ["char $Ff(void) {", "char *$p = malloc(4);", "free($p);", "return *$p;", "}"])],
    "calleeRet": [("func", ["static int $Fg(void) {", "return 0;", "}"]), ("func", ["int $Ff(int $x) {", "return $x / $Fg();", "}"])],
    "chain3": [("func", ["static int $Fh(int *$q) {", "return *$q;", "}"]), ("func", ["static int $Fg(int *$r) {", "return $Fh($r);", "}"]),
               ("func", ["int $Ff(void) {", "return $Fg(0);", "}"])],
    "recursion": [("func", ["int $Ff(int $n) {", "if ($n <= 0) {", "return 0;", "}", "return $n + $Ff($n - 1);", "}"])],
    "danglingLocal": [("func", ["int *$Ff(void) {", "int $x = 0;", "return &$x;", "}"])],
    "printfArg": [("func", ["void $Ff(int $n) {", "printf(\"%s\", $n);", "}"])],
    "ignoredReturn": [("func", ["void $Ff(const char *$s) {", "strlen($s);", "}"])],
    "uninitdata": [("func", ["char $Ff(void) {", "char *$p = malloc(4);", "char $c = $p[0];", "free($p);", "return $c;", "}"])],
    "enumSwitch": [("struct", ["enum $E {", "$A,", "$B", "};"]),
                   ("func", ["int $Ff(enum $E $e) {", "switch ($e) {", "case $A:", "return 1;", "case $B:", "break;", "}", "return 0;", "}"])],
    "typedefStruct": [("struct", ["struct $S {", "int $a;", "char *$p;", "};"]), ("struct", ["typedef struct $S $T;"]),
                      ("func", ["int $Ff($T *$s) {", "$s->$p = 0;", "return *$s->$p + $s->$a;", "}"])],
    "globalVar": [("struct", ["static int $G = 0;"]), ("func", ["int $Ff(void) {", "if ($G == 0) {", "return 10 / $G;", "}", "return 1;", "}"])],
    "labelGoto": [("func", ["int $Ff(int $n) {", "if ($n) {", "goto $L;", "}", "$n = 1;", "$L:", "return $n;", "}"])],
    "condAssign": [("func", ["int $Ff(int $a, int $b) {", "if ($a = $b) {", "return 1;", "}", "return 0;", "}"])],
    "signConv": [("func", ["unsigned $Ff(void) {", "int $x = -1;", "unsigned $u = $x;", "return $u * 2;", "}"])],
    "twoCallers": [("func", ["static int $Fg(int $d) {", "return 100 / $d;", "}"]), ("func", ["int $Ff(void) {", "return $Fg(5);", "}"]),
                   ("func", ["int $Fh(void) {", "return $Fg(0);", "}"])],
    "mutualRec": [("func", ["static int $Fa(int *$p, int $n) {", "if ($n > 0) {", "return $Fb($p, $n - 1);", "}", "return *$p;", "}"]),
                  ("func", ["static int $Fb(int *$q, int $m) {", "return $Fa($q, $m);", "}"]), ("func", ["int $Ff(void) {", "return $Fb(0, 3);", "}"])],
    "helperAlloc": [("func", ["static char *$Fg(void) {", "return malloc(10);", "}"]), ("func", ["void $Ff(void) {", "char *$p = $Fg();", "if ($p) {", "$p[0] = 0;", "}", "}"]),
                    ("func", ["void $Fh(void) {", "char *$q = $Fg();", "free($q);", "}"])],
    "helperFree": [("func", ["static void $Fg(char *$r) {", "free($r);", "}"]), ("func", ["char $Ff(void) {", "char *$p = malloc(4);", "$Fg($p);", "return *$p;", "}"])],
    "sharedStatic": [("struct", ["static int *$G = 0;"]), ("func", ["void $Ff(void) {", "$G = 0;", "}"]), ("func", ["int $Fh(void) {", "return *$G;", "}"]),
                     ("func", ["void $Fk(int *$p) {", "$G = $p;", "}"])],
    "globalFile": [("struct", ["static FILE *$G;"]), ("func", ["void $Ff(void) {", "$G = fopen(\"a.txt\", \"r\");", "}"]),
                   ("func", ["void $Fh(void) {", "fprintf($G, \"x\");", "}"]), ("func", ["void $Fk(void) {", "fclose($G);", "}"])],
    "globalUse": [("func", ["int $Ff(void) {", "static int $c = 0;", "$c++;", "return $c;", "}"])],
}

NAME_POOL = """alpha beta gamma delta omega sigma kappa lambda_ theta zeta apple berry cherry mango peach lemon melon grape olive
walnut acorn birch cedar maple willow aspen spruce falcon heron raven finch robin wren otter badger ferret lynx marten weasel quartz
basalt granite marble onyx topaz amber coral ivory jade pearl ruby cobalt copper nickel silver bronze pewter ac bd ce df eg fh gi hj
ik jl km ln mo np oq pr qs rt su tv uw vx wy xz aa1 bb2 cc3 dd4 ee5 ff6 gg7 hh8 ii9 Ax By Cz Dw Ev Fu a_b c_d e_f g_h i_j k_l m_n o_p
q_r s_t u_v w_x y_z cnt0 idx1 buf2 ptr3 len4 val5 tmp6 res7 acc8 num9 xx yy zz vv ww qq kk jj nn mm""".split()


def tokenize_line(text):
    return TOKRE.findall(text)


class Prog:
    """lines = list of dict(toks=[...], depth=int, block=int); blocks = list of dict(kind, lines idx, name)"""
    def __init__(self):
        self.lines = []
        self.blocks = []
        self.names = []       # every identifier the program declares (renamable)


def gen_program(rng, reserved_all, nfun=None, kinds=None):
    pool = [n for n in NAME_POOL if n not in reserved_all]
    rng.shuffle(pool)
    used = iter(pool)
    kinds = kinds or [rng.choice(sorted(TEMPLATES)) for _ in range(nfun or rng.choice([2, 3, 3, 4, 5]))]
    blocks = []          # (kind, [token lists], protoline or None)
    names = []
    for kd in kinds:
        inst = {}
        for (bk, lines) in TEMPLATES[kd]:
            tl = []
            for ln in lines:
                def sub(m):
                    k = m.group(0)
                    if k not in inst:
                        inst[k] = next(used)
                        names.append(inst[k])
                    return inst[k]
                tl.append(tokenize_line(re.sub(r"\$[A-Za-z]+", sub, ln)))
            proto = None
            if bk == "func":
                proto = tl[0][:-1] + [";"]
            blocks.append(dict(kind=bk, lines=tl, proto=proto, tmpl=kd))
    structs = [b for b in blocks if b["kind"] == "struct"]
    funcs = [b for b in blocks if b["kind"] == "func"]
    return dict(structs=structs, funcs=funcs, names=names, kinds=kinds)


def layout_default(prog, order=None):
    """list of lines (each: list of tokens) in file order: structs, prototypes, function definitions"""
    funcs = prog["funcs"] if order is None else [prog["funcs"][i] for i in order]
    lines = []
    for b in prog["structs"]:
        lines += [list(t) for t in b["lines"]]
    for b in prog["funcs"]:
        lines.append(list(b["proto"]))
    for b in funcs:
        lines += [list(t) for t in b["lines"]]
    return lines


def needs_space(a, b):
    """must two adjacent tokens be separated to lex as themselves?"""
    wa, wb = a[-1], b[0]
    if (wa.isalnum() or wa in "_$") and (wb.isalnum() or wb in "_$"):
        return True
    if a[0].isdigit() and b[0] in "'.":
        return True
    if b[0] in "\"'" and a in ("u", "U", "L", "u8", "R", "uR", "UR", "LR", "u8R"):
        return True
    two = wa + wb
    if len(a) <= 2 and len(b) <= 2 and (two in ("//", "/*", "++", "--", "&&", "||", "::", "->", "<<", ">>", "==", "!=", "<=", ">=", "+=", "-=", "*=",
                                                    "/=", "%=", "&=", "|=", "^=", "..") or (wa in "<>" and wb == "=")):
        return True
    if a in (".", "...") and (b[0].isdigit() or b[0] == "."):
        return True
    if a[0].isdigit() and b in ("+", "-", ".", "..."):
        return True
    if a in ("+", "-", "++", "--") and (b[0] in "+-" or b[0].isdigit()):
        return True
    if b in ("++", "--") and a[0].isdigit():
        return True
    return False


def render(lines, rng=None, style=None):
    """render token lines to text; returns (text, positions) with positions[i] = (line, col) of the i-th token overall.
    style None = canonical (one space between tokens, 4-space indent by brace depth)."""
    out, pos = [], []
    depth = 0
    curline = 1
    text_lines = []
    def gap_between(a, b):
        if rng is None or style is None:
            if b in (";", ",", ")", "]") or a in ("(", "[") or (b in ("(", "[") and (a[0].isalpha() or a[0] in "_$") and a not in ("if", "for", "while", "switch", "return")) \
                    or a in ("*",) and False:
                return "" if not needs_space(a, b) else " "
            return " "
        r = rng.random()
        if r < style["glue"] and not needs_space(a, b):
            return ""
        if r < style["glue"] + style["comment"]:
            g = rng.choice([" /* c */ ", "/**/", " /* x y */", "/* */ "])
            return " " + g if a.endswith("/") and g.startswith("/") else g
        if r < style["glue"] + style["comment"] + style["wide"]:
            return rng.choice(["  ", "\t", "   ", " \t "])
        return " "
    pending = ""       # text of the current physical line
    for li, toks in enumerate(lines):
        if toks and toks[0] == "}":
            depth = max(0, depth - 1)
        if rng is not None and style is not None:
            # vertical layout before this logical line
            join = pending != "" and rng.random() < style["join"]
            if not join:
                if pending != "":
                    text_lines.append(pending); pending = ""
                for _ in range(rng.choice([0, 0, 0, 1, 2]) if rng.random() < style["blank"] else 0):
                    text_lines.append(rng.choice(["", "  ", "// note", "/* note */", "\t// x"]))
                if rng.random() < style["bcline"]:
                    text_lines.append("/* multi"); text_lines.append("   line */")
                pending = rng.choice(["", " ", "  ", "\t", "    ", "      "]) if rng.random() < style["indent"] else "    " * depth
            else:
                pending += rng.choice([" ", "  ", " /* j */ "])
        else:
            if pending != "":
                text_lines.append(pending)
            pending = "    " * depth
        for k, t in enumerate(toks):
            if k > 0:
                g = gap_between(toks[k - 1], t)
                if rng is not None and style is not None and rng.random() < style["split"] and "\n" not in g:
                    text_lines.append(pending + g.rstrip(" \t") if "/*" in g else pending)
                    pending = rng.choice(["", "  ", "\t"])
                else:
                    pending += g
            pos.append((len(text_lines) + 1, len(pending) + 1))
            pending += t
        if rng is not None and style is not None and rng.random() < style["trail"]:
            pending += rng.choice([" // t", "  /* t */", " //"])
            text_lines.append(pending); pending = ""
        if toks and toks[-1] == "{":
            depth += 1
        # a `// comment` must end its physical line: handled above (line is flushed)
    if pending != "":
        text_lines.append(pending)
    text = "\n".join(text_lines) + "\n"
    return text, pos


STYLES = {
    "spaces": dict(glue=0.25, comment=0.0, wide=0.35, join=0.0, blank=0.0, bcline=0.0, indent=0.5, split=0.0, trail=0.0),
    "comments": dict(glue=0.1, comment=0.2, wide=0.1, join=0.0, blank=0.5, bcline=0.15, indent=0.3, split=0.0, trail=0.3),
    "lines": dict(glue=0.1, comment=0.0, wide=0.1, join=0.45, blank=0.3, bcline=0.0, indent=0.3, split=0.12, trail=0.0),
    "oneline": dict(glue=0.0, comment=0.0, wide=0.0, join=1.0, blank=0.0, bcline=0.0, indent=0.0, split=0.0, trail=0.0),
    "mixed": dict(glue=0.2, comment=0.1, wide=0.2, join=0.25, blank=0.3, bcline=0.1, indent=0.5, split=0.08, trail=0.15),
}

LAYOUT_SENSITIVE_IDS = {"suspiciousSemicolon", "duplicateBreak", "unreachableCode", "commaSeparatedReturn", "misleadingIndentation"}
LINE_READING_IDS = {"suspiciousSemicolon", "duplicateBreak", "unreachableCode", "commaSeparatedReturn"}     # documented purpose reads LINE numbers only


def excluded_ids(kind):
    """checks whose documented purpose depends on layout, per rewrite kind: a rewrite that keeps every token on its line
    (spaces within a line, CRLF) is still compared on the line-reading checks"""
    if kind.startswith("witness:"):
        kind = kind[len("witness:"):]
    if kind in ("layout:spaces", "layout:crlf"):
        return LAYOUT_SENSITIVE_IDS - LINE_READING_IDS
    if kind.startswith("layout"):
        return LAYOUT_SENSITIVE_IDS
    if kind == "rename":
        return NAME_SENSITIVE_IDS
    return set()
NAME_SENSITIVE_IDS = set()     # nothing excluded for renaming so far: injective renaming keeps shadowing relations


_RUN_LOCK = __import__("threading").Lock()
_RUN_CACHE = {}
_RUN_SEQ = [0]


def run_cppcheck(ctx, text, name="t.c", fresh=False, lang="c"):
    """findings of one file (memoised per text and language; every run in its own directory)"""
    name = "t.cpp" if lang == "c++" else name
    ckey = lang + "|" + text
    with _RUN_LOCK:
        if not fresh and ckey in _RUN_CACHE:
            return _RUN_CACHE[ckey]
        _RUN_SEQ[0] += 1
        d = os.path.join(ctx.tmp, "cli", "r%06d" % _RUN_SEQ[0])
    os.makedirs(d, exist_ok=True)
    with open(os.path.join(d, name), "w") as fh:
        fh.write(text)
    r = None
    for attempt in range(4):
        try:
            r = subprocess.run([ctx.cppcheck, "--enable=all", "--inconclusive", "--xml", "-q", "--language=" + lang, name], cwd=d,
                               stdout=subprocess.PIPE, stderr=subprocess.PIPE, timeout=120)
        except OSError:
            time.sleep(0.5); continue
        if r.returncode == 0 and b"</results>" in r.stderr:
            out = parse_xml(r.stderr.decode("utf-8", "replace"))
            with _RUN_LOCK:
                _RUN_CACHE.setdefault(ckey, out)
            return out
        time.sleep(0.3)      # the binary may be relinked by a concurrent check
    raise core.CheckBroken("cppcheck run failed rc=%s: %s" % (getattr(r, "returncode", None), (r.stderr[-300:] if r else b"")))


def parse_xml(x):
    import xml.etree.ElementTree as ET
    root = ET.fromstring(x)
    out = []
    for e in root.iter("error"):
        locs = tuple((int(l.get("line", "0")), int(l.get("column", "0")), l.get("info", "")) for l in e.findall("location"))
        syms = tuple(s.text or "" for s in e.findall("symbol"))
        out.append(dict(id=e.get("id"), severity=e.get("severity"), inconclusive=e.get("inconclusive", ""), msg=e.get("msg", ""),
                        verbose=e.get("verbose", ""), locs=locs, syms=syms))
    return out


LINE_IN_MSG = re.compile(r"\bline \d+")


def canon_finding(f, posmap=None, namemap=None):
    """canonical tuple of a finding, with locations / names mapped when maps are given.  Returns None if a location cannot be mapped."""
    def nm(s):
        if namemap:
            s = re.sub(r"[A-Za-z_$][A-Za-z_0-9$]*", lambda m: namemap.get(m.group(0), m.group(0)), s)
        return LINE_IN_MSG.sub("line #", s)
    locs = []
    for (l, c, info) in f["locs"]:
        if posmap is not None:
            if (l, c) not in posmap:
                return None
            l, c = posmap[(l, c)]
        locs.append((l, c, nm(info)))
    return (f["id"], f["severity"], f["inconclusive"], nm(f["msg"]), nm(f["verbose"]), tuple(locs), tuple(nm(s) for s in f["syms"]))


def make_rewrite(rng, prog, kind, reserved_all, special=False):
    """returns dict(kind, text0, text1, posmap, namemap, detail)"""
    lines0 = layout_default(prog)
    text0, pos0 = render(lines0)
    namemap = None
    if kind == "layout:crlf":
        text1 = text0.replace("\n", "\r\n")
        posmap = dict(zip(pos0, pos0))
    elif kind.startswith("layout"):
        st = kind.split(":")[1]
        text1, pos1 = render(lines0, rng, STYLES[st])
        posmap = dict(zip(pos0, pos1))
    elif kind == "rename":
        pool = [n for n in NAME_POOL if n not in reserved_all and n not in prog["names"]]
        extra = ["v%d_%s" % (i, rng.choice("abcdefgh")) for i in range(40)] + ["a_really_long_identifier_%d" % i for i in range(6)] + ["q", "w", "e_", "t"]
        pool += [n for n in extra if n not in reserved_all and n not in prog["names"]]
        if special:     # names with "suspicious" shapes: upper case (macro-like), leading underscores, prefixes, sort order
            pool = [n for n in ["ABC", "MAXVAL", "FOO_BAR", "_x", "__y", "_Z9", "kBig", "m_x", "g_y", "s_z", "argc_", "dummy", "ret", "rc", "err", "ok",
                                "aaaa", "ZZZZ", "a0", "Z0", "operator_", "std_", "T1", "B"] if n not in reserved_all and n not in prog["names"]] + pool[:6]
        rng.shuffle(pool)
        namemap = {}
        for n in prog["names"]:
            if rng.random() < 0.8:
                namemap[n] = pool.pop()
        lines1 = [[namemap.get(t, t) for t in ln] for ln in lines0]
        text1, pos1 = render(lines1)
        posmap = dict(zip(pos0, pos1))
    elif kind == "reorder":
        n = len(prog["funcs"])
        order = list(range(n))
        while n > 1 and order == list(range(n)):
            rng.shuffle(order)
        lines1 = layout_default(prog, order)
        text1, pos1 = render(lines1)
        # token index map: structs + protos unchanged, function blocks permuted
        idx0 = []      # for each function block: list of global token indices in layout 0
        k = sum(len(t) for b in prog["structs"] for t in b["lines"]) + sum(len(b["proto"]) for b in prog["funcs"])
        starts0 = []
        for b in prog["funcs"]:
            starts0.append(k); k += sum(len(t) for t in b["lines"])
        posmap = {}
        head = starts0[0] if starts0 else len(pos0)
        for i in range(head):
            posmap[pos0[i]] = pos1[i]
        k1 = head
        for bi in order:
            nb = sum(len(t) for t in prog["funcs"][bi]["lines"])
            for j in range(nb):
                posmap[pos0[starts0[bi] + j]] = pos1[k1 + j]
            k1 += nb
    else:
        raise ValueError(kind)
    return dict(kind=kind, text0=text0, text1=text1, posmap=posmap, namemap=namemap, lang=prog.get("lang", "c"), order=locals().get("order"))


def compare_pair(ctx, rw, fresh=False):
    """P_impl on one pair.  Returns (ok, detail dict)"""
    f0 = run_cppcheck(ctx, rw["text0"], fresh=fresh, lang=rw.get("lang", "c"))
    f1 = run_cppcheck(ctx, rw["text1"], fresh=fresh, lang=rw.get("lang", "c"))
    excl = excluded_ids(rw["kind"])
    exp, unm = [], []
    for f in f0:
        if f["id"] in excl:
            continue
        c = canon_finding(f, rw["posmap"], rw["namemap"])
        if c is None:
            unm.append(f)
        else:
            exp.append(c)
    got = [canon_finding(f) for f in f1 if f["id"] not in excl]
    ce, cg = collections.Counter(exp), collections.Counter(got)
    missing = list((ce - cg).elements())      # expected from the original, absent in the rewrite
    extra = list((cg - ce).elements())
    return (not missing and not extra and not unm), dict(missing=missing, extra=extra, unmappable=unm, n0=len(f0), n1=len(f1), ids0=sorted(set(f["id"] for f in f0)))



# ---- lexer tie: generated sources ------------------------------------------------------------------------------------
LEX_NAMES = ["x", "foo", "a1", "_b", "$c", "int", "return", "u", "L", "u8", "U", "R", "LR", "e5", "f", "l", "and", "bitor", "p", "E", "x_y", "abc123"]
LEX_NUMS = ["0", "1", "42", "007", "08", "0x1F", "0xe", "0XAP", "0x1p", "1e", "1E", "2e5", "10UL", "1f", "3p", "1_000", "00", "0e", "1'000", "0b1'01", "12'", "9'a"]
LEX_OPS = list("+-*/%&|^~!<>=?:;,.()[]{}@`") + ["#", "\\"]
LEX_LITS = ['"s"', '""', '"a b"', r'"q\"q"', r'"b\\"', r'"b\\\""', "'c'", r"'\''", r"'\\'", "'ab'", '"/*"', '"//"', "'\"'", '"\'"', '"é"', '"tab\there"']
LEX_GAPS = ["", "", "", " ", " ", "  ", "\t", "\n", "\n", "\r\n", "\r", " \n ", "\n\n", "/**/", "/* c */", "/*\n*/", "/* a\n b */ ", "// c\n", "//\n", " // x y\n  ",
            "/*/ */", "/***/", "/* * / */", "//*\n", "\v", "\f"]
LEX_GLUED = ["1.5", "1.", ".5", "1.5e+3", "1e+5", "1.e-5", "1.5f", "1.f", ".5e+3", "0x1.8p-3", "0x1p+2", "1..2", "1.2.3", "00.5e+3", "1e+", "1e+x", "a+++b", "a---b", "1--2",
             "x++", "--y", "a->b", "a::b", "a<<=b", "a>>=b", "a>>==b", "a<<b", "a<=b", "a>=b", "a==b", "a!=b", "a&&b", "a||b", "a+=1", "a-=1", "a*=b", "a/=b", "a%=b",
             "a&=b", "a|=b", "a^=b", "f(int&=2)", "void f(T&=2)", "...", "....", ". . .", "a...b", "x=-1", "x=+1", "p=&q", "*p", "a<:b", "1.5l", "1.5L", "3.and 4",
             "2.e", "x.y", "x . y", "s.5", "1 .5", "1. 5", "1 . 5", "1e +5", "1e+ 5", "a > > = b", "a>> =b", "1 ++x", "x++ 1", "{a&=b;}", "f(a)&=b", "g(int*&=0)"]


def gen_lex_source(rng, wild=False):
    n = rng.choice([1, 2, 3, 5, 8, 12, 20])
    parts = []
    for _ in range(n):
        r = rng.random()
        if wild and r < 0.25:
            parts.append("".join(rng.choice("ab1._'\"/*+-<>=&|:. \n\\#e\tx()") for _ in range(rng.choice([1, 2, 3, 5, 9]))))
        elif r < 0.25:
            parts.append(rng.choice(LEX_NAMES))
        elif r < 0.4:
            parts.append(rng.choice(LEX_NUMS))
        elif r < 0.6:
            parts.append(rng.choice(LEX_OPS[:-2]) if rng.random() < 0.97 else rng.choice(LEX_OPS))
        elif r < 0.72:
            parts.append(rng.choice(LEX_LITS))
        else:
            parts.append(rng.choice(LEX_GLUED))
        parts.append(rng.choice(LEX_GAPS))
    s = "".join(parts)
    if rng.random() < 0.15:
        s = s.rstrip("\n")
    if rng.random() < 0.02:
        s = "\xef\xbb\xbf" + s
    return s


def lex_nontrivial(src, out):
    toks = out.split()[1:]
    return len(toks) >= 3 and ("/*" in src or "//" in src or '"' in src or any(len(core.unhx(t.split(":")[0])) > 1 and t.split(":")[3][:2] == "00" for t in toks))



# ---- layout tie (theorem lexer_layout on the real lexer) -------------------------------------------------------------
def tok_elems(t):
    """raw lexical elements of one source token (all glued): words, operator bytes, one quoted literal"""
    if t[0] in "\"'":
        return [("q", t)]
    out = []
    for m in re.finditer(r"[A-Za-z_$0-9]+|.", t, re.S):
        w = m.group(0)
        out.append(("d", w) if re.match(r"^[A-Za-z_$0-9]+$", w) else ("o", w))
    return out


def enc_elem(e):
    k, v = e
    if k == "n":
        return "n"
    return k + core.hx(v)


GAP_WS = [" ", " ", "  ", "\t", "   ", " \t"]


def gen_gap(rng, must, allow_nl=True):
    """white space between two token elements: list of ("w", c) / ("n",)"""
    r = rng.random()
    if not must and r < 0.45:
        return []
    g = [("w", c) for c in rng.choice(GAP_WS)]
    if allow_nl and rng.random() < 0.2:
        g = [("w", c) for c in rng.choice(["", " "])] + [("n", "")] * rng.choice([1, 1, 2]) + [("w", c) for c in rng.choice(["", "  ", "\t", "    "])]
    return g


def gen_layout_pair(rng, toks, violate=False):
    """two element sequences with the same token elements (comments included); the second one differs in white space only"""
    # token elements with comments inserted as extra "tokens"
    items = []          # each: list of raw elems (glued group) ; comments are single-element groups flagged
    for t in toks:
        if rng.random() < 0.08:
            items.append(([("b", rng.choice([" c ", "", "x*y", " multi\n line "]))], "bcom"))
        if rng.random() < 0.04:
            items.append(([("l", rng.choice([" note", "", "/ x"]))], "lcom"))
        items.append((tok_elems(t), "tok"))
    def build(second, base=None):
        es, gaps = [], []
        for i, (grp, kind) in enumerate(items):
            if i > 0:
                prev_grp, prev_kind = items[i - 1]
                a, b = prev_grp[-1], grp[0]
                ta = ("//" + a[1]) if a[0] == "l" else ("/*" + a[1] + "*/") if a[0] == "b" else a[1]
                tb = ("//" + b[1]) if b[0] == "l" else ("/*" + b[1] + "*/") if b[0] == "b" else b[1]
                must = needs_space(ta, tb) or (a[0] == "o" and a[1] == "/" and b[0] in "lb")
                if prev_kind == "lcom":
                    g = [("n", "")] + ([("w", c) for c in rng.choice(["", "  "])] if rng.random() < 0.5 else [])
                elif not second:
                    g = gen_gap(rng, must)
                else:
                    g0 = base[i - 1]
                    has_nl = any(k == "n" for k, _ in g0)
                    opop = a[0] == "o" and b[0] == "o"
                    if violate and rng.random() < 0.15:
                        g = gen_gap(rng, must)
                    elif has_nl:
                        g = [("w", c) for c in rng.choice(["", " ", "\t"])] + [("n", "")] * rng.choice([1, 2, 3]) + [("w", c) for c in rng.choice(["", " ", "      ", "\t\t"])]
                    elif not g0 and opop:
                        g = []
                    elif not g0:
                        g = [] if rng.random() < 0.5 else [("w", c) for c in rng.choice(GAP_WS)]
                    else:
                        g = [("w", c) for c in rng.choice(GAP_WS)] if (must or opop or rng.random() < 0.6) else []
                gaps.append(g)
                es += g
            es += grp
        return es, gaps
    es, gaps = build(False)
    lead = [("w", c) for c in rng.choice(["", "", "  ", "\t"])]
    es2, _ = build(True, gaps)
    tail = [("n", "")] if rng.random() < 0.7 else []
    return es + tail, lead + es2 + tail


def layout_tie(ctx, res, drv, exe, token_lists, violate_share=0.2):
    rng = ctx.rng
    ops, meta = [], []
    for toks in token_lists:
        es, es2 = gen_layout_pair(rng, toks, violate=rng.random() < violate_share)
        ops.append("layout " + " ".join(enc_elem(e) for e in es) + " | " + " ".join(enc_elem(e) for e in es2))
    rc, out, err = core.run_lines(drv, [], ops)
    if len(out) != len(ops):
        res.oblig("correspondence:layout", False, "correspondence", "driver produced %d lines for %d ops: %s" % (len(out), len(ops), err[-300:]))
        return
    parsed, lexops = [], []
    for o in out:
        m = re.match(r"^ok=(\d) ok2=(\d) rel=(\d) pres=(\d) dots=(\d) src=(\S+) src2=(\S+) \| (T[^|]*) \| (T[^|]*) \| ([TU][^|]*) \| ([TU][^|]*)$", o)
        if not m:
            res.oblig("correspondence:layout", False, "correspondence", "driver line: " + o[:300])
            return
        parsed.append(m.groups())
        lexops += ["lex " + m.group(6), "tokens " + m.group(6), "lex " + m.group(7), "tokens " + m.group(7)]
    rc, lout, err = core.run_lines(exe, [], lexops)
    if len(lout) != len(lexops):
        res.oblig("correspondence:layout", False, "correspondence", "harness produced %d lines for %d ops" % (len(lout), len(lexops)))
        return
    bad_place, bad_tokens, concl_fail = [], [], []
    nhyp = 0
    for k, g in enumerate(parsed):
        ok, ok2, rel, pres, dots, src, src2, raw1, raw2, pred1, pred2 = g
        real_raw1, real_tok1, real_raw2, real_tok2 = [x.rstrip() for x in lout[4 * k:4 * k + 4]]
        s1 = core.unhx(src).decode("latin-1")
        # (i) theorem lexRaw_of_layout on the real lexer: well-formed sequence => the raw tokens the real lexer would produce are placeE
        #     (the real list is only observable after combineOperators, so compare the model's `tokens` of the rendered text instead)
        if pred1.rstrip() != "U" and pred1.rstrip() != real_tok1:
            bad_tokens.append((s1, pred1, real_tok1))
        if pred2.rstrip() != "U" and pred2.rstrip() != real_tok2:
            bad_tokens.append((core.unhx(src2).decode("latin-1"), pred2, real_tok2))
        hyp = ok == "1" and ok2 == "1" and rel == "1" and pres == "1" and dots == "1"
        res.count("layout:hypotheses-" + ("hold" if hyp else "fail"))
        # (ii) conclusion of lexer_layout evaluated on the REAL token streams
        p1 = [t.split(":")[1:3] for t in raw1.split()[1:]]
        p2 = [t.split(":")[1:3] for t in raw2.split()[1:]]
        phi = {tuple(a): tuple(b) for a, b in zip(p1, p2)} if len(p1) == len(p2) else None
        def reloc(tokline):
            outt = []
            for t in tokline.split()[1:]:
                f = t.split(":")
                q = phi.get((f[1], f[2])) if phi else None
                if q is None:
                    return None
                outt.append(":".join([f[0], q[0], q[1]] + f[3:]))
            return "T" + ("" if not outt else " " + " ".join(outt))
        concl = phi is not None and reloc(real_tok1) == real_tok2
        res.case("layout|" + src + "|" + src2, len(p1) >= 3 and src != src2,
                 dict(tie="layout", src=s1[:160], src2=core.unhx(src2).decode("latin-1")[:160], hypotheses=hyp, conclusion_on_real_lexer=concl) if k % max(1, len(parsed) // 3) == 0 else None)
        if hyp:
            nhyp += 1
            if not concl:
                concl_fail.append((s1, core.unhx(src2).decode("latin-1"), real_tok1, real_tok2))
            else:
                res.traces_validated += 1
        else:
            res.count("layout:conclusion-%s-without-hypotheses" % ("holds" if concl else "fails"))
    res.oblig("correspondence:layout-model-tokens-vs-real", not bad_tokens, "correspondence",
              "" if not bad_tokens else "%d differ; first src=%r model=%s real=%s" % (len(bad_tokens), bad_tokens[0][0][:200], bad_tokens[0][1][:300], bad_tokens[0][2][:300]))
    res.oblig("layout:generator-meets-hypotheses", nhyp * 3 >= len(parsed), "correspondence", "%d of %d generated pairs satisfy the hypotheses of lexer_layout" % (nhyp, len(parsed)))
    for (a, b, t1, t2) in concl_fail[:5]:
        res.violation("lexer_layout fails on the real lexer although its hypotheses hold: src=%r edit=%r" % (a[:200], b[:200]),
                      dict(kind="layoutpair", src=core.hx(a), src2=core.hx(b), tokens=t1, tokens2=t2), concrete=True, key=None)


def elems_text(es):
    out = []
    for k, v in es:
        out.append("\n" if k == "n" else "//" + v if k == "l" else "/*" + v + "*/" if k == "b" else v)
    return "".join(out)


CXX_DECLS = [["static", "void", "fn1", "(", "const", "int", "&=", "2", ")", ";"],
             ["void", "fn2", "(", "int", "a", ",", "const", "long", "&=", "0", ")", "{", "}"],
             ["int", "*", "fn3", "(", "void", ")", ";", "x", "&=", "y", ";"]]


def comment_line_tie(ctx, res, exe, token_lists):
    """rewrite family "insert comment-only lines" on the REAL lexer (no theorem: comments are tokens while combineOperators runs):
    tokens(src with comment lines) == tokens(src) up to a monotone line shift.  P_impl at lexer level."""
    rng = ctx.rng
    cases = []
    for toks in token_lists:
        es, _ = gen_layout_pair(rng, toks)
        es3, ins = [], 0
        for e in [("n", "")] + es:
            es3.append(e)
            if e[0] == "n" and rng.random() < 0.45:
                es3 += [("w", c) for c in rng.choice(["", "  ", "\t"])]
                if rng.random() < 0.5:
                    es3 += [("l", rng.choice([" c", "", " note: x = 1;", "/"])), ("n", "")]
                else:
                    es3 += [("b", rng.choice([" c ", "", " a * b ", " two\n lines "]))] + [("w", c) for c in rng.choice(["", " "])] + [("n", "")]
                ins += 1
        a, b = "\n" + elems_text(es), elems_text(es3)
        if ins == 0:
            continue
        cases.append((a, b))
    eval_comment_pairs(ctx, res, exe, cases)


def eval_comment_pairs(ctx, res, exe, cases):
    ops = []
    for a, b in cases:
        ops += ["tokens " + core.hx(a), "tokens " + core.hx(b)]
    rc, out, err = core.run_lines(exe, [], ops)
    if len(out) != len(ops):
        res.oblig("correspondence:comment-lines", False, "correspondence", "harness produced %d lines for %d ops" % (len(out), len(ops)))
        return
    nbad = 0
    for k, (a, b) in enumerate(cases):
        t0 = [t.split(":") for t in out[2 * k].split()[1:]]
        t1 = [t.split(":") for t in out[2 * k + 1].split()[1:]]
        ok = len(t0) == len(t1) and all(x[0] == y[0] and x[2] == y[2] and x[3:] == y[3:] for x, y in zip(t0, t1))
        if ok:
            lm = {}
            for x, y in zip(t0, t1):
                if lm.setdefault(int(x[1]), int(y[1])) != int(y[1]) or int(y[1]) < int(x[1]):
                    ok = False
            ks = sorted(lm)
            ok = ok and all(lm[p] < lm[q] for p, q in zip(ks, ks[1:]))
        res.case("comment-lines|" + a + "|" + b, len(t0) >= 3, dict(tie="comment-lines", src=a[:160], edited=b[:160], equal=ok) if k % max(1, len(cases) // 2) == 0 else None)
        res.count("comment-lines:" + ("equal" if ok else "DIFFER"))
        if ok:
            res.traces_validated += 1
            continue
        nbad += 1
        sp0 = [core.unhx(x[0]).decode("latin-1") for x in t0]
        sp1 = [core.unhx(x[0]).decode("latin-1") for x in t1]
        key = KEY_ANDASSIGN if andassign_only(sp0, sp1) else None
        if nbad <= 10:
            res.violation("inserting comment-only lines changes the token stream of the real lexer: src=%r edited=%r tokens=%s vs %s" % (a[:200], b[:200], sp0[:40], sp1[:40]),
                          dict(kind="layoutpair", rewrite="layout:comment-line", src=core.hx(a), src2=core.hx(b), replay_cmd="./check.py C05 --replay <this file>"),
                          concrete=True, key=key)


# ---- C++ call-graph programs: per-function checks and the order of the definitions -----------------------------------
def gen_callgraph(rng, reserved_all):
    """C++ program: prototypes first, k >= 3 functions with random calls (cycles likely), throwing callees, several
    noexcept / throw() callers and possibly main.  Returns a `prog` usable by make_rewrite plus the model description."""
    pool = [n for n in NAME_POOL if n not in reserved_all]
    rng.shuffle(pool)
    k = rng.choice([3, 4, 4, 5, 6])
    names = pool[:k]
    has_main = rng.random() < 0.7
    fns = []
    for f in range(k):
        r = rng.random()
        kind, spec, decl = 0, "", False
        if has_main and f == k - 1:
            kind = 2
        elif r < 0.4:
            kind, spec = 1, rng.choice(["noexcept", "noexcept", "throw()", "noexcept(true)"])
        elif r < 0.47:
            decl, spec = True, "throw(int)"
        items = []
        for _ in range(rng.choice([1, 1, 2, 2, 3])):
            if rng.random() < 0.22:
                items.append(("t", None))
            else:
                items.append(("c", rng.randrange(k - 1 if has_main else k)))      # nobody calls main
        fns.append(dict(kind=kind, spec=spec, decl=decl, items=items))
    if not any(it[0] == "t" for fn in fns for it in fn["items"]):
        fns[rng.randrange(k - 1 if has_main else k)]["items"].append(("t", None))
    funcs = []
    for f, fn in enumerate(fns):
        if fn["kind"] == 2:
            head = "int main(int argc, char **argv) {"
            arg = "argc"
        else:
            head = "int %s(int d) %s {" % (names[f], fn["spec"])
            arg = "d"
        lines = [head, "int acc = %s;" % arg]
        for (t, g) in fn["items"]:
            lines.append("if (%s == 3) throw 1;" % arg if t == "t" else "acc += %s(%s - 1);" % (names[g], arg))
        lines += ["return acc;", "}"]
        tl = [tokenize_line(l) for l in lines]
        funcs.append(dict(kind="func", lines=tl, proto=tl[0][:-1] + [";"], tmpl="callgraph"))
    return dict(structs=[], funcs=funcs, names=[n for f, n in enumerate(names) if fns[f]["kind"] != 2], kinds=["callgraph"], lang="c++", model=fns)


def callgraph_spec(fns):
    return " ".join("%d%d:%s" % (fn["kind"], 1 if fn["decl"] else 0, ",".join("t" if t == "t" else "c%d" % g for t, g in fn["items"]) or "-") for fn in fns)


def callgraph_expected_lines(prog, order, model_out):
    """model findings `f:i:kind` -> (id, line) in the canonical text of the given definition order"""
    start, line = {}, len(prog["funcs"]) + 1
    for f in order:
        start[f] = line
        line += len(prog["funcs"][f]["lines"])
    out = []
    for w in model_out.split()[1:]:
        f, i, kd = (int(x) for x in w.split(":"))
        out.append(("throwInEntryPoint" if kd == 2 else "throwInNoexceptFunction", start[f] + 2 + i))
    return sorted(out)


def callgraph_tie(ctx, res, drv, allres, n_prog, n_orders):
    """reorder pairs on call-graph programs (P_impl) + CheckExceptionSafety::nothrowThrows against the Lean model"""
    rng = ctx.rng
    pairs, model_cases = [], []
    for _ in range(n_prog):
        prog = gen_callgraph(rng, allres)
        k = len(prog["funcs"])
        orders = [list(range(k))]
        for _ in range(n_orders):
            rw = make_rewrite(rng, prog, "reorder", allres)
            pairs.append(rw)
            orders.append(rw["order"])
        pairs.append(make_rewrite(rng, prog, "rename", allres))
        pairs.append(make_rewrite(rng, prog, rng.choice(["layout:comments", "layout:lines", "layout:mixed"]), allres))
        for o in orders:
            model_cases.append((prog, o, render(layout_default(prog, o))[0]))
    trip = meta_pairs(ctx, res, pairs, "callgraph")
    report_meta(ctx, res, trip)
    ops = ["nothrow %s %s" % (",".join(str(x) for x in o), callgraph_spec(p["model"])) for p, o, _ in model_cases]
    rc, mout, err = core.run_lines(drv, [], ops)
    bad = []
    if len(mout) != len(ops):
        res.oblig("correspondence:nothrow-model", False, "correspondence", "driver produced %d lines for %d ops: %s" % (len(mout), len(ops), err[-200:]))
        return
    for (prog, o, text), mo in zip(model_cases, mout):
        try:
            fs = run_cppcheck(ctx, text, lang="c++")
        except core.CheckBroken:
            continue
        real = sorted((f["id"], f["locs"][0][0]) for f in fs if f["id"] in ("throwInNoexceptFunction", "throwInEntryPoint") and f["locs"])
        exp = callgraph_expected_lines(prog, o, mo)
        res.case("nothrow|" + text, len(exp) > 0, dict(tie="nothrow-model", order=o, model=mo, real=real, program=text[:300]) if len(bad) == 0 and len(exp) > 1 and res.evaluations % 17 == 0 else None)
        res.count("nothrow:findings-%d" % min(len(exp), 3))
        if real != exp:
            bad.append((text, o, exp, real))
        else:
            res.traces_validated += 1
    res.oblig("correspondence:nothrow-model", not bad, "correspondence",
              "" if not bad else "%d of %d programs differ; first: order=%s model=%s real=%s\n%s" % (len(bad), len(model_cases), bad[0][1], bad[0][2], bad[0][3], bad[0][0][:1500]))


# ---- translator guard: state that a per-file check entry point carries from one function to the next -----------------------------
CONTAINER = r"std::(?:set|map|unordered_set|unordered_map|vector|list|multimap|multiset|deque|stack)\s*<"
SCOPE_LOOP = re.compile(r"for\s*\([^;{}]*?:\s*[\w>().-]*?(?:->|\.)\s*(functionScopes|scopeList|classAndStructScopes|functionList)\s*\)")


def scan_check_state():
    """(file, function signature, variable) for every mutable container that is declared in a lib/check*.cpp function before
    a loop over the functions / scopes of the file, and every non-const static container: a check that keeps such a thing can
    make the verdict on one function depend on the functions decided before (definition order)"""
    hits = []
    for f in sorted(glob.glob(os.path.join(core.REPO, "lib", "check*.cpp"))):
        src = strip_comments(open(f, encoding="utf-8", errors="replace").read())
        base = os.path.basename(f)
        for m in SCOPE_LOOP.finditer(src):
            st = src.rfind("\n{\n", 0, m.start())
            if st < 0:
                continue
            sig = src[src.rfind("\n", 0, st) + 1:st].strip()
            head = src[st:m.start()]
            for d in re.finditer(r"^[ \t]*((?:const\s+)?" + CONTAINER + r"[^;=(){}]*>\s*&?\s*(\w+))\s*(?:;|\{\s*\}\s*;)", head, re.M):
                if d.group(1).lstrip().startswith("const"):
                    continue
                hits.append((base, re.sub(r"\s+", " ", sig)[:80], d.group(2)))
        for d in re.finditer(r"^[ \t]*static\s+(?!const\b)(?:thread_local\s+)?(" + CONTAINER + r"[^;=(){}]*>\s*(\w+))\s*[;={]", src, re.M):
            hits.append((base, "<static>", d.group(2)))
    return sorted(set(hits))


def state_guard(ctx, res):
    p = os.path.join(core.VERIF, "corpus", "C05", "check_state_allowlist.json")
    allow = {(e["file"], e["function"], e["var"]) for e in json.load(open(p))} if os.path.exists(p) else set()
    hits = scan_check_state()
    new = [h for h in hits if h not in allow]
    res.extra["check_state_variables"] = len(hits)
    res.oblig("T2:no-unclassified-cross-function-state-in-checks", not new and len(hits) >= 5, "translation",
              "" if not new else "container(s) declared before a loop over the file's functions / static, not in corpus/C05/check_state_allowlist.json: %s - "
              "a per-function verdict may now depend on the order of the definitions (hypothesis of perFunction_perm_invariant)" % new[:5])


# ---- the check --------------------------------------------------------------------------------------------------------
def cached_extract(ctx):
    """extraction is a pure function of lib/*.cpp, lib/*.h, cfg/std.cfg and tools/matchcompiler.py: memoise on their content"""
    h = hashlib.sha1()
    files = sorted(glob.glob(os.path.join(core.REPO, "lib", "*.cpp")) + glob.glob(os.path.join(core.REPO, "lib", "*.h"))) + \
        [os.path.join(core.REPO, "cfg", "std.cfg"), os.path.join(core.REPO, "tools", "matchcompiler.py"), os.path.abspath(__file__)]
    for f in files:
        h.update(f.encode()); h.update(open(f, "rb").read())
    d = os.path.join(core.VERIF, ".build", "c05cache")
    os.makedirs(d, exist_ok=True)
    p = os.path.join(d, "extract-%s.json" % h.hexdigest()[:20])
    if os.path.exists(p):
        try:
            return json.load(open(p))
        except Exception:
            pass
    ex = extract(ctx)
    for old in os.listdir(d):
        try:
            os.remove(os.path.join(d, old))
        except OSError:
            pass
    json.dump(ex, open(p + ".tmp", "w"))
    os.replace(p + ".tmp", p)
    return ex


def translate(ctx):
    ex = cached_extract(ctx)
    ctx.write_gen("Reserved", gen_text(ex))
    return ex


def py_pattern_lits(p):
    """python twin of Cppcheck.MatchEquiv.patLits (compared with the Lean function through the driver)"""
    out = []
    cmds = {"%any%", "%assign%", "%bool%", "%char%", "%comp%", "%num%", "%cop%", "%op%", "%or%", "%oror%", "%str%", "%type%", "%name%", "%var%", "%varid%"}
    def atom(a):
        if a == "%or%":
            out.append("|")
        elif a == "%oror%":
            out.append("||")
        elif a not in cmds:
            out.append(a)
    for w in p.split(" "):
        if not w:
            continue
        if len(w) > 2 and w[0] == "[" and w[-1] == "]":
            out += list(w[1:-1])
        elif w.find("|") > 0:
            for a in w.split("|"):
                if a:
                    atom(a)
        elif w[:2] == "!!":
            out.append(w[2:])
        else:
            atom(w)
    return out


def reserved_sets(ex, tok_types):
    lean_like = set()
    for p in ex["patterns"]:
        lean_like.update(py_pattern_lits(p))
    lean_like.update(ex["cmp_lits"])
    lean_like.update(tok_types)
    allres = set(lean_like) | set(ex["id_lits"]) | set(ex["cfg_words"]) | set(C_KEYWORDS)
    for p in ex["patterns"]:
        allres.update(WORD.findall(p))
    return lean_like, allres


LINE_LAYOUTS = ("layout:lines", "layout:oneline", "layout:mixed")
KEY_UNION = "layout-lines:uninitStructMember-innerunion-by-line"
KEY_SHADOW = "layout-lines:shadowVariable-later-declaration-same-line"
KEY_CR = "lexer-file:lone-cr-unget"


KEY_ANDASSIGN = "layout-comment-line:andassign-funcdecl-lookback-stops-at-comment"
_EXE = {}


def real_spellings(text):
    """token spellings of the real simplecpp lexer (comments removed) - used by classifiers only"""
    exe = _EXE.get("exe")
    if not exe:
        return None
    rc, out, err = core.run_lines(exe, [], ["tokens " + core.hx(text)])
    if len(out) != 1:
        return None
    return [core.unhx(t.split(":")[0]).decode("latin-1") for t in out[0].split()[1:]]


def andassign_only(sp0, sp1):
    """do the two spelling lists differ exactly by `&`,`=` in one and `&=` in the other (at least once, nothing else)?"""
    if sp0 is None or sp1 is None or sp0 == sp1:
        return False
    def split(sp):
        out = []
        for t in sp:
            out += ["&", "="] if t == "&=" else [t]
        return out
    return split(sp0) == split(sp1)


def union_member_outside(text, member):
    """is `member` declared directly in a struct that also holds an anonymous union (not inside the union)?"""
    for m in re.finditer(r"struct\s+\w+\s*\{", text):
        i, depth, j = m.end(), 1, m.end()
        while j < len(text) and depth:
            depth += {"{": 1, "}": -1}.get(text[j], 0); j += 1
        body = re.sub(r"/\*.*?\*/|//[^\n]*", " ", text[i:j - 1], flags=re.S)
        um = re.search(r"\bunion\s*\{[^{}]*\}\s*;", body)
        if um and re.search(r"\b%s\b" % re.escape(member), body[:um.start()] + body[um.end():]):
            return True
    return False


def classify_meta(rw, d, f_with):
    """known-finding classes of a metamorphic difference; returns key or None.  Every differing finding must fall into ONE class."""
    if d["unmappable"]:
        return None
    kind = rw["kind"][len("witness:"):] if rw["kind"].startswith("witness:") else rw["kind"]
    diff = d["missing"] + d["extra"]
    ids = set(x[0] for x in diff)
    # F05d: a comment between the return type and the name of a function whose parameter list holds an anonymous reference
    # parameter with a default value (`&=` glued): simplecpp's look-back stops at the comment token
    if kind in ("layout:comments", "layout:mixed", "layout:comment-line") and andassign_only(real_spellings(rw["text0"]), real_spellings(rw["text1"])):
        return KEY_ANDASSIGN
    if kind not in LINE_LAYOUTS and kind != "layout:join-lines":
        return None
    if ids == {"uninitStructMember"}:
        # (fixed d5d76f4) the flagged member is declared directly in a struct that also holds an anonymous union
        for x in diff:
            mm = re.search(r"Uninitialized struct member: \w+\.(\w+)", x[3])
            if not mm or not (union_member_outside(rw["text0"], mm.group(1)) or union_member_outside(rw["text1"], mm.group(1))):
                return None
        return KEY_UNION
    if ids == {"shadowVariable"}:
        # (fixed d02fc5c) reported only where the shadowed declaration sits on the same line *behind* the shadowing one
        for x in diff:
            locs = x[5]
            if len(locs) != 2 or not (locs[0][0] == locs[1][0] and locs[1][1] > locs[0][1]):
                return None
        return KEY_SHADOW
    return None


def meta_pairs(ctx, res, pairs, label):
    """run P_impl on CLI pairs with a pool of cppcheck processes; returns list of (pair, ok, detail)"""
    def work(pr):
        try:
            ok, d = compare_pair(ctx, pr)
            if not ok:                      # confirm on fresh runs (the binary may be relinked by a concurrent check)
                ok, d = compare_pair(ctx, pr, fresh=True)
            return ok, d
        except core.CheckBroken as ex:
            return None, dict(error=str(ex))
    with concurrent.futures.ThreadPoolExecutor(max_workers=8) as pool:
        results = list(pool.map(work, pairs))
    out = []
    for rw, (ok, d) in zip(pairs, results):
        if ok is None:
            res.count("cli-run-failed")
            continue
        nontriv = d["n0"] > 1 and rw["text0"] != rw["text1"]
        samp = None
        if len(res.samples) < 12 and res.evaluations % 37 == 0:
            samp = dict(tie="cli-metamorphic", kind=rw["kind"], original=rw["text0"][:400], rewrite=rw["text1"][:400], findings=d["ids0"], equal=ok)
        res.case("M|" + rw["kind"] + "|" + rw["text0"] + "|" + rw["text1"], nontriv, samp)
        res.count("meta:" + rw["kind"])
        for i in d["ids0"]:
            res.count("finding-id:" + i)
        res.traces_validated += 1
        out.append((rw, ok, d))
    return out


def report_meta(ctx, res, triples):
    for rw, ok, d in triples:
        if ok:
            continue
        key = classify_meta(rw, d, None)
        ids = sorted(set([m[0] for m in d["missing"]] + [m[0] for m in d["extra"]] + [u["id"] for u in d["unmappable"]]))
        res.violation("findings differ under a meaning-preserving rewrite (%s): ids %s; missing in rewrite: %s; only in rewrite: %s; unmappable: %s" %
                      (rw["kind"], ids, d["missing"][:3], d["extra"][:3], [u["id"] for u in d["unmappable"]][:3]),
                      dict(kind="meta", rewrite=rw["kind"], lang=rw.get("lang", "c"), text0=rw["text0"], text1=rw["text1"], posmap=[[list(a), list(b)] for a, b in rw["posmap"].items()],
                           namemap=rw["namemap"], missing=d["missing"], extra=d["extra"], replay_cmd="./check.py C05 --replay <this file>"),
                      concrete=True, key=key)


def lex_tie(ctx, res, drv, exe, srcs, name):
    ops = ["lex " + core.hx(t) for t in srcs]
    rc, impl, err = core.run_lines(exe, [], ops)
    rc, model, err2 = core.run_lines(drv, [], ops)
    if len(impl) != len(ops) or len(model) != len(ops):
        res.oblig("correspondence:" + name, False, "correspondence", "stream length mismatch ops=%d impl=%d model=%d %s %s" % (len(ops), len(impl), len(model), err[-200:], err2[-200:]))
        return [], impl, model
    mism = []
    for i, (sct, a, b) in enumerate(zip(srcs, impl, model)):
        if b == "U":
            res.count("lex:outside-model")
            continue
        res.count("lex:in-model")
        samp = dict(tie=name, src=sct[:120], impl=a[:300], model=b[:300]) if (i % max(1, len(ops) // 3) == 1) else None
        res.case(name + "|" + sct, lex_nontrivial(sct, a), samp)
        if a != b:
            mism.append(i)
    res.traces_validated += len(ops) - len(mism)
    res.oblig("correspondence:" + name, not mism, "correspondence",
              "" if not mism else "%d of %d sources differ; first: src=%r impl=%s model=%s" % (len(mism), len(ops), srcs[mism[0]], impl[mism[0]][:400], model[mism[0]][:400]))
    return mism, impl, model


def has_lone_cr(s):
    return re.search(r"\r(?!\n)", s[:-1] if s.endswith("\r") else s) is not None or ("\r" in s[:-1] and re.search(r"\r[^\n]", s) is not None)


def file_tie(ctx, res, exe, srcs, buf_out):
    """the constructor the CLI uses (FileStream) against the buffer constructor the model is tied to"""
    d = os.path.join(ctx.tmp, "lexf")
    os.makedirs(d, exist_ok=True)
    rc, fout, err = core.run_lines(exe, [d], ["lexf " + core.hx(t) for t in srcs])
    if len(fout) != len(srcs):
        res.oblig("correspondence:lexer-file-vs-buffer", False, "correspondence", "stream length mismatch: %s" % err[-300:])
        return
    bad = 0
    for sct, a, b in zip(srcs, buf_out, fout):
        if a == b:
            res.traces_validated += 1
            continue
        if re.search(r"\d'$", sct) or sct.endswith("\r"):
            res.count("lexf:eof-stream-quirk")          # peek() at EOF: the buffer stream goes bad, the file stream does not (no token of a complete file differs)
            continue
        key = KEY_CR if re.search(r"\r(?!\n)", sct) else None
        bad += 1
        res.violation("simplecpp::TokenList(filename) and TokenList(buffer) lex the same bytes differently: src=%r file=%s buffer=%s" % (sct[:200], b[:300], a[:300]),
                      dict(kind="lexfile", src=core.hx(sct), replay_cmd="./check.py C05 --replay <this file>"), concrete=True, key=key)
        if bad > 25:
            break


_CFGW = set()


def match_tie(ctx, res, drv, exe, ex, lean_like, allres, n_pat, per):
    """P_impl of part 1 on the real interpreted matcher: Match(p, ts) == Match(p, rename(ts)); plus impl == model `sem`"""
    rng = ctx.rng
    usable = [p for p in ex["patterns"] if "\\" not in p and '"' not in p and p.strip()]
    pats = rng.sample(usable, min(n_pat, len(usable)))
    # target names are drawn from the theorem's own domain: every identifier that is NOT in the Lean `reserved` set - library
    # function names (malloc, free, strlen ...), words of lib/ string literals and of cfg/std.cfg included; only the language
    # keywords are left out (renaming onto a keyword is not a renaming of identifiers)
    kw = set(C_KEYWORDS)
    domain = sorted(w for w in (set(ex["id_lits"]) | set(ex["cfg_words"]) | set(NAME_POOL) | {"ABC", "kBig", "_x9", "zz_top", "Q"})
                    if IDENT.match(w) and w not in lean_like and w not in kw)
    res.extra["match_rename_domain"] = len(domain)
    res.extra["match_rename_domain_library_names"] = len([w for w in domain if w in set(ex["cfg_words"])])
    fresh_pool = rng.sample(domain, min(len(domain), 600)) + [w for w in ("malloc", "free", "strlen", "printf", "memcpy", "size", "data") if w in domain]
    ops, meta = [], []
    for p in pats:
        lits = [w for w in re.split(r"[ |]", p) if w and not w.startswith(("%", "[", "!!"))] or ["x"]
        for _ in range(per):
            v = rng.choice([1, 2, 3]) if "%varid%" in p else 0
            toks = c33.gen_tokens(rng, p, v, lits)
            names = sorted(set(s for s, vi in toks if IDENT.match(s) and s not in lean_like))
            if not names:
                # plant a renamable name so that the case is not trivial
                toks = toks + [(rng.choice(["foo_1", "cnt", "x9"]), rng.choice([0, 4]))]
                names = sorted(set(s for s, vi in toks if IDENT.match(s) and s not in lean_like))
            pool = [n for n in fresh_pool if n not in names]
            rng.shuffle(pool)
            sigma = {n: pool[k] for k, n in enumerate(names) if k < len(pool) and rng.random() < 0.85}
            toks2 = [(sigma.get(s, s), vi) for s, vi in toks]
            for tk in (toks, toks2):
                ops.append("match %s %d %d %s" % (core.hx(p), v, len(tk), " ".join("%s %d" % (core.hx(s), vi) for s, vi in tk)))
            meta.append((p, v, toks, toks2, sigma))
    _CFGW.clear(); _CFGW.update(ex["cfg_words"])
    rc, out, err = core.run_lines(exe, [], ops)
    if len(out) != len(ops):
        res.oblig("correspondence:match-renamed", False, "correspondence", "harness produced %d lines for %d ops: %s" % (len(out), len(ops), err[-300:]))
        return
    # model side: documented language on the same typed tokens + the hypothesis `avoids` evaluated by the Lean definition
    mops, aops = [], []
    for k, (p, v, toks, toks2, sigma) in enumerate(meta):
        for j, tk in enumerate((toks, toks2)):
            tys = re.match(r"^T(.*) \| I (\S+)$", out[2 * k + j]).group(1).split()
            mops.append("sem %s %d %s" % (core.hx(p), v, " ".join("%s %s %d %s" % (core.hx(s), ty.split(":")[0], vi, ty.split(":")[1]) for (s, vi), ty in zip(tk, tys))))
        aops.append("avoids " + " ".join("%s %s" % (core.hx(a), core.hx(b)) for a, b in sorted(sigma.items())))
    rc, mout, err = core.run_lines(drv, [], mops)
    rc, aout, err = core.run_lines(drv, [], aops)
    bad_model, bad_avoid, bad_types = [], [], []
    for k, (p, v, toks, toks2, sigma) in enumerate(meta):
        m0 = re.match(r"^T(.*) \| I (\S+)$", out[2 * k]); m1 = re.match(r"^T(.*) \| I (\S+)$", out[2 * k + 1])
        I0, I1 = m0.group(2), m1.group(2)
        changed = toks != toks2
        res.case("match|%s|%d|%s|%s" % (p, v, toks, sorted(sigma.items())), changed and len(toks) > 0,
                 dict(tie="match-renamed", pattern=p, tokens=" ".join(s for s, _ in toks), renamed=" ".join(s for s, _ in toks2), impl=I0, impl_renamed=I1) if k % max(1, len(meta) // 3) == 0 else None)
        res.count("match:" + ("renamed" if changed else "unchanged"))
        if any(b in _CFGW for b in sigma.values()):
            res.count("match:renamed-onto-library-or-cfg-name")
        if aout[k] != "1":
            bad_avoid.append((sigma, aout[k]))
        if m0.group(1) != m1.group(1):
            bad_types.append((p, toks, toks2))          # the renaming changed a token classification: outside the premise
            res.count("match:classification-changed")
            continue
        if I0 != I1:
            res.violation("Token::Match verdict changes under a renaming that avoids the reserved set: pattern %r tokens %s renamed %s: %s vs %s" % (p, toks, toks2, I0, I1),
                          dict(kind="match", pattern=p, v=v, tokens=toks, renamed=toks2, sigma=sigma, replay_cmd="./check.py C05 --replay <this file>"), concrete=True, key=None)
        exp = {"1": "1", "0": "0", "E": "E"}
        if mout[2 * k] != I0 or mout[2 * k + 1] != I1:
            if " " in "".join(s for s, _ in toks):
                continue
            bad_model.append((p, toks, I0, mout[2 * k], I1, mout[2 * k + 1]))
        else:
            res.traces_validated += 2
    res.oblig("correspondence:match-renamed-vs-language", not bad_model, "correspondence", "" if not bad_model else "%d differ; first %s" % (len(bad_model), bad_model[0]))
    res.oblig("T1:generated-renamings-avoid-reserved(lean-definition)", not bad_avoid, "translation", "" if not bad_avoid else str(bad_avoid[:2]))
    res.oblig("T1:renaming-keeps-token-classification", len(bad_types) * 50 <= max(1, len(meta)), "translation", "" if not bad_types else "%d of %d; first %s" % (len(bad_types), len(meta), bad_types[0]))


def load_corpus():
    p = os.path.join(core.VERIF, "corpus", "C05", "witnesses.json")
    return json.load(open(p)) if os.path.exists(p) else []


def witness_rw(w):
    return dict(kind="witness:" + w["rewrite"], text0=w["text0"], text1=w["text1"], posmap={tuple(a): tuple(b) for a, b in w["posmap"]}, namemap=w.get("namemap"),
                lang=w.get("lang", "c"))


def run(ctx, res):
    rng = ctx.rng
    thorough = ctx.tier == "thorough"
    t00 = time.time()
    ex = translate(ctx)
    res.extra["translate_seconds"] = round(time.time() - t00, 1)
    res.extra["patterns_distinct"] = len(ex["patterns"])
    res.extra["pattern_call_sites"] = ex["call_sites"]
    res.extra["compared_literals"] = len(ex["cmp_lits"])
    res.extra["str_comparison_shapes"] = ex["shapes"]
    tm = {}
    t0 = time.time()
    core.prove(ctx, res, MODULES, THEOREMS)
    drv = ctx.driver("drv_c05")
    exe = ctx.harness("c05")
    _EXE["exe"] = exe
    tm["prove+build"] = round(time.time() - t0, 1); t0 = time.time()

    # ---- T1: the reserved set ---------------------------------------------------------------------------------------
    mc = c33.load_matchcompiler()
    lean_like, allres = reserved_sets(ex, list(mc.tokTypes.keys()))
    rc, out, err = core.run_lines(drv, [], ["reserved"])
    lean_res = set(core.unhx(w).decode("latin-1") for w in (out[0].split() if out else []))
    res.oblig("T1:reserved-python-equals-lean", lean_res == lean_like and len(lean_res) > 500, "translation",
              "" if lean_res == lean_like else "python-only %s lean-only %s" % (sorted(lean_like - lean_res)[:5], sorted(lean_res - lean_like)[:5]))
    res.oblig("T1:extraction-plausible", ex["call_sites"] > 3000 and len(ex["cmp_lits"]) > 100 and ex["shapes"].get("literal", 0) > 1500, "translation", str(ex["shapes"]))
    res.extra["reserved_lean"] = len(lean_res)
    res.extra["reserved_all_for_cli"] = len(allres)

    tm["T1"] = round(time.time() - t0, 1); t0 = time.time()
    # ---- corpus: witnesses of the known findings, replayed first -----------------------------------------------------
    wit = load_corpus()
    cli_w = [witness_rw(w) for w in wit if w["kind"] == "meta"]
    trip = meta_pairs(ctx, res, cli_w, "corpus")
    report_meta(ctx, res, trip)
    lex_w = [core.unhx(w["src"]).decode("latin-1") for w in wit if w["kind"] == "lexfile"]
    eval_comment_pairs(ctx, res, exe, [(core.unhx(w["src"]).decode("latin-1"), core.unhx(w["src2"]).decode("latin-1")) for w in wit if w["kind"] == "lexpair"])
    lex_w += [core.unhx(w[k]).decode("latin-1") for w in wit if w["kind"] == "lexpair" for k in ("src", "src2")]

    # ---- C1: lexer -----------------------------------------------------------------------------------------------------
    n_lex = 12000 if thorough else 2000
    srcs = lex_w + [gen_lex_source(rng, wild=(i % 3 == 0)) for i in range(n_lex)]
    # real program texts too
    progs = []
    for i in range(40 if thorough else 8):
        pr = gen_program(rng, allres)
        t, _ = render(layout_default(pr), rng, STYLES[rng.choice(sorted(STYLES))])
        srcs.append(t if rng.random() < 0.7 else t.replace("\n", "\r\n"))
    mism, impl, model = lex_tie(ctx, res, drv, exe, srcs, "lexer")
    file_tie(ctx, res, exe, srcs, impl)

    tm["lexer"] = round(time.time() - t0, 1); t0 = time.time()
    tm["lexer"] = round(time.time() - t0, 1); t0 = time.time()
    # ---- C2: theorem lexer_layout against the real lexer ---------------------------------------------------------------
    tl = []
    for i in range(3000 if thorough else 800):
        if i % 2 == 0:
            pr = gen_program(rng, allres)
            lines = layout_default(pr)
            k = rng.randrange(len(lines))
            tl.append([t for ln in lines[k:k + 6] for t in ln])
        else:
            tl.append([rng.choice(LEX_NAMES[:8] + ["1", "42", "0x1F", "1.5", "2.5e+3", "1e-5", ".5", "7.", "->", "++", "--", "<<=", ">>=", "&&", "||", "==", "!=", "<=",
                                   ">=", "+=", "::", "...", "<<", ">>"] + list("+-*/%&|^~!<>=?:;,.()[]{}") + ['"s t"', "'c'", r'"q"q"'])
                       for _ in range(rng.choice([3, 6, 10, 16]))])
    layout_tie(ctx, res, drv, exe, tl)
    valid_lists = [t for k, t in enumerate(tl) if k % 2 == 0][:400 if thorough else 150] + CXX_DECLS * (12 if thorough else 4)
    comment_line_tie(ctx, res, exe, valid_lists)
    tm["layout"] = round(time.time() - t0, 1); t0 = time.time()
    # ---- C3: pattern matching under renaming ---------------------------------------------------------------------------
    match_tie(ctx, res, drv, exe, ex, lean_like, allres, 400 if thorough else 90, 6 if thorough else 4)

    tm["match"] = round(time.time() - t0, 1); t0 = time.time()
    # ---- part 3: definition order -------------------------------------------------------------------------------------------
    state_guard(ctx, res)
    callgraph_tie(ctx, res, drv, allres, 120 if thorough else 24, 3)
    tm["callgraph"] = round(time.time() - t0, 1); t0 = time.time()
    # ---- M: CLI metamorphic pairs ------------------------------------------------------------------------------------------
    n_prog = 220 if thorough else 36
    kinds = ["layout:spaces", "layout:comments", "layout:lines", "layout:oneline", "layout:mixed", "layout:crlf", "rename", "reorder"]
    pairs = []
    for i in range(n_prog):
        prog = gen_program(rng, allres)
        for kind in kinds:
            pairs.append(make_rewrite(rng, prog, kind, allres))
        if len(prog["funcs"]) > 2:
            pairs.append(make_rewrite(rng, prog, "reorder", allres))
        if thorough:
            pairs.append(make_rewrite(rng, prog, "rename", allres, special=True))
            pairs.append(make_rewrite(rng, prog, "reorder", allres))
    t0 = time.time()
    trip = meta_pairs(ctx, res, pairs, "generated")
    tm["cli"] = round(time.time() - t0, 1)
    res.extra["stage_seconds"] = tm
    res.extra["cli_pairs"] = len(pairs)
    res.extra["cli_seconds"] = round(time.time() - t0, 1)
    report_meta(ctx, res, trip)
    # ---- violation search when an obligation broke and no concrete failing input is known yet ---------------------------------
    if any(not o["ok"] for o in res.obligations) and not any(v["concrete"] for v in res.violations):
        res.extra["search"] = "wider layout / CLI sample after a broken obligation"
        tl2 = []
        for i in range(400):
            pr = gen_program(rng, allres)
            lines = layout_default(pr)
            k = rng.randrange(len(lines))
            tl2.append([t for ln in lines[k:k + 8] for t in ln])
        res2 = core.Result(ctx, res.level)
        try:
            layout_tie(ctx, res2, drv, exe, tl2, violate_share=0.0)
            srcs2 = [gen_lex_source(rng, wild=False) for _ in range(3000)]
            rc, b1, _ = core.run_lines(exe, [], ["lex " + core.hx(t) for t in srcs2])
            file_tie(ctx, res2, exe, srcs2, b1)
        except Exception as ex_:
            res.extra["search_error"] = str(ex_)[:300]
        res.violations += res2.violations
        pairs2 = []
        for i in range(40):
            prog = gen_program(rng, allres)
            for kind in kinds:
                pairs2.append(make_rewrite(rng, prog, kind, allres))
        report_meta(ctx, res, meta_pairs(ctx, res, pairs2, "search"))
    res.assumptions += [
        "the tokenizer gives a renamed spelling the same tokType / isName / varId as the old one (mapTok changes the spelling only); "
        "checked per generated renaming on names drawn from ALL identifiers outside Gen.Reserved.reserved (library and cfg names included), keywords excepted",
        "meaning preservation of the CLI renamings: target names additionally avoid every identifier-like word of lib/ string literals, cfg/std.cfg and the keywords",
        "layout theorems: the comments of the original stay in place (lexer_layout), no line is joined or split (presB), three consecutive '.' tokens share a line (dotsOKB); "
        "comment-line insertion, line joins/splits are sampled on the real lexer and by CLI pairs only",
        "the lexer model is tied to simplecpp::TokenList(buffer); the filename constructor the CLI uses is compared with it on the same bytes on every run"]
    res.notes.append("outside the model (only sampled by the CLI pairs): name dependence through ordered containers, str() comparisons outside patterns, "
                     "definition-order dependence of the symbol database / value flow")


def replay(ctx, res, rp):
    if rp.get("kind") == "meta":
        rw = dict(kind="witness:" + rp.get("rewrite", "?"), text0=rp["text0"], text1=rp["text1"], posmap={tuple(a): tuple(b) for a, b in rp["posmap"]}, namemap=rp.get("namemap"),
                  lang=rp.get("lang", "c"))
        ok, d = compare_pair(ctx, rw, fresh=True)
        print("replay: findings %s under the rewrite (missing=%s extra=%s)" % ("EQUAL" if ok else "DIFFER", d["missing"][:3], d["extra"][:3]))
        if not ok:
            print("VIOLATION property=C05 replay=(replayed)")
        return 0 if ok else 1
    if rp.get("kind") == "lexfile":
        exe = ctx.harness("c05")
        d = os.path.join(ctx.tmp, "lexf"); os.makedirs(d, exist_ok=True)
        rc, a, err = core.run_lines(exe, [d], ["lex " + rp["src"], "lexf " + rp["src"]])
        same = len(a) == 2 and a[0] == a[1]
        print("replay: buffer=%s file=%s" % (a[0] if a else "?", a[1] if len(a) > 1 else "?"))
        if not same:
            print("VIOLATION property=C05 replay=(replayed)")
        return 0 if same else 1
    if rp.get("kind") == "layoutpair":
        exe = ctx.harness("c05")
        rc, a, err = core.run_lines(exe, [], ["tokens " + rp["src"], "tokens " + rp["src2"]])
        strs = [[t.split(":")[0] for t in x.split()[1:]] for x in a]
        same = len(strs) == 2 and strs[0] == strs[1]
        print("replay: token spellings of the two layouts %s" % ("EQUAL" if same else "DIFFER"))
        if not same:
            print("VIOLATION property=C05 replay=(replayed)")
        return 0 if same else 1
    if rp.get("kind") == "match":
        exe = ctx.harness("c05")
        ops = ["match %s %d %d %s" % (core.hx(rp["pattern"]), rp["v"], len(tk), " ".join("%s %d" % (core.hx(s), vi) for s, vi in tk)) for tk in (rp["tokens"], rp["renamed"])]
        rc, a, err = core.run_lines(exe, [], ops)
        same = len(a) == 2 and a[0].split("| I")[1] == a[1].split("| I")[1]
        print("replay: %s" % a)
        if not same:
            print("VIOLATION property=C05 replay=(replayed)")
        return 0 if same else 1
    print("replay: unknown kind")
    return 2

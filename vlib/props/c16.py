"""C16 — the thread executor is free of data races.   (level "other": lockset theorem + translator; TSan only validates)

What is proved (Lean, unbounded in the number of workers and in the schedule)
  Cppcheck/Props/C16.lean       reach_no_race / lockset_no_race / structured_no_race: if every worker event is balanced (RAII
                                lock scopes, non-recursive mutexes) and disciplined (every access to a location holds the guard
                                mutex of that location, or the location is never written by workers, or it is atomic) then no
                                interleaving of any number of workers reaches a state in which two threads are about to perform
                                conflicting accesses; the main thread is unconstrained because it only runs before the spawn /
                                after the join.  Counterexample + rejection theorems show that the discipline is needed.
  Cppcheck/Props/C16Table.lean  extracted_table_disciplined (`by decide` over Gen/LockTable.lean, regenerated from the working
                                tree on every run) and its consequences for the extracted table.
Tie (T)  vlib/props/c16_extract.py: clang-14 JSON AST of ThreadData, SyncLogForwarder, ThreadExecutor, threadProc
         (cli/threadexecutor.cpp), Executor (cli/executor.cpp), SuppressionList (lib/suppressions.cpp), TimerResults (lib/timer.cpp),
         Settings::mTerminated (lib/settings.cpp) -> per member function a structured event; calls between the extracted
         classes are inlined; the worker / main / inlined / other-executor classification of every member function is computed
         from its textual reference sites and written out with its justification.  Fail closed.
Further obligations (translator level): clang parses; no unrecognised shape; spawn/join shape of ThreadExecutor::check and the
         reference plumbing into ThreadData / SyncLogForwarder; anchors (the five mutexes of the property record) present;
         Settings::mTerminated is std::atomic; readonly_shared_has_no_mutable_state (mutable members / const_casts / pimpl
         writes in the classes shared read-only: Settings, Library, Platform, Standards, AddonInfo, FileWithDetails, FileSettings);
         translator self-tests (corpus/C16: small sources with known verdicts, incl. the shapes that must be rejected).
Enumerated, NOT proved race-free: objects with static storage duration in lib/, cli/, externals (from the built objects).
P_impl (thorough tier, replay): `cppcheck -jN --executor=thread` of the -fsanitize=thread build of the working tree on generated
         multi-file projects (inline / global suppressions, --showtime, build dir, project files) with VERIF_SCHED_SEED delays must
         produce no ThreadSanitizer report; a report inside a member function the table covers = the translator is wrong
         (correspondence failure, report stored as replay); any report = a concrete failing schedule.  A TSan harness
         (harness/c16.cpp) is the positive control: the unguarded main-phase reader run concurrently with a writer must be reported.
"""
import json, os, re, subprocess, time, hashlib

from .. import core, build_repo
from . import c16_extract as X
from . import c16_tsan as TS

ID = "C16"
LEVEL = "other"
RULE = ("cases = extracted method events (member function x object instance x overload) of the classes shared between the workers; "
        "a case is non-trivial when the event contains at least one access to a shared location or a lock scope; thorough tier adds "
        "(generated project, option set, job count, VERIF_SCHED_SEED) runs of the -fsanitize=thread build, non-trivial = at least two "
        "files produce findings and inline suppressions are in use")
EXPLANATION = ("Proved in Lean for every number of worker threads and every schedule: a table of balanced, lock-disciplined worker "
               "events (all control-flow paths incl. early exits) has no reachable data race; the main thread needs no discipline "
               "because it runs only before the spawn / after the join.  `by decide` re-proves on every run that the table extracted "
               "from the current source (ThreadData, SyncLogForwarder, ThreadExecutor/Executor, SuppressionList x {nomsg,nofail}, "
               "TimerResults; Settings::mTerminated atomic) is balanced and disciplined.  The tie is a translator (clang JSON AST, "
               "fail closed) plus an explicit generated worker/main phase table with caller lists.  Partial: the theorem is about the "
               "extracted access/lock table, not about the C++ memory model; objects shared read-only (const Settings&, Library, file "
               "lists) are covered only by the obligation that their classes have no mutable state / const_casts / pimpl writes in "
               "const members; objects with static storage duration are enumerated from the built objects and each non-const one is "
               "classified (synchronisation object / no textual write outside its initialiser / examined with a re-checked condition; "
               "fail closed on a new one) but NOT proved race-free — one assumption line each; std::cout interleaving, third-party code (tinyxml2, picojson, simplecpp internals), the libstdc++ "
               "implementation, signal handlers and deadlock freedom are outside.  ThreadSanitizer runs (thorough tier; quick tier whenever the "
               "tsan build is up to date, otherwise recorded as skipped) validate the table and the worker/main phase classification and "
               "search for concrete racy schedules; they never discharge an obligation.")
THEOREMS_GENERAL = ["Cppcheck.Lockset.reach_no_race", "Cppcheck.Lockset.lockset_no_race",
                    "Cppcheck.Lockset.structured_paths_disciplined", "Cppcheck.Lockset.structured_no_race",
                    "Cppcheck.Lockset.race_iff_raceB", "Cppcheck.Lockset.run_is_reachable",
                    "Cppcheck.Lockset.undisciplined_table_races", "Cppcheck.Lockset.unguarded_main_phase_event_is_fine",
                    "Cppcheck.Lockset.unguarded_worker_event_rejected"]
THEOREMS_TABLE = ["Cppcheck.Lockset.extracted_table_disciplined", "Cppcheck.Lockset.extracted_no_race",
                  "Cppcheck.Lockset.extracted_flat_no_race", "Cppcheck.Lockset.extracted_anchor_guards",
                  "Cppcheck.Lockset.extracted_table_runs", "Cppcheck.Lockset.extracted_witness_unlocked_races"]
THEOREMS = THEOREMS_GENERAL + THEOREMS_TABLE
MODULES = ["Cppcheck.Props.C16", "Cppcheck.Props.C16Table"]

REPO = core.REPO
ANCHOR_GUARDS = {   # location -> mutex the property record names as its protection
    "ThreadData::mItNextFile": "ThreadData::mFileSync",
    "ThreadData::mItNextFileSettings": "ThreadData::mFileSync",
    "ThreadData::mProcessedFiles": "ThreadData::mFileSync",
    "ThreadData::mProcessedSize": "ThreadData::mFileSync",
    "ext::ErrorLogger(downstream)": "SyncLogForwarder::mReportSync",
    "Executor::mErrorList": "Executor::mErrorListSync",
    "SuppressionList[nomsg]::mSuppressions": "SuppressionList[nomsg]::mSuppressionsSync",
    "SuppressionList[nofail]::mSuppressions": "SuppressionList[nofail]::mSuppressionsSync",
    "TimerResults::mResults": "TimerResults::mResultsSync",
}
RO_HEADERS = ["lib/settings.h", "lib/library.h", "lib/platform.h", "lib/standards.h", "lib/addoninfo.h", "lib/filesettings.h"]
RO_TYPES = ["Settings", "Library", "Platform", "Standards", "AddonInfo", "FileWithDetails", "FileSettings", "LibraryData"]
# mutable members that were examined: accessor whose call sites must all be main-thread code
RO_EXAMINED = {"lib/filesettings.h:mPathAbsolute": dict(accessor="abspath", why="lazy cache filled by FileWithDetails::abspath(); only called while the command line is parsed")}

_MODEL = None


# ---- model construction -----------------------------------------------------------------------------------

def event_name(cls, inst, name, k, n):
    base = "%s%s::%s" % ("" if cls == "::" else cls, "[%s]" % inst if inst else "", name) if cls != "::" else name
    return base + ("#%d" % k if n > 1 else "")


def build_model(dumps=None, hd=None, all_worker=False):
    t0 = time.time()
    ex = X.extract(dumps, hd)
    phases, st = (X.classify(ex) if not all_worker else ({}, None))
    inl = X.Inliner(ex)
    events = []
    covered = {}
    for cls, c in ex.classes.items():
        byname = {}
        for m in c["methods"]:
            byname.setdefault(m["name"], []).append(m)
        for name, ms in byname.items():
            info = phases.get((cls, name)) or dict(phase="worker" if ms[0]["kind"] == "method" else "main", why="self-test: every member function is a worker event", sites=[])
            for inst in (X.TRACKED.get(cls) or [""]):
                for k, m in enumerate(ms):
                    if m["static"] and cls != "::":
                        continue
                    closed = X.simplify(inl.inst(cls, inst, m["ir"], [(cls, inst, name, m["sig"])]))
                    events.append(dict(name=event_name(cls, inst, name, k, len(ms)), cls=cls, inst=inst, method=name, kind=m["kind"],
                                       phase=info["phase"], why=info["why"], file=m["file"].replace(REPO + "/", ""),
                                       line_b=m["line_b"], line_e=m["line_e"], sig=m["sig"], ir=closed, raw=m["ir"]))
    # which member functions are analysed inside which emitted events
    raw_irs = {}
    for e in events:
        raw_irs.setdefault((e["cls"], e["method"]), []).append(e["raw"])

    def callees(ir, acc):
        if ir[0] == "call":
            acc.add((ir[1], ir[3]))
            return
        for x in ir[1:]:
            if isinstance(x, tuple):
                callees(x, acc)
    direct = {}
    for (cls, name), irs in raw_irs.items():
        s = set()
        for ir in irs:
            callees(ir, s)
        res = set()
        for (c2, n2) in s:
            cc = c2
            while cc:
                if (cc, n2) in raw_irs:
                    res.add((cc, n2))
                    break
                cc = X.BASES.get(cc)
        direct[(cls, name)] = res
    for e in events:
        seen, todo = set(), [(e["cls"], e["method"])]
        while todo:
            k = todo.pop()
            if k in seen:
                continue
            seen.add(k)
            todo += list(direct.get(k, ()))
        e["covers"] = sorted("%s::%s" % k for k in seen)
    unresolved = []
    for (cls, name), info in phases.items():
        ms = [m for m in ex.classes[cls]["methods"] if m["name"] == name]
        if all(m["static"] for m in ms):
            continue
        for s in info["sites"]:
            if s["ctx"] != "tracked":
                continue
            ccls, cname = s["where"].rsplit("::", 1)
            ccls = ccls.rstrip(":") or "::"
            if (ccls, cname) == (cls, name):
                continue
            if (cls, name) not in direct.get((ccls, cname), set()) and not any(n2 == name for (_, n2) in direct.get((ccls, cname), set())):
                # same-named member of an untracked object inside a tracked function is not a reference to this method
                src_line = st.files.get(s["file"], "").split("\n")[s["line"] - 1] if st else ""
                unresolved.append("%s:%d (%s) mentions %s( but the AST walk found no call of %s::%s there: %s" %
                                  (s["file"], s["line"], s["where"], name, cls, name, src_line.strip()[:80]))
    worker = [e for e in events if e["phase"] == "worker" and e["ir"] != ("skip",)]
    mainev = [e for e in events if e["phase"] == "main" and e["ir"] != ("skip",)]
    # locations / mutexes
    locs, mtxs = [], []
    for e in worker + mainev:
        for (k, l, h) in X.accesses(e["ir"]):
            if l not in locs:
                locs.append(l)
        for m in sorted(X.mutexes(e["ir"])):
            if m not in mtxs:
                mtxs.append(m)
    locs.sort()
    mtxs.sort()
    # guard inference (re-checked by Lean: the inference is not trusted)
    guards, guard_notes = {}, {}
    for l in locs:
        accs = [(k, h, e["name"]) for e in worker for (k, ll, h) in X.accesses(e["ir"]) if ll == l and k != "atomic"]
        writes = [a for a in accs if a[0] == "write"]
        if not writes:
            guards[l] = None
            guard_notes[l] = "no worker write (%d worker reads)" % len(accs) if accs else "not accessed by worker events"
            continue
        common = None
        for (k, h, en) in accs:
            common = set(h) if common is None else common & set(h)
        if common:
            guards[l] = sorted(common)[0]
            guard_notes[l] = "held at all %d worker accesses" % len(accs)
        else:
            cnt = {}
            for (k, h, en) in accs:
                for m in h:
                    cnt[m] = cnt.get(m, 0) + 1
            own = [m for m in sorted(cnt) if m.rsplit("::", 1)[0] == l.rsplit("::", 1)[0].replace("->*", "")]
            guards[l] = max(own or sorted(cnt), key=lambda m: cnt[m]) if cnt else None
            guard_notes[l] = "NO COMMON MUTEX over %d worker accesses (%d writes)" % (len(accs), len(writes))
    violations = []
    for e in worker:
        for (k, l, h) in X.accesses(e["ir"]):
            if k == "atomic":
                continue
            g = guards.get(l)
            if g is None:
                if k == "write":
                    violations.append(dict(event=e["name"], kind=k, loc=l, held=sorted(h), guard="readOnly", file=e["file"], line=e["line_b"]))
            elif g not in h:
                violations.append(dict(event=e["name"], kind=k, loc=l, held=sorted(h), guard=g, file=e["file"], line=e["line_b"]))
        for p in X.lock_problems(e["ir"]):
            violations.append(dict(event=e["name"], kind="lock", loc=p, held=[], guard="", file=e["file"], line=e["line_b"]))
    # for every violation: the worker events it can race with in the model (conflicting access to the same location)
    for v in violations:
        if v["kind"] == "lock":
            continue
        v["partners"] = sorted(set(e["name"] for e in worker for (k, l, h) in X.accesses(e["ir"])
                                   if l == v["loc"] and k != "atomic" and (k == "write" or v["kind"] == "write") and not (set(h) & set(v["held"]))))[:8]
    return dict(ex=ex, phases=phases, events=events, worker=worker, main=mainev, locs=locs, mtxs=mtxs, guards=guards, guard_notes=guard_notes,
                violations=violations, unknown=list(ex.unknown) + list(dict.fromkeys(inl.unknown)), unresolved=unresolved,
                clang_errors=ex.clang_errors, atomic=ex.atomic_globals, extract_s=round(time.time() - t0, 2), sites=st)


def get_model():
    global _MODEL
    if _MODEL is None:
        _MODEL = build_model()
    return _MODEL


# ---- Lean generation ----------------------------------------------------------------------------------------

def lean_stmt(ir, M, ind=2):
    pad = " " * ind
    t = ir[0]
    if t == "skip":
        return pad + ".skip"
    if t == "acc":
        return pad + ".acc (.%s %d)" % (ir[1], M["locs"].index(ir[2]))
    if t == "locked":
        return pad + ".locked %d (\n%s)" % (M["mtxs"].index(ir[1]), lean_stmt(ir[2], M, ind + 2))
    if t in ("seq", "alt"):
        return pad + ".%s (\n%s) (\n%s)" % (t, lean_stmt(ir[1], M, ind + 2), lean_stmt(ir[2], M, ind + 2))
    if t in ("loop", "scope"):
        return pad + ".%s (\n%s)" % (t, lean_stmt(ir[1], M, ind + 2))
    raise ValueError(ir)


def lean_ident(name):
    return "ev_" + re.sub(r"[^A-Za-z0-9]+", "_", name).strip("_")


def gen_lean(M):
    L = ["import Cppcheck.Model.Lockset",
         "/-! GENERATED by vlib/props/c16.py from the working tree of /repo (clang JSON AST of cli/threadexecutor.cpp, cli/executor.cpp,",
         "lib/suppressions.cpp, lib/timer.cpp, lib/settings.cpp).  Do not edit. -/",
         "namespace Cppcheck.Gen.LockTable", "open Cppcheck.Lockset", ""]
    L.append("def locNames : List String := [" + ", ".join(json.dumps(l) for l in M["locs"]) + "]")
    L.append("def mtxNames : List String := [" + ", ".join(json.dumps(l) for l in M["mtxs"]) + "]")
    L.append("")
    L.append("/-- guard of every location, inferred by the translator and re-checked by `extracted_table_disciplined` -/")
    gl = []
    for l in M["locs"]:
        g = M["guards"][l]
        gl.append("  /- %d %s: %s -/ %s" % (M["locs"].index(l), l, M["guard_notes"][l], ".readOnly" if g is None else ".mutex %d" % M["mtxs"].index(g)))
    L.append("def guards : List Guard := [\n" + ",\n".join(gl) + "]")
    L.append("def guardOf : GuardMap := guardOfList guards")
    L.append("")
    used = set()
    for grp, evs in (("worker", M["worker"]), ("main", M["main"])):
        for e in evs:
            idn = lean_ident(e["name"])
            while idn in used:
                idn += "_"
            used.add(idn)
            e["lean"] = idn
            L.append("/-- %s  (%s:%d-%d)  phase %s: %s -/" % (e["name"], e["file"], e["line_b"], e["line_e"], e["phase"], e["why"].replace("-/", "- /")[:300]))
            L.append("def %s : Stmt :=\n%s" % (idn, lean_stmt(e["ir"], M)))
            L.append("")
    L.append("/-- events that run on worker threads -/")
    L.append("def workerEvents : List (String × Stmt) := [\n" + ",\n".join("  (%s, %s)" % (json.dumps(e["name"]), e["lean"]) for e in M["worker"]) + "]")
    L.append("/-- events that run on the main thread only (before the spawn / after the join); no discipline is required of them -/")
    L.append("def mainEvents : List (String × Stmt) := [\n" + ",\n".join("  (%s, %s)" % (json.dumps(e["name"]), e["lean"]) for e in M["main"]) + "]")
    L.append("def lockTable : StmtTable := workerEvents.map (·.2)")
    L.append("def mainTable : StmtTable := mainEvents.map (·.2)")
    L.append("")
    # an event whose canonical path starts `acq m, write x, …`: used by `extracted_table_runs` (the extracted table really executes,
    # a second worker blocks on the mutex) and `extracted_witness_unlocked_races` (the same accesses without the lock race)
    def some_path(ir):
        t = ir[0]
        if t == "skip":
            return []
        if t == "acc":
            return [(ir[1], ir[2])]
        if t == "seq":
            return some_path(ir[1]) + some_path(ir[2])
        if t == "locked":
            return [("acq", ir[1])] + some_path(ir[2]) + [("rel", ir[1])]
        return some_path(ir[1])
    wit = [i for i, e in enumerate(M["worker"]) if len(some_path(e["ir"])) >= 3 and some_path(e["ir"])[0][0] == "acq" and some_path(e["ir"])[1][0] == "write"]
    pref = [i for i in wit if M["worker"][i]["name"] == "SyncLogForwarder::reportOut"]
    L.append("/-- index in `workerEvents` of an event whose canonical path starts with `acq m, write x` (%s) -/" %
             (M["worker"][(pref or wit)[0]]["name"] if (pref or wit) else "none found"))
    L.append("def witnessEvent : Nat := %d" % ((pref or wit or [len(M["worker"])])[0]))
    L.append("")
    L.append("/-- (location, mutex) pairs the property record names as protection; checked against `guardOf` -/")
    pairs = []
    for l, m in ANCHOR_GUARDS.items():
        if l in M["locs"] and m in M["mtxs"]:
            pairs.append("(%d, %d)" % (M["locs"].index(l), M["mtxs"].index(m)))
    L.append("def anchorGuards : List (Loc × Mtx) := [" + ", ".join(pairs) + "]")
    L.append("")
    L.append("end Cppcheck.Gen.LockTable")
    return "\n".join(L) + "\n"


def translate(ctx):
    M = get_model()
    ctx.write_gen("LockTable", gen_lean(M))
    return M


# ---- further translator-level obligations -----------------------------------------------------------------------

def method_text(M, cls, name):
    for m in M["ex"].classes.get(cls, {}).get("methods", []):
        if m["name"] == name:
            text = X.strip_comments(open(m["file"], errors="replace").read())
            return "\n".join(text.split("\n")[m["line_b"] - 1:m["line_e"]])
    return ""


def check_spawn_join(M):
    """shape of ThreadExecutor::check and the reference plumbing the alias table (EXTERNAL / BUNDLES / TRACKED instances) relies on"""
    bad = []
    t = method_text(M, "ThreadExecutor", "check")
    decl = [m for m in re.finditer(r"\bThreadData\s+(\w+)\s*\(([^;]*)\)\s*;", t)]
    if len(decl) != 1:
        bad.append("ThreadExecutor::check: expected exactly one `ThreadData <name>(...)` declaration, found %d" % len(decl))
    else:
        var = decl[0].group(1)
        args = [a.strip() for a in decl[0].group(2).split(",")]
        if args[:2] != ["*this", "mErrorLogger"] or "mSuppressions" not in args or "mTimerResults" not in args:
            bad.append("ThreadData constructor arguments changed: %s" % args)
        asy = [m for m in re.finditer(r"std::async\s*\(\s*std::launch::async\s*,\s*&?\s*threadProc\s*,\s*&\s*(\w+)\s*\)", t)]
        if len(asy) != 1 or asy[0].group(1) != var:
            bad.append("ThreadExecutor::check: expected exactly one std::async(std::launch::async, &threadProc, &%s)" % var)
        get = re.search(r"\.\s*get\s*\(\s*\)", t)
        if not get or (asy and get.start() < asy[0].start()):
            bad.append("ThreadExecutor::check: no future::get() after the std::async calls (join)")
        if asy and decl[0].start() > asy[0].start():
            bad.append("ThreadData is declared after the workers are started")
        if re.search(r"\bstd::thread\b|\.detach\s*\(", t):
            bad.append("ThreadExecutor::check uses std::thread / detach")
    t = method_text(M, "ThreadData", "ThreadData")
    if not re.search(r"mLogForwarder\s*\(\s*threadExecutor\s*,\s*errorLogger\s*\)", t):
        bad.append("ThreadData constructor: mLogForwarder(threadExecutor, errorLogger) not found")
    if not re.search(r"mSuppressions\s*\(\s*supprs\s*\)", t) or not re.search(r"mTimerResults\s*\(\s*timerResults\s*\)", t):
        bad.append("ThreadData constructor: mSuppressions(supprs) / mTimerResults(timerResults) not found")
    m = re.search(r"ThreadData\s*\(\s*ThreadExecutor\s*&\s*threadExecutor\s*,\s*ErrorLogger\s*&\s*errorLogger\s*,", t)
    if not m:
        bad.append("ThreadData constructor: parameter list changed")
    t = method_text(M, "SyncLogForwarder", "SyncLogForwarder")
    if not re.search(r"mThreadExecutor\s*\(\s*threadExecutor\s*\)\s*,\s*mErrorLogger\s*\(\s*errorLogger\s*\)", t):
        bad.append("SyncLogForwarder constructor: mThreadExecutor(threadExecutor), mErrorLogger(errorLogger) not found")
    t = method_text(M, "Executor", "Executor")
    if not re.search(r"mSuppressions\s*\(\s*suppressions\s*\)\s*,\s*mErrorLogger\s*\(\s*errorLogger\s*\)\s*,\s*mTimerResults\s*\(\s*timerResults\s*\)", t):
        bad.append("Executor constructor: member initialisers changed")
    # struct Suppressions bundles exactly the two lists
    h = X.strip_comments(open(os.path.join(REPO, "lib/suppressions.h"), errors="replace").read())
    m = re.search(r"struct\s+Suppressions\s*\{([^}]*)\}", h)
    flds = re.findall(r"\bSuppressionList\s+(\w+)\s*;", m.group(1)) if m else []
    other = [x for x in re.findall(r"([\w:<>]+)\s+\w+\s*;", m.group(1))] if m else []
    if sorted(flds) != ["nofail", "nomsg"] or any(x != "SuppressionList" for x in other):
        bad.append("struct Suppressions no longer consists of SuppressionList nomsg, nofail: %s" % (flds,))
    # exactly one executor per run
    cce = M["sites"].files.get("cli/cppcheckexecutor.cpp", "") if M["sites"] else ""
    if len(re.findall(r"\bThreadExecutor\s+\w+\s*\(", cce)) != 1:
        bad.append("cli/cppcheckexecutor.cpp: expected exactly one ThreadExecutor object")
    ci = [r for r in (M["sites"].cce_regions if M["sites"] else []) if r[0] == "CppCheckExecutor::check_internal"]
    if ci:
        body = "\n".join(cce.split("\n")[ci[0][1] - 1:ci[0][2]])
        a, b = body.find("ThreadExecutor"), body.find("reportUnmatchedSuppressions(")
        if a < 0 or b < 0 or b < a:
            bad.append("check_internal: reportUnmatchedSuppressions is not called after the executor ran")
    else:
        bad.append("cli/cppcheckexecutor.cpp: CppCheckExecutor::check_internal not found")
    return bad


def check_public_fields(M):
    bad = []
    if not M["sites"]:
        return bad
    for cls, c in M["ex"].classes.items():
        for f in c["fields"]:
            if f.get("role") in ("data", "linkptr") and f["access"] == "public" and not re.match(r"^const\b", f["type"]):
                rx = re.compile(r"(\.|->)\s*%s\b" % re.escape(f["name"]))
                for rel, text in M["sites"].files.items():
                    for m in rx.finditer(text):
                        line = text.count("\n", 0, m.start()) + 1
                        bad.append("public data field %s::%s is accessed through an object expression at %s:%d" % (cls, f["name"], rel, line))
    return bad


SYNC_ALLOWED = {("externals/simplecpp/simplecpp.cpp", "m_mutex"): "NonExistingFilesCache, inside #ifdef SIMPLECPP_WINDOWS (not compiled on this platform)"}


def check_sync_inventory(M):
    """every mutex declared in lib/ cli/ frontend/ externals is a lock-protected shared object: it must be one the translator
    extracted (a mutex member of an extracted class or a global mutex that occurs in the table), otherwise a new shared object
    exists whose lock discipline nobody checks"""
    bad, inv = [], []
    if not M["sites"]:
        return bad, inv
    known = set()
    for cls, c in M["ex"].classes.items():
        for f in c["fields"]:
            if f.get("role") == "mutex":
                known.add(f["name"])
    for m in M["mtxs"]:
        if m.startswith("global::"):
            known.add(m.split("::", 1)[1])
    texts = dict(M["sites"].files)
    for d in ("externals/simplecpp", "externals/tinyxml2", "externals/picojson"):
        dp = os.path.join(REPO, d)
        for fn in sorted(os.listdir(dp)):
            if fn.endswith((".cpp", ".h")):
                texts["%s/%s" % (d, fn)] = X.strip_comments(open(os.path.join(dp, fn), errors="replace").read())
    for rel, text in sorted(texts.items()):
        if rel.startswith("lib/verifhook"):
            continue
        for m in re.finditer(r"\bstd::(?:recursive_|shared_|timed_|recursive_timed_|shared_timed_)?mutex\s+(\w+)\s*[;{=]", text):
            line = text.count("\n", 0, m.start()) + 1
            name = m.group(1)
            ok = name in known or (rel, name) in SYNC_ALLOWED
            inv.append("%s:%d mutex %s%s" % (rel, line, name, "" if name in known else " — " + SYNC_ALLOWED.get((rel, name), "NOT EXTRACTED")))
            if not ok:
                bad.append("%s:%d: mutex %s guards a shared object that is not in the extracted lock table" % (rel, line, name))
        for m in re.finditer(r"\b(thread_local|std::condition_variable|std::call_once|std::once_flag|pthread_\w+|std::atomic\w*\s*<[^;]*>\s+\w+|std::atomic_\w+\s+\w+)", text):
            if rel.endswith(("keywords.cpp", "tokenize.cpp", "checkstl.cpp")) and m.group(1) == "thread_local":
                continue
            line = text.count("\n", 0, m.start()) + 1
            inv.append("%s:%d %s" % (rel, line, " ".join(m.group(0).split())[:60]))
    return bad, inv


def check_member_pointers(M):
    """a member function of a shared class that is reached through a pointer to member / std::bind / std::mem_fn would be classified
    by who textually names it, not by who calls it: fail closed on `&Class::member` for every extracted class"""
    bad = []
    if not M["sites"]:
        return bad
    names = {}
    for cls, c in M["ex"].classes.items():
        if cls == "::":
            continue
        for m in c["methods"]:
            if m["kind"] == "method":
                names.setdefault(cls, set()).add(m["name"])
    for rel, text in M["sites"].files.items():
        for cls, ms in names.items():
            for m in re.finditer(r"&\s*(?:::)?%s\s*::\s*(\w+)\b(?!\s*::)" % re.escape(cls), text):
                if m.group(1) in ms:
                    line = text.count("\n", 0, m.start()) + 1
                    bad.append("%s:%d: pointer to member function %s::%s" % (rel, line, cls, m.group(1)))
        for m in re.finditer(r"\bstd::mem_fn\s*\(", text):
            line = text.count("\n", 0, m.start()) + 1
            tail = text[m.end():m.end() + 80]
            if any(re.search(r"\b%s\s*::" % re.escape(c), tail) for c in names):
                bad.append("%s:%d: std::mem_fn on a member of an extracted class" % (rel, line))
    return bad


MAIN_OBJECTS = re.compile(r"^(cli_cppcheckexecutor|cli_cmdlineparser|cli_main|cli_filelister|cli_signalhandler|cli_stacktrace|cli_sehwrapper|"
                          r"cli_cppcheckexecutorseh|cli_cppcheckexecutorsig|cli_singleexecutor|cli_processexecutor|fe_\w+)\.o$")


def check_phase_objects(ctx, M):
    """independent re-check of the phase table at the level of the linker: a member function classified main / other must not be
    referenced (undefined symbol = call or address taken; weak definition = inline copy) by an object file that holds worker
    code other than the object that defines it"""
    b = build_repo.bdir("o1")
    objs = sorted(os.path.join(b, "obj", f) for f in os.listdir(os.path.join(b, "obj")) if f.endswith(".o"))
    rc, out, err = core.sh(["nm", "-C"] + objs, timeout=120)
    refs = {}     # demangled function name (without parameter list) -> {object: set(symbol types)}
    cur = None
    for line in out.split("\n"):
        if line.endswith(".o:"):
            cur = os.path.basename(line[:-1])
            continue
        m = re.match(r"^\s*(?:[0-9a-f]+)?\s+([UuWwTt]) (.*)$", line)
        if not m or cur is None:
            continue
        nm = re.sub(r"\[abi:cxx11\]", "", m.group(2))
        nm = re.sub(r"\(.*$", "", nm)
        refs.setdefault(nm, {}).setdefault(cur, set()).add(m.group(1))
    bad, rows = [], []
    for (cls, name), info in M["phases"].items():
        if cls == "::" or info["phase"] not in ("main", "other"):
            continue
        kinds = set(m["kind"] for m in M["ex"].classes[cls]["methods"] if m["name"] == name)
        if kinds != {"method"} or (cls, name) == ("ThreadExecutor", "check"):
            continue
        r = refs.get("%s::%s" % (cls, name), {})
        definers = [o for o, ts in r.items() if "T" in ts or "t" in ts]
        users = sorted(o for o, ts in r.items() if ts & {"U", "W", "w", "u"})
        worker_users = [o for o in users if not MAIN_OBJECTS.match(o) and o not in definers]
        rows.append(dict(member="%s::%s" % (cls, name), phase=info["phase"], defined_in=definers, referenced_by=users))
        inline_only = all(m["file"].endswith((".h", ".hpp")) for m in M["ex"].classes[cls]["methods"] if m["name"] == name)
        if not r and inline_only:
            rows[-1]["note"] = "defined inline in a header and inlined everywhere: no symbol to re-check"
        elif not r:
            bad.append("%s::%s: no symbol found in the built objects (cannot re-check its phase)" % (cls, name))
        if worker_users:
            bad.append("%s::%s is classified %s but the object(s) %s reference it" % (cls, name, info["phase"], worker_users))
    return bad, rows


def check_readonly_shared(M):
    """mutable members, const_casts and pimpl writes in the classes that workers share read-only"""
    bad, listing = [], []
    for h in RO_HEADERS:
        p = os.path.join(REPO, h)
        if not os.path.exists(p):
            bad.append("%s does not exist any more (list of read-only shared classes needs review)" % h)
            continue
        text = X.strip_comments(open(p, errors="replace").read())
        for m in re.finditer(r"\bmutable\b([^;{]*);", text):
            line = text.count("\n", 0, m.start()) + 1
            decl = " ".join(m.group(1).split())
            nm = re.findall(r"(\w+)\s*(?:\{[^}]*\}|=[^;]*)?$", decl)
            name = nm[0] if nm else decl
            key = "%s:%s" % (h, name)
            if "std::mutex" in decl:
                listing.append("%s:%d mutable %s (mutex)" % (h, line, decl))
                continue
            exd = RO_EXAMINED.get(key)
            if not exd:
                bad.append("%s:%d: mutable member `%s` in a class shared read-only between workers (not examined)" % (h, line, decl))
                continue
            sites = M["sites"].sites(name + "#accessor", exd["accessor"]) if M["sites"] else []
            wsites = [s for s in sites if s["ctx"] not in ("main", "other") and s["file"] != h]
            listing.append("%s:%d mutable %s — examined: %s; accessor %s() referenced from %s" %
                           (h, line, decl, exd["why"], exd["accessor"], sorted(set(s["file"] for s in sites if s["file"] != h))))
            if wsites:
                bad.append("%s:%d: accessor %s() of mutable member `%s` is referenced from worker code: %s" %
                           (h, line, exd["accessor"], name, ["%s:%d" % (s["file"], s["line"]) for s in wsites[:4]]))
    rx = re.compile(r"const_cast\s*<\s*(?:const\s+)?(?:struct\s+|class\s+)?(%s)\b[^>]*>" % "|".join(RO_TYPES))
    if M["sites"]:
        for rel, text in M["sites"].files.items():
            for m in rx.finditer(text):
                line = text.count("\n", 0, m.start()) + 1
                bad.append("%s:%d: const_cast to %s" % (rel, line, m.group(1)))
    # Library is a pimpl (std::unique_ptr<LibraryData> mData): a const member could still write through mData
    p = os.path.join(REPO, "lib/library.cpp")
    t = X.strip_comments(open(p, errors="replace").read())
    hdrs = [(m.start(), m.group(0)) for m in re.finditer(r"^[A-Za-z][^\n;{}]*\bLibrary::[^\n;{}]*\)\s*(const)?\s*(noexcept)?\s*\n\{", t, re.M)]
    nconst = 0
    for i, (pos, hd) in enumerate(hdrs):
        end = hdrs[i + 1][0] if i + 1 < len(hdrs) else len(t)
        if re.search(r"\)\s*const", hd):
            nconst += 1
            for m in re.finditer(r"mData->\w+(\s*\[|\.(insert|emplace|push_back|erase|clear|emplace_back|swap|reset|resize|assign)\b|\s*(=|\+=|-=)[^=]|\+\+|--)", t[pos:end]):
                line = t.count("\n", 0, pos + m.start()) + 1
                bad.append("lib/library.cpp:%d: const member of Library writes through mData: %s" % (line, m.group(0).strip()))
    listing.append("lib/library.cpp: %d const member functions of Library scanned for writes through the pimpl pointer mData" % nconst)
    return bad, listing


def _chk_picojson(texts):
    """the global error string is touched only by the stream operator>> / get_last_error; both may only be used by the two
    configuration loaders, and those may only be called from main-thread code"""
    bad = []
    allowed = {"lib/addoninfo.cpp", "lib/settings.cpp", "lib/importproject.cpp"}
    for (lab, t, _, _) in texts:
        if lab.startswith("(") or lab.startswith("externals/"):
            continue
        uses = bool(re.search(r"\b(get_last_error|set_last_error)\b", t))
        for m in re.finditer(r"\bpicojson::value\s+(\w+)\s*;", t):
            if re.search(r">>\s*%s\b" % re.escape(m.group(1)), t):
                uses = True
        if uses and lab not in allowed:
            bad.append("%s uses picojson's stream operator>> / get_last_error (global error string)" % lab)
    for fn, home in (("getAddonInfo\\s*\\(", "lib/addoninfo."), ("loadCppcheckCfg\\s*\\(", "lib/settings."), ("ImportProject\\b", "lib/importproject.")):
        for (lab, t, _, _) in texts:
            if lab.startswith("(") or lab.startswith(home) or lab.startswith("externals/"):
                continue
            if re.search(r"\b%s" % fn, t):
                ph = [pp for rx, pp, why in X.FILE_RULES if re.search(rx, lab)]
                if not ph or ph[0] != "main":
                    bad.append("%s references %s, which uses picojson's global error string, from code that is not main-thread only" % (lab, fn.split("\\")[0]))
    return bad


def _chk_tinyxml_bool(texts):
    bad = []
    for (lab, t, _, _) in texts:
        if lab.startswith("externals/tinyxml2/") or lab.startswith("("):
            continue
        if re.search(r"\bSetBoolSerialization\b", t):
            bad.append("%s calls tinyxml2::XMLUtil::SetBoolSerialization (writes the global writeBoolTrue / writeBoolFalse)" % lab)
    return bad


# objects with static storage that ARE written after their initialisation, or whose declaration is not in the scanned sources:
# each needs an entry here (regex on the demangled symbol, reason, optional check); anything else that is written fails the obligation
STATIC_EXAMINED = [
    (r"^picojson::last_error_t<bool>::s", "picojson's global error string: written only by picojson::set_last_error (stream operator>> of picojson::value); "
                                          "checked on every run: operator>> / get_last_error are used only in lib/addoninfo.cpp, lib/settings.cpp and lib/importproject.cpp "
                                          "(getAddonInfo, loadCppcheckCfg, ImportProject), which are referenced only from cli/cmdlineparser.cpp (main thread, before the workers start)",
     _chk_picojson),
    (r"^tinyxml2::XMLUtil::writeBool(True|False)$", "written only by tinyxml2::XMLUtil::SetBoolSerialization; checked on every run: never referenced from lib/ cli/ frontend/",
     _chk_tinyxml_bool),
    (r"^verifhook::workerFault\(\)::wf$", "verification hook (DANMAR_CPPCHECK_VERIF): written only in the forked, single-threaded worker of the process executor", None),
    (r"^(signalOutput|bStackBelowHeap|mytstack)$", "cli/signalhandler.cpp: written on the main thread while the handlers are registered, before the analysis starts; "
                                                   "read inside the signal handler (signal handlers are outside the model)", None),
    (r"^std::_Sp_make_shared_tag::_S_ti\(\)::__tag$", "libstdc++ type-tag object of std::make_shared, never written", None),
]
WRITE_CALLS = ("insert|emplace|emplace_back|emplace_front|emplace_hint|push_back|push_front|pop_back|pop_front|clear|erase|swap|assign|resize|reserve|"
               "reset|store|exchange|fetch_add|fetch_sub|append|merge|splice|sort|remove|remove_if|unique|try_emplace|insert_or_assign")


def enclosing_block(text, pos):
    """(begin, end) of the innermost brace block that contains `pos`"""
    depth = 0
    i = pos
    while i > 0:
        i -= 1
        c = text[i]
        if c == "}":
            depth += 1
        elif c == "{":
            if depth == 0:
                break
            depth -= 1
    b = i
    depth = 0
    j = pos
    n = len(text)
    while j < n:
        c = text[j]
        if c == "{":
            depth += 1
        elif c == "}":
            if depth == 0:
                break
            depth -= 1
        j += 1
    return b, j


def write_sites(name, is_map, texts, skip):
    """textual writes to the object `name` in the given (label, text, begin, end) ranges; `skip` = (label, begin, end) of the declaration"""
    n = re.escape(name)
    pats = [r"(?<![\w.>])%s\s*(?:\[[^\]]*\]\s*)*(?:=(?!=)|\+=|-=|\*=|/=|\|=|&=|\^=|<<=|>>=|\+\+|--)" % n,
            r"(?:\+\+|--)\s*(?:\w+::)*%s\b" % n,
            r"(?<![\w.>])%s\s*(?:\[[^\]]*\]\s*)*(?:\.|->)\s*(?:%s)\s*\(" % (n, WRITE_CALLS),
            r"&\s*(?:\w+::)*%s\b(?!\s*\()" % n]
    if is_map:
        pats.append(r"(?<![\w.>])%s\s*\[" % n)
    rx = re.compile("|".join("(?:%s)" % p for p in pats))
    out = []
    for (label, text, b, e) in texts:
        for m in rx.finditer(text, b, e):
            if skip and label == skip[0] and skip[1] <= m.start() < skip[2]:
                continue
            # `&&` (logical and / rvalue reference) is not an address-of
            if m.group(0).startswith("&") and m.start() > 0 and text[m.start() - 1] == "&":
                continue
            # `p = &obj;` where p is declared as pointer to const in the same file: a read-only alias
            if m.group(0).startswith("&"):
                lhs = re.search(r"(\w+)\s*=\s*$", text[max(0, m.start() - 60):m.start()])
                if lhs and re.search(r"\bconst\b[^;=()]*\*\s*%s\b" % re.escape(lhs.group(1)), text):
                    continue
            line = text.count("\n", 0, m.start()) + 1
            out.append("%s:%d: %s" % (label, line, " ".join(text[m.start():m.end() + 20].split())[:60]))
    return out


def static_storage(ctx):
    """objects with static storage duration that live in writable sections of the built objects: enumerated from the object
    files of the working tree (nm), each classified; a non-const one that is written somewhere and is not in STATIC_EXAMINED
    fails the obligation (fail closed).  NONE of them is covered by the Lean theorem."""
    b = build_repo.bdir("o1")
    objs = sorted(os.path.join(b, "obj", f) for f in os.listdir(os.path.join(b, "obj")) if f.endswith(".o") and not f.startswith("cli_main"))
    rc, out, err = core.sh(["nm", "-C", "--defined-only"] + objs, timeout=120)
    # the classification is a function of the symbol list and of the sources: cached under that key
    hh = hashlib.sha256(re.sub(r"^[0-9a-f]+ ", "", out, flags=re.M).encode())
    hh.update(open(os.path.abspath(__file__), "rb").read())
    for d in ("lib", "cli", "frontend", "externals/simplecpp", "externals/tinyxml2", "externals/picojson"):
        dp = os.path.join(REPO, d)
        for fn in sorted(os.listdir(dp)):
            if fn.endswith((".h", ".hpp", ".cpp")):
                hh.update(fn.encode())
                hh.update(open(os.path.join(dp, fn), "rb").read())
    cpath = os.path.join(X.CACHE, "statics-%s.json" % hh.hexdigest()[:24])
    if os.path.exists(cpath):
        try:
            return json.load(open(cpath))
        except Exception:
            pass
    cur = None
    syms = []
    guards = set()
    for line in out.split("\n"):
        if line.endswith(".o:"):
            cur = os.path.basename(line[:-1])
            continue
        m = re.match(r"^[0-9a-f]+ ([bBdDuV]) (.*)$", line)
        if not m or cur is None:
            continue
        ty, name = m.group(1), m.group(2)
        if name.startswith("guard variable for "):
            guards.add((cur, name[len("guard variable for "):]))
            continue
        if ty in "V" or re.match(r"^(vtable|typeinfo|typeinfo name|VTT|construction vtable|DW\.ref\.|std::__ioinit|__gnu_cxx|std::__detail)", name) or name == "std::__ioinit":
            continue
        syms.append((cur, ty, name))
    srcs = {}

    def src_of(obj):
        base = obj[:-2]
        for pre, d in (("lib_", "lib"), ("cli_", "cli"), ("fe_", "frontend"), ("ext_", None)):
            if base.startswith(pre):
                n = base[len(pre):] + ".cpp"
                for dd in ([d] if d else ["externals/simplecpp", "externals/tinyxml2"]):
                    p = os.path.join(REPO, dd, n)
                    if os.path.exists(p):
                        return p
        return None
    hdr_text = ""
    all_texts = []
    for d in ("lib", "cli", "frontend", "externals/simplecpp", "externals/tinyxml2", "externals/picojson"):
        dp = os.path.join(REPO, d)
        for fn in sorted(os.listdir(dp)):
            if fn.endswith((".h", ".hpp")):
                hdr_text += X.strip_comments(open(os.path.join(dp, fn), errors="replace").read()) + "\n"
            elif fn.endswith(".cpp"):
                pp = os.path.join(dp, fn)
                srcs[pp] = X.strip_comments(open(pp, errors="replace").read())
                all_texts.append(("%s/%s" % (d, fn), srcs[pp], 0, len(srcs[pp])))
    all_texts.append(("(headers)", hdr_text, 0, len(hdr_text)))
    out_list = []
    seen_u = set()
    unclassified = []
    for (obj, ty, name) in syms:
        if ty == "u":               # one object per program (inline function / template static), listed once
            if name in seen_u:
                continue
            seen_u.add(name)
        p = src_of(obj)
        short = re.sub(r"\[abi:cxx11\]", "", name).split("::")[-1]
        short = re.sub(r"\(.*", "", short)
        is_const = False
        decl = ""
        where = None
        rx = re.compile(r"^[^\n;{}()]*\b%s\b\s*(\[[^\]]*\])?\s*(=|\{|;|\()" % re.escape(short), re.M)
        for (label, text) in ([(p.replace(REPO + "/", ""), srcs[p])] if p and p in srcs else []) + [("(headers)", hdr_text)]:
            cands = [m for m in rx.finditer(text) if not re.search(r"\b(return|using|typedef|case)\b", m.group(0))]
            if cands:
                pick = [m for m in cands if re.search(r"\bstatic\b|\bthread_local\b", m.group(0))] or cands
                decl = " ".join(pick[0].group(0).split())[:100]
                # the declaration statement ends at the next `;` on brace level 0 (skips an initialiser list)
                de, depth = pick[0].end(), 0
                while de < len(text):
                    if text[de] in "{(":
                        depth += 1
                    elif text[de] in "})":
                        depth -= 1
                    elif text[de] == ";" and depth <= 0:
                        break
                    de += 1
                where = (label, text, pick[0].start(), de)
                is_const = bool(re.search(r"\bconst(expr)?\b(?!\s*char\s*\*\s*\w)|\*\s*const\b", decl)) or \
                    bool(re.search(r"\bconst\s+char\s*\*\s*const\b", decl))
                # `static const char *p = ...` : pointer to const, the pointer itself is written once at initialisation
                if re.search(r"\bstatic\s+const\s+char\s*\*\s*\w+\s*=", decl):
                    is_const = True
                break
        kind = "function-local" if "::" in name and "(" in name else "namespace-scope/class-static"
        rec = dict(object=obj if ty != "u" else "(inline, several objects)", symbol=name[:140], section=ty, kind=kind,
                   guarded_init=(obj, name) in guards, declared_const=is_const, decl=decl)
        if not is_const:
            ex = [(why, chk) for (rxp, why, chk) in STATIC_EXAMINED if re.search(rxp, name)]
            if ex:
                rec["class"], rec["why"] = "examined", ex[0][0]
                probs = ex[0][1](all_texts) if ex[0][1] else []
                if probs:
                    rec["class"], rec["why"] = "UNCLASSIFIED", "the condition under which this object was examined no longer holds: " + "; ".join(probs[:3])
            elif re.search(r"\bstd::(atomic|mutex)\b|\batomic<", decl):
                rec["class"], rec["why"] = "synchronisation", "std::atomic / std::mutex object"
            elif where is None:
                rec["class"], rec["why"] = "UNCLASSIFIED", "no declaration found in the scanned sources"
            else:
                label, text, ds, de = where
                if kind == "function-local":
                    bb, be = enclosing_block(text, ds)
                    ranges = [(label, text, bb, be)]
                elif ty in "bd" and re.search(r"\bstatic\b", decl) or "(anonymous namespace)" in name:
                    ranges = [(label, text, 0, len(text))]
                else:
                    ranges = all_texts
                ws = write_sites(short, bool(re.search(r"\bmap\s*<", decl)), ranges, (label, ds, de))
                if ws:
                    rec["class"], rec["why"] = "UNCLASSIFIED", "written outside its initialiser: " + "; ".join(ws[:4])
                else:
                    rec["class"] = "init-only"
                    rec["why"] = ("no textual write (assignment, ++/--, mutating member call, address-of%s) outside its initialiser in %s; "
                                  "initialised %s" % (", operator[] of a map" if re.search(r"\bmap\s*<", decl) else "",
                                                      "the enclosing function" if kind == "function-local" else
                                                      ("its translation unit" if len(ranges) == 1 else "lib/ cli/ frontend/ externals/"),
                                                      "thread-safely on first use ([stmt.dcl]/4)" if kind == "function-local" else "before main"))
            if rec["class"] == "UNCLASSIFIED":
                unclassified.append("%s (%s): %s" % (name[:100], rec["object"], rec["why"]))
        out_list.append(rec)
    mutable = [s for s in out_list if not s["declared_const"]]
    result = dict(total=len(out_list), declared_const=len(out_list) - len(mutable), not_declared_const=len(mutable),
                classes={k: sum(1 for s in mutable if s.get("class") == k) for k in ("init-only", "synchronisation", "examined", "UNCLASSIFIED")},
                unclassified=unclassified,
                note="objects with static storage duration in writable sections of the objects built from the working tree (nm); "
                     "`declared_const` = the defining declaration found in the source says const/constexpr (initialised once: "
                     "dynamic initialisation before main or thread-safe magic static).  The non-const ones are classified by a textual "
                     "write scan (fail closed on an unclassified one).  NONE of these is proved race-free by the Lean theorem.",
                not_declared_const_list=mutable[:120])
    os.makedirs(X.CACHE, exist_ok=True)
    for fn in os.listdir(X.CACHE):
        if fn.startswith("statics-"):
            try:
                os.remove(os.path.join(X.CACHE, fn))
            except OSError:
                pass
    json.dump(result, open(cpath + ".tmp%d" % os.getpid(), "w"))
    os.replace(cpath + ".tmp%d" % os.getpid(), cpath)
    return result


# ---- translator self-tests (corpus) ----------------------------------------------------------------------------

def run_selftests(ctx, res):
    p = os.path.join(core.VERIF, "corpus", "C16", "cases.json")
    if not os.path.exists(p):
        res.oblig("translator:selftests", False, "translation", "corpus/C16/cases.json is missing")
        return
    cases = json.load(open(p))["translator_cases"]
    bad = []
    old = X.set_config({}, {}, {}, {})
    try:
        for c in cases:
            src = os.path.join(ctx.tmp, "st_%s.cpp" % c["name"])
            open(src, "w").write(c["source"])
            X.set_config({k: [""] for k in c["classes"]}, {}, {}, {})
            try:
                M = build_model(dumps=[(src, k) for k in c["classes"]], hd="selftest", all_worker=True)
            except Exception as ex:
                bad.append("%s: translator raised %r" % (c["name"], ex))
                continue
            got = dict(clang_errors=bool(M["clang_errors"]), unknown=bool(M["unknown"]),
                       violations=sorted(set("%s %s" % (v["kind"], v["loc"].split("::")[-1] if v["kind"] != "lock" else "relock") for v in M["violations"])),
                       guards={l.split("::")[-1]: (g.split("::")[-1] if g else None) for l, g in M["guards"].items()})
            exp = c["expect"]
            ok = got["clang_errors"] == exp.get("clang_errors", False) and got["unknown"] == exp["unknown"] and \
                got["violations"] == sorted(exp["violations"]) and all(got["guards"].get(k) == v for k, v in exp.get("guards", {}).items())
            res.case("selftest|" + c["name"], True, dict(tie="translator-selftest", case=c["name"], expect=exp, got=got) if not ok or len(res.samples) < 3 else None)
            res.count("selftest:" + ("rejects" if exp["unknown"] or exp["violations"] else "accepts"))
            if not ok:
                bad.append("%s: expected %s, got %s (unknown: %s)" % (c["name"], exp, got, M["unknown"][:3]))
    finally:
        X.set_config(*old)
    res.oblig("translator:selftests", not bad, "translation", "\n".join(bad))


# ---- ThreadSanitizer (thorough tier / replay) -----------------------------------------------------------------

def tracked_method_at(M, rel, line):
    for e in M["events"]:
        if e["file"] == rel and e["line_b"] <= line <= e["line_e"]:
            return e
    return None


def classify_report(M, rep):
    """-> (key, tracked events touched, text)"""
    touched = []
    for a in rep["accesses"][:2]:
        for (fn, fl, ln) in a["frames"][:12]:
            if fl.startswith(REPO + "/"):
                e = tracked_method_at(M, fl[len(REPO) + 1:], ln)
                if e is not None and e["name"] not in [t["name"] for t in touched]:
                    touched.append(e)
    return TS.report_key(rep), touched


def tsan_cli(ctx, res, M, exe, runs):
    seen = {}
    for i, (opts, jobs, sd) in enumerate(runs):
        proj = TS.gen_project(ctx.rng, i)
        d = os.path.join(ctx.tmp, "tsan_p%d" % i)
        TS.write_project(d, proj, opts)
        r = TS.run_tsan(exe, d, ["-q"] + opts, proj["srcs"], jobs, sd)
        canon = "tsan|%s|j%d|%s" % (" ".join(opts), jobs, hashlib.sha1(json.dumps(proj["files"], sort_keys=True).encode()).hexdigest()[:10])
        nontriv = r["started"] and r["rc"] >= 0 and r["nlines"] >= 4
        res.case(canon, nontriv, dict(tie="tsan-cli", opts=opts, jobs=jobs, sched_seed=sd, files=len(proj["srcs"]), rc=r["rc"],
                                      output_lines=r["nlines"], reports=len(r["reports"])) if i % 4 == 0 else None)
        res.count("tsan:jobs=%d" % jobs)
        for o in opts:
            if o.startswith("--showtime") or o.startswith("--cppcheck-build-dir") or o.startswith("--project") or o == "--inline-suppr":
                res.count("tsan:" + o.split("=")[0] + ("=" + o.split("=")[1] if o.startswith("--showtime") else ""))
        if "cppcheck: error:" in r.get("stdout", "") + r.get("stderr", ""):
            res.oblig("tsan:run-%d-options" % i, False, "machinery", "cppcheck rejected the command line %s: %s" % (opts, (r.get("stdout", "") + r.get("stderr", ""))[-300:]))
        if not r["started"] or r["rc"] == -999:
            res.oblig("tsan:run-%d" % i, False, "machinery", "the -fsanitize=thread binary did not run: %s" % r["stderr"][-400:])
            continue
        res.traces_validated += 1
        for rep in r["reports"]:
            key, touched = classify_report(M, rep)
            if key in seen:
                continue
            seen[key] = True
            replay = dict(kind="tsan-cli", cmd="VERIF_SCHED_SEED=%d %s" % (sd, " ".join(r["cmd"])), project=proj, opts=opts, jobs=jobs, sched_seed=sd, report=rep["raw"][:6000], key=key,
                          touched=[t["name"] for t in touched])
            if rep["kind"] != "data race":
                res.violation("ThreadSanitizer: %s in `cppcheck -j%d --executor=thread %s` (%s)" % (rep["kind"], jobs, " ".join(opts), key), replay,
                              concrete=True, key="tsan:" + key)
                continue
            if touched:
                res.oblig("correspondence:table-vs-tsan", False, "correspondence",
                          "ThreadSanitizer reports a data race inside %s, which the generated lock table covers and calls disciplined / main-phase: the translator or the phase table is wrong.\n%s" %
                          ([t["name"] for t in touched], rep["raw"][:1500]))
            res.violation("ThreadSanitizer data race in `cppcheck -j%d --executor=thread %s` VERIF_SCHED_SEED=%d: %s%s" %
                          (jobs, " ".join(opts), sd, key, " (inside extracted events %s)" % [t["name"] for t in touched] if touched else " (outside the extracted table)"),
                          replay, concrete=True, key="tsan:" + key)
    if "correspondence:table-vs-tsan" not in [o["name"] for o in res.obligations]:
        res.oblig("correspondence:table-vs-tsan", True, "correspondence", "%d TSan runs, no report inside an extracted member function" % len(runs))
    return seen


def tsan_harness(ctx, res):
    """positive / negative control of the detector itself, and the concrete twin of the Lean counterexample"""
    exe = ctx.harness("c16", variant="tsan")
    out = {}
    size = 3000 if ctx.tier == "thorough" else 1200
    for op0 in ("race-unguarded-reader", "norace-guarded-reader", "norace-main-phase"):
        op = "%s %d" % (op0, size)
        logp = os.path.join(ctx.tmp, "h_tsan_" + op0)
        env = {"TSAN_OPTIONS": "halt_on_error=0:exitcode=0:log_path=%s" % logp}
        for wrap in ([], ["setarch", "x86_64", "-R"]):
            rc, lines, err = core.run_lines(wrap + [exe], [], [op], timeout=300, env=env)
            if "FATAL: ThreadSanitizer" not in err:
                break
        text = ""
        for fn in sorted(os.listdir(ctx.tmp)):
            if fn.startswith("h_tsan_" + op0):
                text += open(os.path.join(ctx.tmp, fn), errors="replace").read()
                os.remove(os.path.join(ctx.tmp, fn))
        reps = TS.parse_reports(text + "\n" + err)
        races = [r for r in reps if r["kind"] == "data race"]
        inreader = [r for r in races if "getUnmatchedInlineSuppressions" in r["raw"]]
        if op0 == "race-unguarded-reader" and not inreader:
            # a starved reader thread (loaded machine) may never overlap with the writer: one retry with the full size
            rc, lines, reps, err = run_harness_tsan(ctx, exe, ["%s 3000" % op0], "retry")
            races = [r for r in reps if r["kind"] == "data race"]
            inreader = [r for r in races if "getUnmatchedInlineSuppressions" in r["raw"]]
        op = op0
        out[op] = dict(rc=rc, out=lines, races=len(races), in_reader=len(inreader), sample=(races[0]["raw"][:1200] if races else ""))
        res.case("tsan-harness|" + op, True, dict(tie="tsan-harness", op=op, out=lines, races=len(races)))
    ok = out["race-unguarded-reader"]["in_reader"] > 0 and out["norace-guarded-reader"]["races"] == 0 and out["norace-main-phase"]["races"] == 0
    res.oblig("tsan:detector-controls", ok, "machinery",
              "" if ok else "positive/negative controls of the ThreadSanitizer harness failed: %s" % json.dumps(out)[:1500])
    res.extra["tsan_controls"] = {k: dict(races=v["races"], in_reader=v["in_reader"], out=v["out"]) for k, v in out.items()}
    return out


def run_harness_tsan(ctx, exe, ops, tag):
    logp = os.path.join(ctx.tmp, "h_tsan_" + tag)
    env = {"TSAN_OPTIONS": "halt_on_error=0:exitcode=0:log_path=%s" % logp}
    for wrap in ([], ["setarch", "x86_64", "-R"]):
        rc, lines, err = core.run_lines(wrap + [exe], [], ops, timeout=900, env=env)
        if "FATAL: ThreadSanitizer" not in err:
            break
    text = ""
    for fn in sorted(os.listdir(ctx.tmp)):
        if fn.startswith("h_tsan_" + tag):
            text += open(os.path.join(ctx.tmp, fn), errors="replace").read()
            os.remove(os.path.join(ctx.tmp, fn))
    return rc, lines, TS.parse_reports(text + "\n" + err), err


def worker_phase_methods(M, cls):
    """member functions of `cls` that can run on a worker thread according to the generated phase table"""
    return sorted(set(name for (c, name), v in M["phases"].items() if c == cls and v["phase"] in ("worker", "inlined")))


def tsan_pairs(ctx, res, M):
    """P_impl on the implementation, targeted: every pair of member functions the phase table calls worker-phase, run
    concurrently on ONE shared object, must be free of ThreadSanitizer reports"""
    exe = ctx.harness("c16", variant="tsan")
    rc, lines, _, err = run_harness_tsan(ctx, exe, ["methods"], "methods")
    known = {"S": [], "T": []}
    for w in (lines[0].split()[1:] if lines else []):
        known[w[0]].append(w[2:])
    ops = []
    for tag, cls in (("S", "SuppressionList"), ("T", "TimerResults")):
        wm = [m for m in worker_phase_methods(M, cls) if m in known[tag]]
        missing = [m for m in worker_phase_methods(M, cls) if m not in known[tag] and not all(
            mm["static"] for mm in M["ex"].classes[cls]["methods"] if mm["name"] == m)]
        res.extra.setdefault("tsan_pairs", {})[cls] = dict(worker_phase_methods=wm, not_in_harness=missing)
        pairs = [(a, b) for i, a in enumerate(wm) for b in wm[i:]]
        if ctx.tier != "thorough" and len(pairs) > 8:
            # quick tier: a seeded sample in which every worker-phase member function occurs at least twice, shorter loops
            ctx.rng.shuffle(pairs)
            cnt = {m: 0 for m in wm}
            pick = []
            for (a, b) in pairs:
                if cnt[a] < 2 or cnt[b] < 2:
                    pick.append((a, b))
                    cnt[a] += 1
                    cnt[b] += 1
            pairs = pick
        for (a, b) in pairs:
            ops.append("pair %s %s %s %d" % (tag, a, b, 300 if ctx.tier == "thorough" else 150))
    # control of this very machinery: a writer paired with the unguarded main-phase reader must be reported
    ctl = False
    for n in (300, 1500, 6000):       # retried with longer loops: on a loaded machine one thread may be starved
        rc0, lines0, reps0, err0 = run_harness_tsan(ctx, exe, ["pair S addSuppression getUnmatchedInlineSuppressions %d" % n], "pairctl")
        ctl = any(r["kind"] == "data race" and "getUnmatchedInlineSuppressions" in r["raw"] for r in reps0)
        if ctl:
            break
    unguarded_main = any(e["method"] == "getUnmatchedInlineSuppressions" and e["phase"] == "main" and any(not h for (k, l, h) in X.accesses(e["ir"])) for e in M["main"])
    res.oblig("tsan:pair-control", ctl or not unguarded_main, "machinery",
              "" if ctl or not unguarded_main else "the pair stress did not make ThreadSanitizer report addSuppression || getUnmatchedInlineSuppressions: %s %s" % (lines0, err0[-300:]))
    rc, lines, reps, err = run_harness_tsan(ctx, exe, ops, "pairs")
    okrun = rc == 0 and len(lines) == len(ops) and all(l.endswith("done") for l in lines)
    res.oblig("tsan:pair-harness-ran", okrun, "machinery", "" if okrun else "rc=%s lines=%d/%d %s" % (rc, len(lines), len(ops), err[-500:]))
    for op in ops:
        res.case("tsan-pair|" + op, True, dict(tie="tsan-pair", op=op) if "addSuppression addSuppression" in op or op is ops[0] else None)
        res.count("tsan:pair")
    res.traces_validated += len(lines)
    seen = set()
    for rep in reps:
        key, touched = classify_report(M, rep)
        if key in seen:
            continue
        seen.add(key)
        replay = dict(kind="tsan-pair", ops=ops, key=key, report=rep["raw"][:6000], touched=[t["name"] for t in touched])
        if rep["kind"] == "data race":
            res.oblig("correspondence:table-vs-tsan-pairs", False, "correspondence",
                      "ThreadSanitizer reports a data race between member functions the phase table calls worker-phase and the lock table calls disciplined: %s\n%s" %
                      (key, rep["raw"][:1500]))
        res.violation("ThreadSanitizer %s between worker-phase member functions of one shared object: %s" % (rep["kind"], key), replay, concrete=True, key="tsan:" + key)
    if not seen:
        res.oblig("correspondence:table-vs-tsan-pairs", True, "correspondence", "%d method pairs, no report" % len(ops))
    return reps


def thorough_runs(ctx):
    runs = []
    sd = ctx.seed * 1000
    for i, opts in enumerate(TS.OPTION_SETS):
        runs.append((opts, [4, 2, 8, 3][i % 4], sd + i + 1))
    # second pass over the option sets that exercise the shared objects hardest, other seeds / job counts
    for j, i in enumerate([0, 1, 0, 1, 3, 5, 6, 7, 11, 13]):
        runs.append((TS.OPTION_SETS[i], [8, 2, 2, 4, 3][j % 5], sd + 100 + j))
    return runs


def quick_runs(ctx, more):
    """quick tier: the two per-file showtime modes (the only ones in which a worker prints the shared timer results) with -j4 / -j2,
    plus one option set that rotates with the seed; `more` (after a broken obligation): a wider selection"""
    sd = ctx.seed * 1000
    k = 2 + ctx.seed % (len(TS.OPTION_SETS) - 2)
    runs = [(TS.OPTION_SETS[0], 4, sd + 1), (TS.OPTION_SETS[1], 2, sd + 2), (TS.OPTION_SETS[k], 4, sd + 3)]
    if more:
        runs += [(TS.OPTION_SETS[0], 2, sd + 4), (TS.OPTION_SETS[1], 4, sd + 5), (TS.OPTION_SETS[6], 4, sd + 6), (TS.OPTION_SETS[11], 8, sd + 7)]
    return runs


# ---- the check ---------------------------------------------------------------------------------------------------

def run(ctx, res):
    t0 = time.time()
    try:
        M = translate(ctx)
    except Exception:
        import traceback
        res.oblig("translator:extract", False, "translation", traceback.format_exc())
        core.prove(ctx, res, MODULES[:1], THEOREMS_GENERAL)
        return
    res.extra["translator_s"] = M["extract_s"]
    res.oblig("translator:clang-parses", not M["clang_errors"], "translation", "\n".join(M["clang_errors"]))
    res.oblig("translator:shapes-recognised", not M["unknown"], "translation",
              "unrecognised constructs inside member functions of shared objects (fail closed):\n" + "\n".join(M["unknown"][:20]))
    res.oblig("translator:call-sites-resolved", not M["unresolved"], "translation", "\n".join(M["unresolved"][:20]))
    bad = check_spawn_join(M)
    res.oblig("translator:spawn-join-and-plumbing", not bad, "translation", "\n".join(bad))
    bad = check_public_fields(M)
    res.oblig("translator:public-fields-not-accessed-outside", not bad, "translation", "\n".join(bad[:20]))
    missing = [("%s guarded by %s" % (l, m)) for l, m in ANCHOR_GUARDS.items() if l not in M["locs"] or m not in M["mtxs"]]
    res.oblig("translator:anchors-present", not missing, "translation",
              "locations / mutexes named by the property record that the extraction no longer finds: " + "; ".join(missing))
    at = M["atomic"].get("Settings::mTerminated", "")
    res.oblig("atomic:Settings::mTerminated", "atomic<bool>" in at, "translation", "type of Settings::mTerminated: %r" % at)
    bad, listing = check_readonly_shared(M)
    res.oblig("readonly_shared_has_no_mutable_state", not bad, "translation", "\n".join(bad[:20]))
    res.extra["readonly_shared"] = listing
    res.oblig("table:worker-events-disciplined", not M["violations"], "translation",
              "worker-phase events that access a shared location without its guard (the Lean `decide` fails on the same table):\n" +
              "\n".join("%s (%s:%d): %s of %s holding %s, guard %s; can race with %s" % (v["event"], v["file"], v["line"], v["kind"], v["loc"], v["held"], v["guard"], v.get("partners", [])) for v in M["violations"][:20]))
    run_selftests(ctx, res)
    # evidence: the tables
    for e in M["events"]:
        accs = X.accesses(e["ir"])
        nt = bool(accs) or bool(X.mutexes(e["ir"]))
        res.case("event|%s|%s" % (e["name"], json.dumps(e["ir"])), nt,
                 dict(tie="translator", event=e["name"], phase=e["phase"], where="%s:%d-%d" % (e["file"], e["line_b"], e["line_e"]),
                      accesses=len(accs), locks=sorted(X.mutexes(e["ir"]))) if e["name"] in ("threadProc", "SuppressionList[nomsg]::getUnmatchedInlineSuppressions", "SyncLogForwarder::reportErr") else None)
        res.count("phase:" + e["phase"])
    res.extra["phase_table"] = [dict(member="%s::%s" % k if k[0] != "::" else k[1], phase=v["phase"], justification=v["why"],
                                     reference_sites=sorted(set("%s:%d [%s %s]" % (s["file"], s["line"], s["ctx"], s["where"]) for s in v["sites"]
                                                                if s["ctx"] != "worker" or not s["file"].startswith("lib/")))[:25],
                                     worker_reference_files=sorted(set(s["file"] for s in v["sites"] if s["ctx"] == "worker"))[:12])
                                for k, v in M["phases"].items()]
    res.extra["guard_table"] = [dict(location=l, guard=M["guards"][l] or "readOnly", basis=M["guard_notes"][l]) for l in M["locs"]]
    res.extra["worker_events"] = [dict(event=e["name"], where="%s:%d-%d" % (e["file"], e["line_b"], e["line_e"]), covers=e["covers"]) for e in M["worker"]]
    res.extra["main_events"] = [dict(event=e["name"], where="%s:%d-%d" % (e["file"], e["line_b"], e["line_e"]), justification=e["why"],
                                     unguarded=sorted(set(l for (k, l, h) in X.accesses(e["ir"]) if not h and (M["guards"].get(l)))))
                                for e in M["main"]]
    bad, inv = check_sync_inventory(M)
    res.extra["sync_inventory"] = inv
    res.oblig("translator:every-mutex-extracted", not bad, "translation", "\n".join(bad[:20]))
    bad = check_member_pointers(M)
    res.oblig("translator:no-member-function-pointers", not bad, "translation", "\n".join(bad[:20]))
    try:
        bad, rows = check_phase_objects(ctx, M)
        res.extra["phase_object_recheck"] = rows
        res.oblig("phase:object-level-recheck", not bad, "translation", "\n".join(bad[:20]))
    except Exception as ex:
        res.oblig("phase:object-level-recheck", False, "translation", repr(ex))
    try:
        st = static_storage(ctx)
        res.extra["static_storage_not_proved"] = st
        res.oblig("statics:mutable-statics-classified", not st["unclassified"], "translation",
                  "objects with static storage duration that are not const, are written outside their initialiser (or have no declaration in "
                  "the scanned sources) and have not been examined — a worker could share them unsynchronised:\n" + "\n".join(st["unclassified"][:20]))
        for x in st["not_declared_const_list"]:
            res.assumptions.append("static storage, NOT covered by the theorem: %s [%s] — %s: %s" % (x["symbol"][:90], x["object"], x.get("class"), x.get("why", "")[:260]))
        res.assumptions.append("static storage: the other %d objects in writable sections are declared const/constexpr in the source (dynamic initialisation before "
                               "main or thread-safe magic static); not checked further" % st["declared_const"])
    except Exception as ex:
        res.extra["static_storage_not_proved"] = dict(error=repr(ex))
        res.oblig("statics:mutable-statics-classified", False, "translation", repr(ex))
    res.assumptions.append("read-only sharing (settings, library data, cached paths): const Settings& (with Library, Platform, Standards, AddonInfo) and the file lists are "
                           "covered only by the textual obligation readonly_shared_has_no_mutable_state (no unexamined `mutable`, no const_cast to these types, no write "
                           "through Library::mData in const members), not by the Lean theorem")
    res.assumptions.append("phase table: a member function is worker-phase iff it is virtual or referenced from the files/functions listed in c16_extract.FILE_RULES / "
                           "CCE_WORKER_REGIONS; re-checked at object-file level (phase:object-level-recheck) and dynamically by the TSan method pairs")
    for e in M["main"]:
        ung = sorted(set(l for (k, l, h) in X.accesses(e["ir"]) if not h and M["guards"].get(l)))
        if ung and e["kind"] == "method":
            res.assumptions.append("main-phase event %s accesses %s without its guard; assumed unreachable from workers because: %s" % (e["name"], ung, e["why"][:300]))
    res.assumptions.append("the theorem is about the extracted access/lock table and a sequentially consistent interleaving model; for programs whose only "
                           "synchronisation is mutexes and fork/join every happens-before race of the C++ memory model shows up as two adjacent conflicting "
                           "accesses of some interleaving (data-race-free theorem, Adve & Hill / Boehm & Adve PLDI 2008) — used, not proved here")
    # proofs: general theorems first (independent of the generated table), then the table theorems
    # one lake invocation in the normal case (the lake lock is shared with every other check); when it fails the two
    # modules are built separately so that a broken generated table does not hide the state of the general theorems
    trial = core.Result(ctx, LEVEL)
    if core.prove(ctx, trial, MODULES, THEOREMS):
        res.obligations += trial.obligations
        res.checker_cmds += trial.checker_cmds
        res.extra.update(trial.extra)
    else:
        core.prove(ctx, res, MODULES[:1], THEOREMS_GENERAL)
        core.prove(ctx, res, MODULES[1:], THEOREMS_TABLE)
    res.extra["quick_s"] = round(time.time() - t0, 1)
    undis = [o for o in res.obligations if not o["ok"]]
    if ctx.tier == "thorough":
        exe = ctx.build_repo("tsan")
        tsan_harness(ctx, res)
        tsan_pairs(ctx, res, M)
        tsan_cli(ctx, res, M, exe, thorough_runs(ctx))
        return
    # quick tier: the dynamic tie (detector controls + pairs of worker-phase member functions + a few CLI runs) runs whenever the
    # -fsanitize=thread build of the working tree is up to date or needs at most a handful of translation units; its cold build
    # (minutes) belongs to the thorough tier.  Skipping is recorded as an explicit assumption, never silently.  After a broken
    # obligation the tie is NEVER skipped (violation search: the build is brought up to date whatever it costs).
    stale = tsan_staleness()
    res.extra["tsan_quick"] = dict(stale_steps=stale)
    if not undis and (stale is None or stale > 6):
        res.assumptions.append("quick tier: the -fsanitize=thread build of the working tree is %s — the dynamic tie (TSan controls, method pairs, CLI runs) was "
                               "SKIPPED in this run; `./check.py C16 --tier thorough` builds it and runs the tie" %
                               ("missing" if stale is None else "stale (%d build steps)" % stale))
        return
    exe = ctx.build_repo("tsan")
    tsan_harness(ctx, res)
    tsan_pairs(ctx, res, M)
    tsan_cli(ctx, res, M, exe, quick_runs(ctx, bool(undis)))
    res.extra["tsan_quick"]["ran"] = True


def tsan_staleness():
    """number of build steps the tsan variant needs (0 = up to date), None if it was never built"""
    b = build_repo.bdir("tsan")
    if not os.path.exists(os.path.join(b, "bin", "cppcheck")):
        return None
    with build_repo.Lock("repo-tsan"):
        build_repo.write_ninja("tsan")
        r = subprocess.run(["ninja", "-C", b, "-n"], stdout=subprocess.PIPE, stderr=subprocess.STDOUT, text=True)
    if "no work to do" in r.stdout:
        return 0
    return max(1, len(re.findall(r"^\[\d+/\d+\]", r.stdout, re.M)))


def replay(ctx, res, rp):
    """re-run one stored TSan case; 1 if it still reports"""
    if rp.get("kind") == "tsan-pair":
        ctx.build_repo("tsan")
        exe = ctx.harness("c16", variant="tsan")
        rc, lines, reps, err = run_harness_tsan(ctx, exe, rp["ops"], "replay")
        hit = rp.get("key") in [TS.report_key(x) for x in reps]
        print("replay: %s" % ("REPRODUCED %s" % rp.get("key") if hit else "not reproduced"))
        return 1 if hit else 0
    if rp.get("kind") != "tsan-cli":
        print("replay: nothing to run for this record (obligation-only replay); re-run ./check.py C16")
        return 0
    M = get_model()
    exe = ctx.build_repo("tsan")
    d = os.path.join(ctx.tmp, "replay")
    TS.write_project(d, rp["project"], rp["opts"])
    n = 0
    for k in range(5):
        r = TS.run_tsan(exe, d, ["-q"] + rp["opts"], rp["project"]["srcs"], rp["jobs"], rp["sched_seed"] + k)
        keys = [TS.report_key(x) for x in r["reports"]]
        if rp.get("key") in keys or (not rp.get("key") and keys):
            n += 1
            print("replay: still reported (attempt %d): %s" % (k, rp.get("key")))
            break
    print("replay: %s" % ("REPRODUCED" if n else "not reproduced in 5 attempts"))
    return 1 if n else 0

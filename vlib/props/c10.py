"""C10 — literal and constant values match the compiler on each platform.

Obligations
  theorems   Cppcheck.Props.C10 (Lean, unbounded): toBig_render / toBigU_render (every rendered literal of the grammar: all
             bases, any number of digits, any accepted suffix, optional sign, magnitude < 2^64 ⇒ exact value mod 2^64),
             toBig_rejects_overflow_partial (+ proved counterexample: binary literals wrap), isInt_iff_grammar, suffix_iff_spec,
             charlit_value (full strength since bed3bd1; counterexample theorem about the pre-fix function), truncate_eq_wrap/_signed/_unsigned, minmax_*,
             const_unsigned_adjust, and the table theorems re-proved over the platform table generated on this run.
  T1         Platform::set (lib/platform.cpp) + platforms/*.xml + the element→field chain of loadFromXmlDocument
             → lean/Cppcheck/Gen/Platforms.lean (fail closed); the scalar chain of ValueType::getSizeOf and the
             type→bits switch of getMinMaxValues → Gen.sizeOfSrc / Gen.bitsOfSrc (theorems: model = source chain)
  C1..C5     in-process correspondence (harness/c10.cpp vs lean/Driver/C10.lean): classification, toBigNumber/toBigUNumber,
             characterLiteralToLL, getSuffix, truncateIntValue/getMinMaxValues, Platform::set(name) + getSizeOf
  C6         CLI: `cppcheck --dump` of literal / constant-expression programs per platform; the reported known value of every
             literal token is compared with the model (toBigNumber + literal branch of valueFlowSetConstantValue)
  C7         CLI: unary operators ~ - ! + on casts / const variables of every integer type, all built-in platforms: operator token value
             = model foldUnary (branches of setTokenValue) on the operand token's value and type; P_impl: = Lean spec cUnary (promotion first)
P_impl       (i) the real converters on the spelling of a structured literal give the value of the Lean SPEC (`lit`/`clit` ops);
             (ii) truncateIntValue = two's complement wrap; (iii) the reported known value of a constant expression = value of
             the C abstract machine for the platform (python reference evaluator).  The thorough tier validates the SPEC side
             (Lean literal values, reference evaluator, reference data models) against clang-14 static_assert probes / target macros.
Findings     known_findings.d/C10.json (F5, F10b, F10c, F10h, F10i, F10j, F10k; fixed: F10d a4b8285, F10e 731a3b3, F10f bed3bd1, F10g 3fa1f26); witnesses in corpus/C10/cases.json
"""
import os, re, json, glob, subprocess
import xml.etree.ElementTree as ET
from .. import core, build_repo

ID = "C10"
LEVEL = "other"
RULE = ("cases = literal spellings (bases × digit runs around 2^7..2^64 × every suffix spelling incl. i64/uz/user-defined, "
        "signs, malformed neighbours), character literals (prefix × escapes × multi-char × UTF-8 × malformed), "
        "truncation triples, platform/type pairs, constant-expression programs per platform, and unary-operator programs "
        "(operator × operand type × boundary values × cast/const-variable/comparison form) per platform; "
        "non-trivial = the input is accepted by at least one classifier or reaches a conversion branch (not the "
        "generic invalid_argument path), resp. the program yields at least one known value")
EXPLANATION = ("partial: Lean theorems hold for every integer literal of the grammar (unbounded digit strings, all bases/suffixes) incl. the "
               "composition spelling -> type (C09 litTypeCore) -> reported value (literal_value), every well-formed character literal, "
               "truncateIntValue and castValue for all values/sizes, the unary folding branches (~ - !) on every platform shape, and the whole "
               "platform table extracted on this run; tie = translator + differential correspondence of every modelled function + CLI dump "
               "(literal, cast and unary-operator tokens compared with the model). "
               "NOT modelled, only sampled through the CLI against a reference evaluator: folding of BINARY operators (findings F5, F10b, F10c), "
               "floating literal values (F10k) and boolean literals, literal type selection beyond what C09 proves. Findings on platform files / "
               "casts: F10h, F10i, F10j. Outside: raw UTF-8 in charlit_value (correspondence only), multi-character constants wider than the "
               "platform's int, wide literals above the signed range of wchar_t.")
THEOREMS = [
    "Cppcheck.C10.toBig_render", "Cppcheck.C10.toBigU_render", "Cppcheck.C10.toBig_rejects_overflow_partial",
    "Cppcheck.C10.toBig_rejects_overflow_counterexample", "Cppcheck.C10.toBig_bin_wraps",
    "Cppcheck.C10.isInt_iff_grammar", "Cppcheck.C10.suffix_iff_spec", "Cppcheck.C10.suffix_iff_spec_std", "Cppcheck.C10.literal_value",
    "Cppcheck.C10.cast_eq_wrap",
    "Cppcheck.C10.charlit_value", "Cppcheck.C10.charlit_value_before_fix_counterexample",
    "Cppcheck.C10.truncate_eq_wrap", "Cppcheck.C10.truncate_signed", "Cppcheck.C10.truncate_unsigned",
    "Cppcheck.C10.minmax_eq_range_partial", "Cppcheck.C10.minmax_counterexample", "Cppcheck.C10.const_unsigned_adjust",
    "Cppcheck.C10.char_platform_sign", "Cppcheck.C10.const_signed_type",
    "Cppcheck.C10.fold_lnot", "Cppcheck.C10.fold_bnot_partial", "Cppcheck.C10.fold_bnot_counterexample",
    "Cppcheck.C10.fold_bnot_ulonglong_counterexample", "Cppcheck.C10.fold_neg_partial", "Cppcheck.C10.fold_neg_unsigned_counterexample",
    "Cppcheck.C10.sizeof_table", "Cppcheck.C10.sizeOf_eq_source", "Cppcheck.C10.bitsOf_eq_source",
    "Cppcheck.C10.platforms_sane", "Cppcheck.C10.platform_ranges_defined",
]
MODULES = ["Cppcheck.Props.C10"]


class Unrecognised(Exception):
    pass


# ------------------------------------------------------------------------------------------------------------
# T1: translator  lib/platform.cpp + platforms/*.xml + getSizeOf / getMinMaxValues chains → Gen/Platforms.lean
# ------------------------------------------------------------------------------------------------------------
FIELDS = ["sizeof_bool", "sizeof_short", "sizeof_int", "sizeof_long", "sizeof_long_long", "sizeof_float", "sizeof_double",
          "sizeof_long_double", "sizeof_wchar_t", "sizeof_size_t", "sizeof_pointer"]
NATIVE_TYPES = {"bool", "short", "int", "long", "long long", "float", "double", "long double", "wchar_t", "std::size_t", "void *"}


def strip_comments(text):
    text = re.sub(r"/\*.*?\*/", "", text, flags=re.S)
    return re.sub(r"//[^\n]*", "", text)


def function_body(text, header_re):
    """body of the first function whose header matches, found by brace counting (strings in these windows hold no braces)"""
    m = re.search(header_re, text)
    if not m:
        raise Unrecognised("function header not found: " + header_re)
    i = text.index("{", m.end() - 1)
    depth, j = 0, i
    while j < len(text):
        if text[j] == "{":
            depth += 1
        elif text[j] == "}":
            depth -= 1
            if depth == 0:
                return text[i + 1:j]
        j += 1
    raise Unrecognised("unbalanced braces after " + header_re)


def native_probe(ctx, types):
    """sizes of the host types named in the Native branch, by the compiler that builds /repo"""
    src = "#include <cstdio>\n#include <cstddef>\n#include <limits>\nint main(){\n"
    for t in types:
        src += 'std::printf("%%zu\\n", sizeof(%s));\n' % t
    src += 'std::printf("%d\\n", (int)std::numeric_limits<char>::is_signed);\n}\n'
    p = os.path.join(ctx.tmp, "native_probe.cpp")
    open(p, "w").write(src)
    exe = os.path.join(ctx.tmp, "native_probe")
    rc, out, err = core.sh(["g++", "-std=c++17", p, "-o", exe])
    if rc != 0:
        raise Unrecognised("native probe does not compile: " + err[-300:])
    rc, out, err = core.sh([exe])
    vals = [int(x) for x in out.split()]
    return vals[:-1], bool(vals[-1])


def parse_platform_set(ctx, repo):
    text = strip_comments(open(os.path.join(repo, "lib", "platform.cpp")).read())
    body = function_body(text, r"bool\s+Platform::set\s*\(\s*Type\s+t\s*\)\s*\{")
    lines = [l.strip() for l in body.split("\n") if l.strip()]
    if lines[0] != "switch (t) {":
        raise Unrecognised("Platform::set: expected switch (t) {, got " + lines[0])
    groups, labels, cur, i = [], [], None, 1
    trailer = []
    while i < len(lines):
        l = lines[i]
        m = re.match(r"^case Type::(\w+):$", l)
        if m:
            if cur is not None and cur["stmts"]:
                raise Unrecognised("Platform::set: fall-through into case " + m.group(1))
            if cur is None:
                cur = dict(labels=[], stmts=[], vals={}, native_types={}, native_sign=False)
            cur["labels"].append(m.group(1))
            i += 1
            continue
        if cur is None:
            trailer.append(l)
            i += 1
            continue
        m = re.match(r"^(sizeof_\w+) = (\d+);$", l)
        if m and m.group(1) in FIELDS:
            cur["vals"][m.group(1)] = int(m.group(2)); cur["stmts"].append(l); i += 1; continue
        m = re.match(r"^(sizeof_\w+) = sizeof\(([\w :*]+)\);$", l)
        if m and m.group(1) in FIELDS and m.group(2).strip() in NATIVE_TYPES:
            cur["native_types"][m.group(1)] = m.group(2).strip(); cur["stmts"].append(l); i += 1; continue
        m = re.match(r"^windows = (true|false);$", l)
        if m:
            cur["vals"]["windows"] = (m.group(1) == "true"); cur["stmts"].append(l); i += 1; continue
        m = re.match(r"^defaultSign = '([su])';$", l)
        if m:
            cur["vals"]["defaultSign"] = m.group(1); cur["stmts"].append(l); i += 1; continue
        m = re.match(r"^char_bit = (\d+);$", l)
        if m:
            cur["vals"]["char_bit"] = int(m.group(1)); cur["stmts"].append(l); i += 1; continue
        if l == "type = t;" or l == "calculateBitMembers();":
            cur["stmts"].append(l); i += 1; continue
        if l == "if (type == Type::Unspecified) {":
            want = ["defaultSign = '\\0';", "} else {", "defaultSign = std::numeric_limits<char>::is_signed ? 's' : 'u';", "}"]
            if lines[i + 1:i + 5] != want:
                raise Unrecognised("Platform::set: native defaultSign shape: %s" % lines[i:i + 5])
            cur["native_sign"] = True; cur["stmts"].append(l); i += 5; continue
        if l in ("return true;", "return false;"):
            cur["ret"] = (l == "return true;")
            groups.append(cur); cur = None; i += 1; continue
        raise Unrecognised("Platform::set: statement not understood: " + l)
    if cur is not None:
        raise Unrecognised("Platform::set: case group without return")
    if trailer != ["}", "return false;"]:
        raise Unrecognised("Platform::set: unexpected trailer %s" % trailer)
    # name -> Type of Platform::set(const std::string&, ...)
    body2 = function_body(text, r"bool\s+Platform::set\s*\(\s*const\s+std::string\s*&\s*platformstr")
    names = dict((m.group(2), m.group(1)) for m in re.finditer(r'platformstr == "(\w+)"\)\s*set\(Type::(\w+)\);', body2))
    n_if = len(re.findall(r"platformstr ==", body2))
    if n_if != len(names):
        raise Unrecognised("Platform::set(string): %d comparisons, %d understood" % (n_if, len(names)))
    # calculateBitMembers must be the seven products char_bit * sizeof_x
    htext = strip_comments(open(os.path.join(repo, "lib", "platform.h")).read())
    cb = [l.strip() for l in function_body(htext, r"void\s+calculateBitMembers\s*\(\s*\)\s*\{").split("\n") if l.strip()]
    want = ["%s_bit = char_bit * sizeof_%s;" % (x, x) for x in ("short", "int", "long", "long_long", "float", "double", "long_double")]
    if cb != want:
        raise Unrecognised("calculateBitMembers: %s" % cb)
    plats, native = [], None
    for g in groups:
        if not g.get("ret"):
            if g["labels"] != ["File"] or g["stmts"]:
                raise Unrecognised("Platform::set: group returning false: %s" % g["labels"])
            continue
        if g["native_types"]:
            if sorted(g["labels"]) != ["Native", "Unspecified"] or not g["native_sign"] or set(g["native_types"]) != set(FIELDS):
                raise Unrecognised("Platform::set: native group shape")
            order = list(g["native_types"].items())
            sizes, signed = native_probe(ctx, [t for _, t in order])
            vals = dict(g["vals"])
            for (f, _), s in zip(order, sizes):
                vals[f] = s
            vals["defaultSign"] = "s" if signed else "u"
            native = vals
            continue
        need = set(FIELDS) | {"windows", "defaultSign", "char_bit"}
        if set(g["vals"]) != need:
            raise Unrecognised("Platform::set: case %s sets %s" % (g["labels"], sorted(set(g["vals"]) ^ need)))
        for lab in g["labels"]:
            nm = names.get(lab)
            if nm is None:
                raise Unrecognised("Platform::set: Type::%s has no platform string" % lab)
            plats.append((nm, dict(g["vals"])))
    if native is None or "Native" not in names or names.get("Native") != "native":
        raise Unrecognised("Platform::set: native group missing")
    for k in ("windows", "char_bit"):
        if k not in native:
            raise Unrecognised("native group does not set " + k)
    return plats, native


def parse_xml_chain(repo):
    """element name → field, from Platform::loadFromXmlDocument"""
    text = strip_comments(open(os.path.join(repo, "lib", "platform.cpp")).read())
    body = function_body(text, r"bool\s+Platform::loadFromXmlDocument\s*\(")
    top = dict((m.group(1), m.group(2)) for m in re.finditer(r'std::strcmp\(name, "([\w-]+)"\) == 0\)\s*(\w+) = xmlTextAsUInt\(node, error\);', body))
    sz = dict((m.group(1), m.group(2)) for m in re.finditer(r'std::strcmp\(szname, "([\w-]+)"\) == 0\)\s*(\w+) = xmlTextAsUInt\(sz, error\);', body))
    if top != {"char_bit": "char_bit"}:
        raise Unrecognised("loadFromXmlDocument: top-level numeric elements %s" % top)
    if sorted(sz.values()) != sorted(FIELDS):
        raise Unrecognised("loadFromXmlDocument: sizeof children %s" % sz)
    if not re.search(r'std::strcmp\(name, "default-sign"\) == 0\) \{\s*const char \* const str = xmlText\(node, error\);\s*if \(!error\)\s*defaultSign = \*str;', body):
        raise Unrecognised("loadFromXmlDocument: default-sign shape")
    if not re.search(r'std::strcmp\(node->Name\(\), "windows"\) == 0\) \{\s*windows = xmlTextAsBool\(node, error\);', body):
        raise Unrecognised("loadFromXmlDocument: windows shape")
    n_cmp = len(re.findall(r"std::strcmp\(", body))
    if n_cmp != 5 + len(sz):      # platform root, default-sign, char_bit, sizeof, windows + the sizeof children
        raise Unrecognised("loadFromXmlDocument: %d strcmp calls, expected %d" % (n_cmp, 5 + len(sz)))
    if "calculateBitMembers();" not in body:
        raise Unrecognised("loadFromXmlDocument: calculateBitMembers not called")
    return sz


def parse_xml_platforms(repo, native, sz_chain):
    out = []
    for p in sorted(glob.glob(os.path.join(repo, "platforms", "*.xml"))):
        root = ET.parse(p).getroot()
        if root.tag != "platform":
            raise Unrecognised("%s: root element %s" % (p, root.tag))
        vals = dict(native)       # Platform() constructor = set(Native); the file overrides what it mentions
        for node in root:
            if node.tag == "default-sign":
                if not node.text:
                    raise Unrecognised("%s: empty default-sign" % p)
                vals["defaultSign"] = node.text[0]
            elif node.tag == "char_bit":
                vals["char_bit"] = int(node.text)
            elif node.tag == "sizeof":
                for c in node:
                    if c.tag in sz_chain:
                        vals[sz_chain[c.tag]] = int(c.text)
            elif node.tag == "windows":
                vals["windows"] = node.text.strip() in ("true", "1")
        if vals["defaultSign"] not in "su":
            raise Unrecognised("%s: default-sign %r" % (p, vals["defaultSign"]))
        out.append((os.path.basename(p)[:-4], vals))
    if not out:
        raise Unrecognised("no platform files found")
    return out


VT_CTYPE = {"BOOL": "bool", "CHAR": "char", "SHORT": "short", "WCHAR_T": "wchar", "INT": "int", "LONG": "long", "LONGLONG": "longlong",
            "FLOAT": "float", "DOUBLE": "double", "LONGDOUBLE": "longdouble"}
FIELD_LEAN = {"sizeof_bool": "sizeofBool", "sizeof_short": "sizeofShort", "sizeof_int": "sizeofInt", "sizeof_long": "sizeofLong",
              "sizeof_long_long": "sizeofLongLong", "sizeof_float": "sizeofFloat", "sizeof_double": "sizeofDouble",
              "sizeof_long_double": "sizeofLongDouble", "sizeof_wchar_t": "sizeofWchar", "sizeof_size_t": "sizeofSizeT",
              "sizeof_pointer": "sizeofPointer"}
BIT_LEAN = {"char_bit": "p.charBit", "short_bit": "p.charBit * p.sizeofShort", "int_bit": "p.charBit * p.sizeofInt",
            "long_bit": "p.charBit * p.sizeofLong", "long_long_bit": "p.charBit * p.sizeofLongLong"}


def parse_getsizeof(repo):
    """scalar chain at the head of ValueType::getSizeOf → [(ctype, lean expr)]"""
    text = strip_comments(open(os.path.join(repo, "lib", "symboldatabase.cpp")).read())
    body = function_body(text, r"size_t\s+ValueType::getSizeOf\s*\(")
    head = body.split("if (type == ValueType::Type::CONTAINER)")[0]
    lines = [l.strip() for l in head.split("\n") if l.strip()]
    chain = []
    i = 0
    pre = ["if (maxRecursion > settings.vfOptions.maxSizeOfRecursion) {", "return 0;", "}", "const auto& platform = settings.platform;",
           "if (sizeOf == SizeOf::Pointer && (pointer || reference != Reference::None))", "return platform.sizeof_pointer;"]
    if lines[:len(pre)] != pre:
        raise Unrecognised("getSizeOf: prologue %s" % lines[:len(pre)])
    chain.append(("pointer", "p.sizeofPointer"))
    i = len(pre)
    while i < len(lines):
        m = re.match(r"^if \((type == ValueType::Type::\w+(?: \|\| type == ValueType::Type::\w+)*)\)$", lines[i])
        if not m or i + 1 >= len(lines):
            raise Unrecognised("getSizeOf: " + lines[i])
        tys = re.findall(r"ValueType::Type::(\w+)", m.group(1))
        r = lines[i + 1]
        mm = re.match(r"^return platform\.(sizeof_\w+);$", r)
        if mm and mm.group(1) in FIELD_LEAN:
            e = "p." + FIELD_LEAN[mm.group(1)]
        elif re.match(r"^return (\d+);$", r):
            e = re.match(r"^return (\d+);$", r).group(1)
        else:
            raise Unrecognised("getSizeOf: " + r)
        for t in tys:
            if t not in VT_CTYPE:
                raise Unrecognised("getSizeOf: type " + t)
            chain.append((VT_CTYPE[t], e))
        i += 2
    if sorted(c for c, _ in chain) != sorted(list(VT_CTYPE.values()) + ["pointer"]):
        raise Unrecognised("getSizeOf: chain covers %s" % [c for c, _ in chain])
    return chain


def parse_minmax_switch(repo):
    text = strip_comments(open(os.path.join(repo, "lib", "vf_common.cpp")).read())
    body = function_body(text, r"bool\s+getMinMaxValues\s*\(\s*const\s+ValueType\s*\*\s*vt")
    sw = function_body(body, r"switch\s*\(vt->type\)\s*\{")
    lines = [l.strip() for l in sw.split("\n") if l.strip()]
    out, i = [], 0
    while i < len(lines):
        m = re.match(r"^case ValueType::Type::(\w+):$", lines[i])
        if m:
            mm = re.match(r"^bits = (?:platform\.(\w+)|(\d+));$", lines[i + 1])
            if not mm or lines[i + 2] != "break;" or m.group(1) not in VT_CTYPE:
                raise Unrecognised("getMinMaxValues switch: %s" % lines[i:i + 3])
            e = BIT_LEAN.get(mm.group(1)) if mm.group(1) else mm.group(2)
            if e is None:
                raise Unrecognised("getMinMaxValues switch: field " + mm.group(1))
            out.append((VT_CTYPE[m.group(1)], e)); i += 3; continue
        if lines[i] == "default:" and lines[i + 1] == "return false;":
            i += 2; continue
        raise Unrecognised("getMinMaxValues switch: " + lines[i])
    # the value part after the switch must be the text the model was copied from
    tail = re.sub(r"\s+", " ", body.split("}", 1)[1] if False else body[body.index("if (bits == 1)"):]).strip()
    want = ("if (bits == 1) { minValue = 0; maxValue = 1; } else if (bits < 62) { if (vt->sign == ValueType::Sign::UNSIGNED) { minValue = 0; "
            "maxValue = (1LL << bits) - 1; } else { minValue = -(1LL << (bits - 1)); maxValue = (1LL << (bits - 1)) - 1; } } else if (bits == 64) { "
            "if (vt->sign == ValueType::Sign::UNSIGNED) { minValue = 0; maxValue = LLONG_MAX; } else { minValue = LLONG_MIN; maxValue = LLONG_MAX; } } "
            "else { return false; } return true;")
    if tail != want:
        raise Unrecognised("getMinMaxValues: value part changed: " + tail[:200])
    return out


def lean_platform(name, v):
    return ('  { name := "%s", charBit := %d, sizeofBool := %d, sizeofShort := %d, sizeofInt := %d, sizeofLong := %d, sizeofLongLong := %d,\n'
            '    sizeofFloat := %d, sizeofDouble := %d, sizeofLongDouble := %d, sizeofWchar := %d, sizeofSizeT := %d, sizeofPointer := %d,\n'
            '    charUnsigned := %s, windows := %s }') % (
        name, v["char_bit"], v["sizeof_bool"], v["sizeof_short"], v["sizeof_int"], v["sizeof_long"], v["sizeof_long_long"],
        v["sizeof_float"], v["sizeof_double"], v["sizeof_long_double"], v["sizeof_wchar_t"], v["sizeof_size_t"], v["sizeof_pointer"],
        "true" if v["defaultSign"] == "u" else "false", "true" if v["windows"] else "false")


def extract(ctx):
    repo = core.REPO
    plats, native = parse_platform_set(ctx, repo)
    szchain = parse_xml_chain(repo)
    files = parse_xml_platforms(repo, native, szchain)
    gs = parse_getsizeof(repo)
    mm = parse_minmax_switch(repo)
    return dict(builtin=plats, native=native, files=files, getsizeof=gs, minmax=mm)


def gen_text(x):
    o = ["import Cppcheck.Model.Platforms",
         "/- GENERATED by vlib/props/c10.py from lib/platform.cpp (Platform::set, loadFromXmlDocument), platforms/*.xml,",
         "   lib/symboldatabase.cpp (ValueType::getSizeOf) and lib/vf_common.cpp (getMinMaxValues) — do not edit -/",
         "namespace Cppcheck.Gen.Platforms", "open Cppcheck.Platforms", "",
         "/-- the named cases of `Platform::set(Type)` -/", "def builtin : List Platform := ["]
    o.append(",\n".join(lean_platform(n, v) for n, v in x["builtin"]))
    o += ["]", "", "/-- `Type::Native` on the host that builds /repo (sizeof(T) evaluated by the same g++) -/", "def native : Platform :="]
    o.append(lean_platform("native", x["native"]))
    o += ["", "/-- platforms/*.xml through the element→field chain of `loadFromXmlDocument` (defaults = native) -/", "def files : List Platform := ["]
    o.append(",\n".join(lean_platform(n, v) for n, v in x["files"]))
    o += ["]", "", "def all : List Platform := builtin ++ [native] ++ files", "",
          "/-- the scalar chain of `ValueType::getSizeOf` in source order (first match wins) -/",
          "def sizeOfSrc (p : Platform) (t : CType) : Nat :="]
    for c, e in x["getsizeof"]:
        o.append("  if t = .%s then %s else" % (c, e))
    o += ["  0", "", "/-- the `switch (vt->type)` of `getMinMaxValues` -/", "def bitsOfSrc (p : Platform) (t : CType) : Option Nat :="]
    for c, e in x["minmax"]:
        o.append("  if t = .%s then some (%s) else" % (c, e))
    o += ["  none", "", "end Cppcheck.Gen.Platforms", ""]
    return "\n".join(o)


def translate(ctx):
    x = extract(ctx)
    ctx.write_gen("Platforms", gen_text(x))
    return x


# ------------------------------------------------------------------------------------------------------------
# generators (all randomness from ctx.rng)
# ------------------------------------------------------------------------------------------------------------
SUFFIX_OK = ["", "", "", "u", "U", "l", "L", "ul", "uL", "Ul", "UL", "lu", "LU", "lU", "ll", "LL", "lL", "Ll", "ull", "ULL", "uLL", "Ull",
             "llu", "LLU", "llU", "z", "Z", "uz", "UZ", "zu", "ZU", "i64", "I64", "ui64", "UI64", "Ui64", "_x", "_km", "_", "_1", "_u'", "_i64"]
SUFFIX_BAD = ["lul", "ulll", "lll", "i32", "i6", "i", "u64", "f", "e5", "wb", "uwb", "uu", "lz", "zl", "ui", "ui6", "i644", "ulz", "uzl", "llul",
              "x", "p1", ".", ".0", "e", "i64u", "_"]
BOUNDS = [7, 8, 15, 16, 31, 32, 62, 63, 64]


def gen_magnitude(rng):
    k = rng.random()
    if k < 0.15:
        return rng.randrange(0, 20)
    if k < 0.65:
        b = rng.choice(BOUNDS)
        return max(0, (1 << b) + rng.choice([-2, -1, 0, 1, 2]))
    if k < 0.8:
        return rng.getrandbits(rng.choice([8, 16, 31, 32, 33, 48, 63, 64]))
    if k < 0.9:
        return rng.getrandbits(rng.choice([65, 66, 70, 128]))
    return rng.getrandbits(rng.choice([1, 3, 5, 12, 24]))


def render_digits(rng, base, v, pad=True):
    if base == 10:
        s = "%d" % v
    elif base == 16:
        s = "%x" % v
        s = "".join(c.upper() if rng.random() < 0.4 else c for c in s)
    elif base == 8:
        s = "%o" % v
    else:
        s = bin(v)[2:]
    if pad and base != 10 and rng.random() < 0.15:
        s = "0" * rng.choice([1, 2, 5]) + s
    return s


def gen_int_literal(rng):
    base = rng.choice([10, 10, 16, 16, 8, 2])
    v = gen_magnitude(rng)
    pfx = {10: "", 16: rng.choice(["0x", "0X"]), 8: "0", 2: rng.choice(["0b", "0B"])}[base]
    if base == 10 and v == 0 and rng.random() < 0.5:
        s = "0"
    else:
        s = pfx + render_digits(rng, base, v)
    r = rng.random()
    suf = rng.choice(SUFFIX_OK) if r < 0.8 else rng.choice(SUFFIX_BAD)
    sign = "" if rng.random() < 0.8 else rng.choice("+-")
    return sign + s + suf


FLOATS = ["1.0", "1.", ".5", "1e5", "1E-5", "1.5f", "1.5F", "2.L", "1.0_km", "1e5f", "0x1p3", "0x1.8p-1", "0x.8p1", "0X1P+3f", "1.5e+3l", "1e", "1e+",
          ".", "1..2", "0x1p", "0x1.p1", "1.0ff", "1.0_", "+1.5", "-.5e3", "1f", "0x1.8", "1.e3", "1.0e5_x", "0x1p3L", "00.5", "09.5", "1e5_x"]
MALFORMED = ["", "+", "-", "0x", "0X", "0b", "0B", "0b2", "0xg", "08", "018", "09u", "00", "0", "-0", "+0x", " 12", "12 ", "\t7", "1 2", "abc", "x1", "1x",
             "0x1g", "0b12", "0o7", "1'000", "--1", "+-1", "- 1", "0x-1", "1u1", "1_", "1__", "'", "''", "u", "u'", "L", "0x1.0", "1e5", "1.0", "0b1e5",
             "99999999999999999999", "18446744073709551616", "18446744073709551615", "-18446744073709551615", "-18446744073709551616",
             "-9223372036854775808", "-9223372036854775809", "0x10000000000000000", "0xffffffffffffffff", "-0xffffffffffffffff",
             "02000000000000000000000", "01777777777777777777777", "0b" + "1" * 64, "0b1" + "0" * 64, "-0b1" + "0" * 63, "0b" + "1" * 65 + "u",
             "1\x000", "\x00", "12\x00u", "\xff", "1\xff", "0x\xe9", " 0x10", " 010", "\n5", "+ 5", "0x 1", "1e", "١"]


def mutate(rng, s):
    if not s:
        return s
    k = rng.random()
    i = rng.randrange(len(s))
    pool = "0123456789abcdefxXbBuUlLzZiI64_'.+-eEpPfF \\\x00\xff89"
    if k < 0.35:
        return s[:i] + rng.choice(pool) + s[i + 1:]
    if k < 0.6:
        return s[:i] + rng.choice(pool) + s[i:]
    if k < 0.8:
        return s[:i] + s[i + 1:]
    return s + rng.choice(pool)


SIMPLE_ESC = list("'\"?\\abfnrtveE%([{")
PLAIN = [c for c in "aAzZ09 !#$&*+,-./:;<=>@^_`|~x"]


def gen_char_elem(rng):
    k = rng.random()
    if k < 0.3:
        return rng.choice(PLAIN)
    if k < 0.45:
        return "\\" + rng.choice(SIMPLE_ESC)
    if k < 0.6:
        return "\\" + "".join(rng.choice("01234567") for _ in range(rng.choice([1, 2, 3])))
    if k < 0.8:
        v = rng.choice([0, 1, 0x41, 0x7f, 0x80, 0xff, 0x100, 0xffff, 0x10000, 0x7fffffff, 0xffffffff, 0x100000000, rng.getrandbits(16), rng.getrandbits(70)])
        s = "%x" % v
        if rng.random() < 0.3:
            s = s.upper()
        if rng.random() < 0.2:
            s = "0" * rng.choice([1, 3]) + s
        return "\\x" + s
    if k < 0.9:
        cp = rng.choice([0x41, 0x7f, 0x80, 0xe9, 0x7ff, 0x800, 0xd7ff, 0xd800, 0xdfff, 0xe000, 0xffff, 0x10000, 0x10ffff, 0x110000, rng.getrandbits(20)])
        return ("\\u%04x" % cp) if (cp <= 0xffff and rng.random() < 0.7) else ("\\U%08x" % cp)
    # raw bytes (UTF-8, possibly damaged)
    cp = rng.choice([0x80, 0xe9, 0x7ff, 0x800, 0xfff, 0xd7ff, 0xd800, 0xe000, 0xffff, 0x10000, 0x10ffff, rng.randrange(0x80, 0x110000)])
    try:
        bs = chr(cp).encode("utf-8", "surrogatepass")
    except Exception:
        bs = b"\xe9"
    s = bs.decode("latin-1")
    if rng.random() < 0.25:
        s = mutate(rng, s)
    return s


CHAR_MALFORMED = ["'", "''", "'a", "a'", "'\\'", "'\\", "'\\x'", "'\\xg'", "'\\8'", "'\\9'", "'\\u12'", "'\\u123g'", "'\\U0001'", "'\\q'", "'a\nb'", "'''",
                  "'\\x0x41'", "'\\x0x4'", "'\\x0X4'", "'\\x0xg'", "'\\x0x'", "'\\x 41'", "'\\x+41'", "'\\x-1'", "'\\x\t1'", "'\\u0x41'", "'\\u 041'", "'\\u+041'",
                  "'\\U-0000041'", "'\\0x'", "'\\08'", "'\\400'", "'\\777'", "'\\1234'", "u8'ab'", "u'ab'", "L'ab'", "U'ab'", "u8'\\x100'", "u'\\x10000'",
                  "L'\\x100000000'", "L'\\xffffffff'", "U'\\U0010ffff'", "U'\\U00110000'", "u'\\ud800'", "u8'\\u0080'", "'\\u0080'", "'\\u007f'",
                  "'abcd'", "'abcde'", "'abcdefgh'", "'abcdefghi'", "'\\xff\\xff\\xff\\xff'", "'\\x80\\0\\0\\0'", "'\\377'", "'\\200'", "'\xe9'", "L'\xe9'",
                  "L'\xc3\xa9'", "u'\xe2\x82\xac'", "U'\xf0\x9f\x98\x80'", "u'\xf0\x9f\x98\x80'", "u8'\xc3\xa9'", "L'\xc0\x80'", "L'\xe0\x80\x80'",
                  "L'\xf0\x80\x80\x80'", "L'\xed\xa0\x80'", "L'\xf4\x90\x80\x80'", "L'\xf5\x80\x80\x80'", "L'\xc3'", "L'\xc3a'", "L'\xe2\x82'", "X'a'",
                  "u8", "u8'", "U", "L'", "'a'b", "'a''", "\"a\"", "'\\x41\\x42'", "'\\101\\102'", "'\\e'", "'\\(' ", "' '", "'\\\n'", "'\x00'", "'a\x00'", "L'\x00'"]


def gen_char_literal(rng):
    pfx = rng.choice(["", "", "", "u8", "u", "U", "L"])
    n = rng.choice([1, 1, 1, 1, 2, 2, 3, 4, 5, 8, 9]) if pfx == "" else rng.choice([1, 1, 1, 2])
    return pfx + "'" + "".join(gen_char_elem(rng) for _ in range(n)) + "'"


def gen_trunc(rng):
    k = rng.random()
    if k < 0.5:
        b = rng.choice([7, 8, 15, 16, 23, 24, 31, 32, 39, 40, 47, 48, 55, 56, 62, 63])
        v = rng.choice([1, -1]) * ((1 << b) + rng.choice([-2, -1, 0, 1, 2]))
    elif k < 0.6:
        v = rng.choice([0, 1, -1, 2 ** 63 - 1, -2 ** 63, 2 ** 63 - 2, -2 ** 63 + 1])
    else:
        v = rng.getrandbits(64) - 2 ** 63
    v = max(-2 ** 63, min(2 ** 63 - 1, v))
    return "trunc %d %d %d" % (v, rng.choice([0, 1, 2, 3, 4, 5, 6, 7, 8, 1, 2, 4, 8]), rng.choice([0, 1]))


CTYPES = ["bool", "char", "short", "wchar", "int", "long", "longlong", "float", "double", "longdouble", "pointer"]


def lat1(s):
    return core.hx(s.encode("latin-1", "replace"))


def inproc_ops(ctx, x, thorough):
    rng = ctx.rng
    n = 6 if thorough else 1
    ops = []
    lits = [gen_int_literal(rng) for _ in range(1500 * n)]
    lits += [mutate(rng, gen_int_literal(rng)) for _ in range(500 * n)]
    lits += FLOATS + [mutate(rng, rng.choice(FLOATS)) for _ in range(200 * n)]
    lits += MALFORMED
    lits += SUFFIX_OK + SUFFIX_BAD + [mutate(rng, rng.choice(SUFFIX_OK + SUFFIX_BAD)) for _ in range(150 * n)]
    chars = list(CHAR_MALFORMED) + [gen_char_literal(rng) for _ in range(1200 * n)]
    chars += [mutate(rng, gen_char_literal(rng)) for _ in range(400 * n)]
    for s in lits + chars[:200]:
        ops.append("cls " + lat1(s))
    for s in lits + chars:
        ops.append("big " + lat1(s))
    for s in chars + lits[:200]:
        ops.append("chr " + lat1(s))
    for s in lits[:600]:
        ops.append("sfx " + lat1(s))
    for s in chars + lits[:100]:
        if s:
            ops.append("cch " + lat1(s))
    for _ in range(1500 * n):
        ops.append(gen_trunc(rng))
    for bits in list(range(0, 70)) + [127, 128, 255]:
        for u in (0, 1):
            if bits == 0 and u == 0:
                continue        # `1LL << (bits - 1)` with bits = 0: negative shift count, undefined in the C++
            ops.append("minmax %d %d" % (bits, u))
    names = [nm for nm, _ in x["builtin"]] + ["native"] + [nm for nm, _ in x["files"]]
    for nm in names:
        ops.append("plat " + nm)
        for t in CTYPES:
            ops.append("sizeof %s %s" % (nm, t))
    ops.append("plat nosuchplatform")
    return ops


def nontrivial_inproc(op, out):
    k = op.split(" ", 1)[0]
    if k == "cls":
        return "=1" in out.replace("pos=1", "")
    if k == "big":
        return "invalid_argument" not in out
    if k == "chr":
        return "expected_literal" not in out
    if k == "trunc":
        return not op.endswith(" 0 0") and not op.endswith(" 0 1")
    return True


# ------------------------------------------------------------------------------------------------------------
# structured literals: the SPEC side is evaluated by the Lean driver (`lit` / `clit` ops), the implementation by the harness
# ------------------------------------------------------------------------------------------------------------
def gen_struct_lit(rng):
    base = rng.choice("ddxxob")
    radix = {"d": 10, "x": 16, "o": 8, "b": 2}[base]
    v = gen_magnitude(rng)
    ds = render_digits(rng, radix, v, pad=(base != "d"))
    if base == "d" and rng.random() < 0.05:
        ds = "0" + ds                  # non-canonical decimal spelling (reads as octal): outside the theorem's hypothesis
    suf = rng.choice(SUFFIX_OK) if rng.random() < 0.93 else rng.choice(SUFFIX_BAD)
    sg = "-" if rng.random() < 0.85 else rng.choice("pm")
    return "lit %s %s %d %s %s" % (sg, base, 1 if rng.random() < 0.3 else 0, lat1(ds), lat1(suf))


def gen_struct_elem(rng, kind):
    k = rng.random()
    if k < 0.3:
        return "p:" + lat1(rng.choice(PLAIN + list("0123456789abcdefABCDEFxX")))
    if k < 0.45:
        return "s:" + lat1(rng.choice(SIMPLE_ESC))
    if k < 0.62:
        n = rng.choice([1, 2, 3])
        ds = "".join(rng.choice("01234567") for _ in range(n))
        if kind in "n8" and n == 3 and rng.random() < 0.8:
            ds = rng.choice("0123") + ds[1:]
        return "o:" + lat1(ds)
    if k < 0.85:
        mx = {"n": 255, "8": 255, "16": 0xffff, "w": 0xffffffff}[kind]
        v = rng.choice([0, 0, 1, 0x41, 0x7f, 0x80, 0xff, mx, mx + 1 if rng.random() < 0.1 else mx, rng.randrange(0, mx + 1)])
        s = "%x" % v
        if rng.random() < 0.3:
            s = s.upper()
        if rng.random() < 0.25:
            s = "0" * rng.choice([1, 2, 7]) + s
        return "x:" + lat1(s)
    mx = {"n": 0x7f, "8": 0x7f, "16": 0xffff, "w": 0x10ffff}[kind]
    cp = rng.choice([0x24, 0x40, 0x60, 0x7f, mx, rng.randrange(0, mx + 1), 0xd7ff, 0xe000, 0xd800 if rng.random() < 0.2 else 0xe9])
    cp = min(cp, mx) if rng.random() < 0.95 else cp
    if cp <= 0xffff and rng.random() < 0.7:
        return "u:" + lat1("%04x" % cp)
    return "U:" + lat1("%08x" % cp)


def gen_struct_char(rng):
    kind = rng.choice(["n", "n", "n", "n", "8", "16", "w"])
    n = rng.choice([1, 1, 1, 2, 2, 3, 4, 5, 8]) if kind == "n" else 1
    es = [gen_struct_elem(rng, kind) for _ in range(n)]
    if kind == "n" and rng.random() < 0.06:
        j = rng.randrange(len(es) + 1)
        es[j:j] = ["x:" + lat1("0"), "p:" + lat1(rng.choice("xX")), "p:" + lat1(rng.choice("0123456789abcdefABCDEF"))]
    return "clit %s %s" % (kind, " ".join(es))


def parse_kv(line):
    return dict(f.split("=", 1) for f in line.split(" ") if "=" in f)


def wrap64(v):
    v &= (1 << 64) - 1
    return v - (1 << 64) if v >= (1 << 63) else v


def classify_inproc(case):
    """known-finding classes of P_impl failures on structured literals"""
    return None      # F10f (`\\x0x4`) is fixed by bed3bd1: no class of structured literals is a known finding any more


def pimpl_struct(ctx, res, drv, exe, specs, tag):
    """specs: list of `lit`/`clit` op lines.  Evaluates the property predicate on the IMPLEMENTATION: the value the real
    converter returns for the spelling of a well-formed literal equals the value of the specification."""
    rc, sout, err = core.run_lines(drv, [], specs)
    if len(sout) != len(specs):
        raise core.CheckBroken("driver produced %d lines for %d spec ops: %s" % (len(sout), len(specs), err[-300:]))
    cases, ops = [], []
    for sp, o in zip(specs, sout):
        kv = parse_kv(o)
        if "render" not in kv:
            raise core.CheckBroken("spec op %r answered %r" % (sp, o))
        kind = sp.split(" ", 1)[0]
        cases.append(dict(kind=kind, op=sp, spec=kv))
        ops.append(("big " if kind == "lit" else "chr ") + kv["render"])
    rc, iout, err = core.run_lines(exe, [core.REPO], ops)
    rc2, mout, err2 = core.run_lines(drv, [], ops)
    core.correspond(ctx, res, "inprocess-structured-" + tag, ops, iout, mout, nontrivial=lambda op, out: True)
    nviol = 0
    for c, op, got in zip(cases, ops, iout):
        kv = c["spec"]
        if kv["wf"] != "1":
            res.count("struct:%s:not-wf" % c["kind"])
            continue
        if c["kind"] == "lit":
            if kv["canon"] != "1":
                res.count("struct:lit:non-canonical")
                continue
            mag, val = int(kv["mag"]), int(kv["value"])
            base = c["op"].split(" ")[2]
            if mag < 2 ** 64 or base == "b":
                want = "B ok:%d | U ok:%d" % (wrap64(val), val % 2 ** 64)
                if mag >= 2 ** 64:
                    res.count("struct:lit:binary-wider-than-64-bits(ill-formed, wraps)")
                    continue
            else:
                want = "B err:out_of_range | U err:out_of_range"
            res.count("struct:lit:%s:%s" % (base, "fits" if mag < 2 ** 64 else "overflow"))
        else:
            want = "ok:" + kv["value"]
            res.count("struct:clit:%s" % c["op"].split(" ")[1])
        if got != want:
            key = classify_inproc(c)
            nviol += 1
            if nviol <= 40:
                res.violation("literal value differs from the specification: %s spelled %r: implementation %s, specification %s" %
                              (c["op"], core.unhx(kv["render"]).decode("latin-1"), got, want),
                              dict(kind="struct", op=c["op"], render=kv["render"], implementation=got, specification=want,
                                   replay_cmd="./check.py C10 --replay <this file>"), concrete=True, key=key)
    return cases


# ------------------------------------------------------------------------------------------------------------
# C6: CLI tie — constant expressions per platform, reference evaluator of the C abstract machine
# ------------------------------------------------------------------------------------------------------------
class Plat:
    def __init__(self, name, v):
        self.name = name
        self.size = dict(char=1, short=v["sizeof_short"], int=v["sizeof_int"], long=v["sizeof_long"], llong=v["sizeof_long_long"],
                         wchar_t=v["sizeof_wchar_t"], float=v["sizeof_float"], double=v["sizeof_double"], ldouble=v["sizeof_long_double"],
                         pointer=v["sizeof_pointer"], size_t=v["sizeof_size_t"])
        self.cb = v["char_bit"]
        self.char_unsigned = v["defaultSign"] == "u"

    def bits(self, t):
        return self.cb * self.size[t]


RANK = ["int", "long", "llong"]


def fits(P, ty, v):
    t, uns = ty
    b = P.bits(t)
    return 0 <= v < (1 << b) if uns else -(1 << (b - 1)) <= v < (1 << (b - 1))


def conv(P, ty, v):
    t, uns = ty
    b = P.bits(t)
    v &= (1 << b) - 1
    if not uns and v >= (1 << (b - 1)):
        v -= 1 << b
    return v


def lit_type(P, decimal, mag, uns, minrank):
    cands = []
    for r in range(minrank, 3):
        if uns:
            cands.append((RANK[r], True))
        elif decimal:
            cands.append((RANK[r], False))
        else:
            cands += [(RANK[r], False), (RANK[r], True)]
    for ty in cands:
        if fits(P, ty, mag):
            return ty
    return None


def uac(P, a, b):
    (ta, ua), (tb, ub) = a, b
    ra, rb = RANK.index(ta), RANK.index(tb)
    if ua == ub:
        return (RANK[max(ra, rb)], ua)
    (tu, ru), (ts, rs) = ((ta, ra), (tb, rb)) if ua else ((tb, rb), (ta, ra))
    if ru >= rs:
        return (tu, True)
    if P.bits(ts) > P.bits(tu):
        return (ts, False)
    return (ts, True)


SUF_CLI = [("", False, 0), ("u", True, 0), ("U", True, 0), ("l", False, 1), ("L", False, 1), ("ul", True, 1), ("UL", True, 1), ("lu", True, 1),
           ("ll", False, 2), ("LL", False, 2), ("ull", True, 2), ("ULL", True, 2), ("llu", True, 2), ("LLU", True, 2)]
CAST_T = [("char", ("char", None)), ("signed char", ("char", False)), ("unsigned char", ("char", True)), ("short", ("short", False)), ("unsigned short", ("short", True)),
          ("int", ("int", False)), ("unsigned", ("int", True)), ("unsigned int", ("int", True)), ("long", ("long", False)),
          ("unsigned long", ("long", True)), ("long long", ("llong", False)), ("unsigned long long", ("llong", True))]
SIZEOF_T = [("char", "char"), ("signed char", "char"), ("unsigned char", "char"), ("short", "short"), ("unsigned short", "short"), ("int", "int"),
            ("unsigned", "int"), ("long", "long"), ("unsigned long", "long"), ("long long", "llong"), ("unsigned long long", "llong"),
            ("float", "float"), ("double", "double"), ("long double", "ldouble"), ("void *", "pointer"), ("char *", "pointer"), ("int *", "pointer")]


def cli_lit(rng, P, cpp, small=False):
    """(source text, type, value, description) of an integer literal that is well-formed on P"""
    for _ in range(50):
        base = rng.choice([10, 10, 16, 16, 8, 2])
        if small:
            mag = rng.choice([0, 1, 2, 3, 7, 255, 256, 65535, 65536, (1 << (P.bits("int") - 1)) - 1, 1 << (P.bits("int") - 1), (1 << P.bits("int")) - 1,
                              (1 << P.bits("long")) - 1, rng.getrandbits(rng.choice([4, 8, 15, 16, 17, 31, 32, 33]))])
        else:
            mag = gen_magnitude(rng)
        if mag >= 2 ** 63:
            # a value cppcheck's bigint cannot hold is attached as no value; keep a few for the model tie only
            if rng.random() < 0.8:
                continue
        suf, uns, minrank = rng.choice(SUF_CLI)
        ty = lit_type(P, base == 10, mag, uns, minrank)
        if ty is None:
            continue
        pfx = {10: "", 16: rng.choice(["0x", "0X"]), 8: "0", 2: rng.choice(["0b", "0B"])}[base]
        ds = render_digits(rng, base, mag, pad=False)
        if base == 10 and mag == 0:
            pfx, ds = "", "0"
        if base == 8 and mag == 0:
            pfx, ds = "", "00"
        if cpp and len(ds) > 3 and rng.random() < 0.25:
            j = rng.randrange(1, len(ds))
            ds = ds[:j] + "'" + ds[j:]           # C++14 digit separator, removed by the simplecpp lexer
        return pfx + ds + suf, ty, mag, (base == 10, uns, minrank)
    return "1", ("int", False), 1, (True, False, 0)


def cli_char(rng, P, cpp):
    k = rng.random()
    if k < 0.55:
        # one narrow c-char
        j = rng.random()
        if j < 0.35:
            c = rng.choice(PLAIN)
            src, byte = c, ord(c)
        elif j < 0.5:
            e = rng.choice("abfnrtv'\"?\\")
            src, byte = "\\" + e, {"a": 7, "b": 8, "f": 12, "n": 10, "r": 13, "t": 9, "v": 11, "'": 39, '"': 34, "?": 63, "\\": 92}[e]
        elif j < 0.75:
            byte = rng.choice([0, 1, 0x7f, 0x80, 0x81, 0xfe, 0xff, rng.randrange(256)])
            src = "\\x%x" % byte
        else:
            byte = rng.choice([0, 7, 0o177, 0o200, 0o377, rng.randrange(256)])
            src = "\\%o" % byte
        val = byte if (P.char_unsigned or byte < 128) else byte - 256
        return "'%s'" % src, ("int", False), val, "char1:%s" % ("high" if byte >= 128 else "low")
    if k < 0.7:
        # two-character constant (type int; gcc/clang value)
        a, b = rng.choice(PLAIN), rng.choice(PLAIN)
        return "'%s%s'" % (a, b), ("int", False), conv(P, ("int", False), ord(a) * 256 + ord(b)), "char2"
    pfx = rng.choice(["L", "u", "U"] + (["u8"] if cpp else []))
    c = rng.choice([x for x in PLAIN if x != " "])
    if rng.random() < 0.4:
        v = rng.choice([0x41, 0x7f, 0xe9 if pfx != "u8" else 0x41, 0x7fff if pfx != "u8" else 0x7f])
        return "%s'\\x%x'" % (pfx, v), ("int", False), v, "charp:" + pfx
    return "%s'%s'" % (pfx, c), ("int", False), ord(c), "charp:" + pfx


def float32(x):
    import struct
    try:
        return struct.unpack("f", struct.pack("f", x))[0]
    except OverflowError:
        return float("inf")


def cli_float(rng):
    """a floating literal: (spelling, value a compiler gives it as double, suffix)"""
    suf = rng.choice(["", "", "", "f", "F", "l", "L"])
    if rng.random() < 0.25:
        # hexadecimal floating literal
        whole, frac = "%x" % rng.getrandbits(rng.choice([1, 4, 12])), rng.choice(["", "8", "c", "4", "%x" % rng.getrandbits(12)])
        exp = rng.randrange(-20, 21)
        body = "0x%s%s%sp%s%d" % (whole, "." if frac or rng.random() < 0.3 else "", frac, rng.choice(["", "+"]) if exp >= 0 else "", exp)
        val = float.fromhex(body)
    else:
        digs = str(rng.choice([0, 1, 5, 10, 123, 16777217, 4294967297, rng.getrandbits(rng.choice([8, 20, 40]))]))
        frac = rng.choice(["", "0", "5", "1", "25", "333333333333", str(rng.getrandbits(30))])
        form = rng.random()
        if form < 0.45:
            body = digs + "." + frac
        elif form < 0.6:
            body = "." + (frac or "5")                      # no exponent here: `.5e-3` is split by the lexer (see docs, observation)
        else:
            e = rng.randrange(-30, 31)
            body = digs + ("." + frac if rng.random() < 0.5 else "") + rng.choice("eE") + (rng.choice(["", "+"]) if e >= 0 else "") + str(e)
        val = float(body)
    if suf in "fF" and suf:
        val32 = float32(val)
        if val32 in (float("inf"), 0.0) and val != 0.0:
            suf = ""
        else:
            return body + suf, val32, suf, val
    return body + suf, val, suf, val


def cli_expr(rng, P, cpp):
    """one constant expression: dict(src, expect (int or None = undefined / ill-formed), kind, detail)"""
    k = rng.random()
    if k < 0.08:
        src, val, suf, dval = cli_float(rng)
        return dict(src=src, expect=None, fexpect=val, dvalue=dval, suffix=suf, kind="F", ty=("int", False))
    if k < 0.11:
        b = rng.choice(["true", "false"])
        return dict(src=b, expect=1 if b == "true" else 0, kind="T", ty=("int", False))
    k = (k - 0.11) / 0.89
    if k < 0.34:
        src, ty, v, d = cli_lit(rng, P, cpp)
        return dict(src=src, expect=v, kind="L", ty=ty)
    if k < 0.5:
        src, ty, v, d = cli_char(rng, P, cpp)
        return dict(src=src, expect=v, kind="C", detail=d, ty=ty)
    if k < 0.62:
        tn, t = rng.choice(SIZEOF_T)
        return dict(src="sizeof(%s)" % tn, expect=P.size[t], kind="S", ty=("long", True))
    if k < 0.78:
        tn, ty = rng.choice(CAST_T)
        plain = ty[1] is None
        if plain:
            ty = ("char", P.char_unsigned)
        src, lty, v, d = cli_lit(rng, P, cpp, small=rng.random() < 0.5)
        neg = rng.random() < 0.3
        if neg:
            if not fits(P, lty, -v) and not lty[1]:
                neg = False
        val = conv(P, lty, -v) if neg else v
        return dict(src="(%s)%s%s" % (tn, "-" if neg else "", src), expect=conv(P, ty, val), kind="K", ty=ty, neg=neg, lty=lty, v=v, plain=plain, inner=val)
    op = rng.choice("+-*")
    a_src, aty, av, alit = cli_lit(rng, P, cpp, small=True)
    b_src, bty, bv, blit = cli_lit(rng, P, cpp, small=True)
    rty = uac(P, aty, bty)
    exact = av + bv if op == "+" else av - bv if op == "-" else av * bv
    if rty[1]:
        expect = conv(P, rty, exact)
    else:
        expect = exact if fits(P, rty, exact) else None     # signed overflow: undefined, nothing to compare
    return dict(src="%s %s %s" % (a_src, op, b_src), expect=expect, kind="B", ty=rty, exact=exact, op=op, a=av, b=bv, aty=aty, bty=bty, alit=alit, blit=blit)


def cli_ret_type(e):
    return "double" if e["kind"] == "F" else "long long"


def cli_program(exprs):
    # one function per expression, the expression is the operand of `return` (no enclosing binary operator or assignment whose
    # implicit conversion cppcheck would apply to the operand's own value)
    return "".join("%s f%d(void) { return %s; }\n" % (cli_ret_type(e), i, e["src"]) for i, e in enumerate(exprs))


VT_SIZE = {"char": "char", "short": "short", "int": "int", "long": "long", "long long": "llong", "wchar_t": "wchar_t"}


def read_dump(path):
    """line → (top RHS token dict, known point int values of it)"""
    root = ET.parse(path).getroot()
    out = {}
    for d in root.iter("dump"):
        toks = {}
        for t in d.iter("token"):
            toks[t.get("id")] = t.attrib
        vals = {}
        vf = d.find("valueflow")
        if vf is not None:
            for vs in vf.iter("values"):
                vals[vs.get("id")] = [v.attrib for v in vs.iter("value")]
        for t in toks.values():
            if t.get("str") == "return" and t.get("astOperand1"):
                rhs = toks.get(t["astOperand1"])
                if rhs is None:
                    continue
                # values of unsigned-typed tokens are printed as biguint: bring them back to the bigint they are
                def known_of(tok):
                    return [wrap64(int(v["intvalue"])) for v in vals.get(tok.get("values"), []) if v.get("known") == "true" and "intvalue" in v and v.get("bound", "Point") == "Point"]
                known = known_of(rhs)
                rhs = dict(rhs)
                rhs["__float"] = [float(v["floatvalue"]) for v in vals.get(rhs.get("values"), []) if v.get("known") == "true" and "floatvalue" in v]
                if rhs.get("isCast") == "true" and rhs.get("astOperand1") and not rhs.get("astOperand2"):
                    opd = toks.get(rhs["astOperand1"])
                    if opd is not None:
                        rhs["__operand_known"] = known_of(opd)
                out[int(t["linenr"])] = (rhs, known)
    return out


def classify_cli(P, e, reported):
    """known-finding classes of a reported constant that differs from the C abstract machine"""
    if e["kind"] == "F":
        # F10k: an `f`-suffixed literal is valued as the double the digits denote, not rounded to float
        if e.get("suffix") in ("f", "F") and abs(reported - e["dvalue"]) <= 1e-10 * abs(e["dvalue"]):
            return "float-suffix-not-rounded"
        return None
    if e["kind"] == "B" and e["ty"][1] and "exact" in e:
        if wrap64(e["exact"]) == reported and not fits(P, e["ty"], e["exact"]):
            return "fold-unsigned-no-wrap"            # F5: 64-bit arithmetic, result not reduced to the unsigned operation type
        aty, bty = e.get("aty"), e.get("bty")
        if aty and bty and not aty[1] and bty[1] and P.bits(aty[0]) == P.bits(bty[0]):
            # operands of equal size and different sign: cppcheck converts to the LEFT operand's sign (and F7 types the result signed)
            sb = conv(P, (bty[0], False), e["b"])
            ex2 = e["a"] + sb if e["op"] == "+" else e["a"] - sb if e["op"] == "-" else e["a"] * sb
            if reported in (wrap64(ex2), conv(P, (aty[0], False), ex2)):
                return "fold-mixed-sign-left-signed"
    if (e["kind"] == "K" and e.get("plain") and not P.char_unsigned and e["expect"] < 0
            and reported == conv(P, ("char", True), e["inner"])):
        # F10j: a cast to plain `char` has no sign in cppcheck's ValueType: castValue masks but never sign-extends
        return "cast-plain-char-not-sign-extended"
    if e["kind"] == "K" and e.get("neg") and e["lty"][1] and reported == conv(P, e["ty"], -e["v"]):
        return "fold-unary-minus-unsigned"        # unary minus on an unsigned operand is not reduced to the operand's type
    return None


def run_cli_case(ctx, res, drv, P, cpp, exprs, tag):
    """returns (#known values seen, list of violations dicts)"""
    d = os.path.join(ctx.tmp, "cli_%s" % tag)
    os.makedirs(d, exist_ok=True)
    src = os.path.join(d, "t.cpp" if cpp else "t.c")
    open(src, "w").write(cli_program(exprs))
    for attempt in range(6):
        try:
            rc, out, err = core.sh([ctx.cppcheck, "--platform=" + P.name, "--dump", "-q", src], cwd=d, timeout=120)
            break
        except OSError:
            # the binary is being relinked by a concurrent check (a colleague's run after a /repo change): wait for that build
            if attempt == 5:
                raise
            import time
            time.sleep(2)
            ctx.build_repo()
    dump = src + ".dump"
    if not os.path.exists(dump):
        raise core.CheckBroken("cppcheck --dump produced no dump for %s on %s: rc=%s %s" % (src, P.name, rc, (out + err)[-300:]))
    lines = read_dump(dump)
    viol, nknown, mops, mexp, castops, castexp = [], 0, [], [], [], []
    for i, e in enumerate(exprs):
        ln = 1 + i
        if ln not in lines:
            res.count("cli:no-rhs-token")
            continue
        tok, known = lines[ln]
        rep = known[0] if known else None
        if e["kind"] == "F":
            fl = tok.get("__float") or []
            res.count("cli:F:%s" % ("known" if fl else "novalue"))
            res.case("cli|%s|%s|%s" % (P.name, "cpp" if cpp else "c", e["src"]), bool(fl), None)
            nknown += bool(fl)
            # the dump prints about 12 significant digits
            if fl and abs(fl[0] - e["fexpect"]) > 1e-10 * abs(e["fexpect"]):
                viol.append(dict(platform=P.name, lang="cpp" if cpp else "c", expr=e["src"], kind="F", reported=fl[0], reference=e["fexpect"],
                                 key=classify_cli(P, e, fl[0])))
            continue
        # (a') casts: the cast token's value = model castValue(value of the operand token, sign and width of the cast's type)
        if e["kind"] == "K" and rep is not None and tok.get("__operand_known") and tok.get("valueType-type") in VT_SIZE and tok.get("valueType-type") != "wchar_t":
            castops.append("cast %d %d %d" % (tok["__operand_known"][0], 1 if tok.get("valueType-sign") == "signed" else 0, P.bits(VT_SIZE[tok["valueType-type"]])))
            castexp.append((e, rep))
        res.count("cli:%s:%s" % (e["kind"], "known" if known else "novalue"))
        if known:
            nknown += 1
        res.case("cli|%s|%s|%s" % (P.name, "cpp" if cpp else "c", e["src"]), bool(known),
                 dict(tie="cli", platform=P.name, lang="cpp" if cpp else "c", expr=e["src"], reported=rep, reference=e["expect"]) if i == 0 else None)
        # (a) literal tokens: reported value = model's valueFlowSetConstantValue branch on the token as cppcheck typed it
        if e["kind"] in "LC" and tok.get("valueType-type") in VT_SIZE:
            t = VT_SIZE[tok["valueType-type"]]
            uns = tok.get("valueType-sign") == "unsigned"
            bits = -1 if t == "wchar_t" else P.bits(t)
            mops.append(("big " + lat1(tok["str"]), uns, P.size[t], bits, "cch " + lat1(tok["str"])))
            mexp.append((e, rep))
        # (b) P_impl
        if rep is not None and e["expect"] is not None and rep != wrap64(e["expect"]):
            viol.append(dict(platform=P.name, lang="cpp" if cpp else "c", expr=e["src"], kind=e["kind"], reported=rep, reference=e["expect"],
                             key=classify_cli(P, e, rep)))
    if castops:
        rc, co, _ = core.run_lines(drv, [], castops)
        bad = ["%s on %s: reported %s, model %s (%s)" % (e["src"], P.name, rep, o, op) for (e, rep), op, o in zip(castexp, castops, co) if o != str(rep)]
        res.traces_validated += len(castexp) - len(bad)
        res.extra["cast_model_checked"] = res.extra.get("cast_model_checked", 0) + len(castexp)
        if bad:
            res.extra.setdefault("cli_model_mismatch", []).extend(bad[:5])
    if mops:
        rc, o1, _ = core.run_lines(drv, [], [m[0] for m in mops])
        rc, oc, _ = core.run_lines(drv, [], [m[4] for m in mops])      # Token::isCChar() of the token text (model, corresponded in-process)
        cops = []
        for (op, uns, size, bits, _), o, occ in zip(mops, o1, oc):
            cchar = occ.startswith("cchar=1")
            m = re.match(r"^B ok:(-?\d+) \|", o)
            cops.append("const %s %d %s %d %d %d %d" % (m.group(1), 1 if cchar else 0, "u" if P.char_unsigned else "s", P.cb, 1 if uns else 0, size, bits)
                        if m else "const x 0 - 8 0 0 0")
        rc, o2, _ = core.run_lines(drv, [], cops)
        bad = []
        for (e, rep), c, o in zip(mexp, cops, o2):
            want = None if o in ("novalue", "bad-op") else int(o)
            if o != "bad-op" and want != rep:
                bad.append("%s on %s: reported %s, model %s (%s)" % (e["src"], P.name, rep, want, c))
        res.traces_validated += len(mexp) - len(bad)
        if bad:
            res.extra.setdefault("cli_model_mismatch", []).extend(bad[:5])
    return nknown, viol


def cli_tie(ctx, res, drv, x, thorough):
    rng = ctx.rng
    allp = [Plat(n, v) for n, v in x["builtin"]] + [Plat("native", x["native"])] + [Plat(n, v) for n, v in x["files"]]
    byname = dict((p.name, p) for p in allp)
    if thorough:
        plats, per = allp, 400
    else:
        plats = [byname[n] for n in ("unix64", "win64", "unix32") if n in byname]
        extra = [p for p in allp if p.name not in ("unix64", "win64", "unix32", "native", "win32A", "win32W")]
        plats += rng.sample(extra, min(2, len(extra)))
        per = 200
    nknown, viols = 0, []
    for P in plats:
        for cpp in (False, True):
            exprs = [cli_expr(rng, P, cpp) for _ in range(per)]
            k, v = run_cli_case(ctx, res, drv, P, cpp, exprs, "%s_%d" % (P.name, cpp))
            nknown += k
            viols += v
    res.extra["cli_platforms"] = [p.name for p in plats]
    res.extra["cli_known_values"] = nknown
    res.oblig("correspondence:cli-literal-values-vs-model", not res.extra.get("cli_model_mismatch") and nknown > 0, "correspondence",
              "; ".join(res.extra.get("cli_model_mismatch", [])) or "")
    seen = {}
    for v in viols:
        n = seen.get(v["key"], 0)
        seen[v["key"]] = n + 1
        if n < (3 if v["key"] else 25):
            res.violation("reported constant differs from the C abstract machine on platform %s (%s): `%s` reported %s, reference %s" %
                          (v["platform"], v["lang"], v["expr"], v["reported"], v["reference"]),
                          dict(kind="cli", platform=v["platform"], lang=v["lang"], expr=v["expr"], reported=v["reported"], reference=v["reference"],
                               replay_cmd="./check.py C10 --replay <this file>"), concrete=True, key=v["key"])
    for k, n in seen.items():
        res.count("cli:violation:%s" % (k or "unclassified"), n)
    return allp


# ------------------------------------------------------------------------------------------------------------
# C7: CLI tie for the unary operators  ~  -  !  +  on casts and const variables of every integer type
# ------------------------------------------------------------------------------------------------------------
UN_TYPES = [("signed char", "char", False), ("unsigned char", "char", True), ("short", "short", False), ("unsigned short", "short", True),
            ("int", "int", False), ("unsigned int", "int", True), ("long", "long", False), ("unsigned long", "long", True),
            ("long long", "llong", False), ("unsigned long long", "llong", True), ("BOOL", "bool", False)]
UN_OPS = [("~", "bnot"), ("-", "neg"), ("!", "lnot"), ("+", "plus")]
DUMP_ITY = {"bool": "bool", "char": "char", "short": "short", "int": "int", "long": "long", "long long": "longlong"}


def c_int_text(v):
    """spelling of an integer constant expression with value v and a type wide enough"""
    if v >= 0:
        return "%d%s" % (v, "ull" if v >= 2 ** 63 else "ll" if v >= 2 ** 31 else "")
    if v == -2 ** 63:
        return "(-9223372036854775807ll-1)"
    return "(-%d%s)" % (-v, "ll" if -v >= 2 ** 31 else "")


def un_expr(rng, P, cpp):
    """dict(src (function body), op, t, uns, v (operand value), form)"""
    tn, t, uns = rng.choice(UN_TYPES)
    osym, op = rng.choice([UN_OPS[0]] * 4 + [UN_OPS[1]] * 3 + [UN_OPS[2], UN_OPS[3]])
    if t == "bool":
        tn = "bool" if cpp else "_Bool"
        b, v = 1, rng.choice([0, 1])
    else:
        b = P.bits(t)
        if uns:
            v = rng.choice([0, 1, 2, 0x0f, (1 << (b - 1)) - 1, 1 << (b - 1), (1 << b) - 2, (1 << b) - 1, rng.randrange(1 << b)])
        else:
            v = rng.choice([-(1 << (b - 1)), -(1 << (b - 1)) + 1, -2, -1, 0, 1, 2, (1 << (b - 1)) - 2, (1 << (b - 1)) - 1,
                            rng.randrange(-(1 << (b - 1)), 1 << (b - 1))])
    k = rng.random()
    e = dict(op=op, osym=osym, t=t, uns=uns, v=v, tn=tn)
    if k < 0.5:
        e.update(form="cast", src="return %s(%s)%s;" % (osym, tn, c_int_text(v)))
    elif k < 0.85 or t == "bool" or P.bits(t) >= P.bits("int") or op in ("plus", "lnot"):
        e.update(form="var", src="const %s m = %s; return %sm;" % (tn, c_int_text(v), osym))
    else:
        # the un-converted result compared with a constant: the value a narrow unsigned operand would give WITHOUT promotion, or the right one
        e.update(form="cmp", src=None)
    return e


def un_program(exprs):
    return "".join("long long f%d(void) { %s }\n" % (i, e["src"]) for i, e in enumerate(exprs))


def read_dump_unary(path):
    """line → dict(ret=token under `return`, its known values, operand token + known values)"""
    root = ET.parse(path).getroot()
    out = {}
    for d in root.iter("dump"):
        toks = {}
        for t in d.iter("token"):
            toks[t.get("id")] = t.attrib
        vals = {}
        vf = d.find("valueflow")
        if vf is not None:
            for vs in vf.iter("values"):
                vals[vs.get("id")] = [v.attrib for v in vs.iter("value")]

        def known(tok):
            return [wrap64(int(v["intvalue"])) for v in vals.get(tok.get("values"), []) if v.get("known") == "true" and "intvalue" in v and v.get("bound", "Point") == "Point"]
        for t in toks.values():
            if t.get("str") == "return" and t.get("astOperand1"):
                top = toks.get(t["astOperand1"])
                if top is None:
                    continue
                opd = toks.get(top.get("astOperand1")) if top.get("astOperand1") and not top.get("astOperand2") else None
                out[int(t["linenr"])] = dict(top=top, top_known=known(top), opd=opd, opd_known=known(opd) if opd is not None else [])
    return out


def classify_unary(P, e, spec, reported):
    """known-finding classes of a folded unary operator that differs from the C value"""
    v, pu = e["v"], spec["pu"]
    if e["form"] != "cmp":
        if e["op"] == "neg" and pu and reported == wrap64(-v):
            return "fold-unary-minus-unsigned"                       # F10b
        if e["op"] == "bnot" and e["uns"] and e["t"] == "short" and P.bits("short") == P.bits("int") and reported == -v - 1:
            return "fold-bitnot-ushort-wide-as-int"                  # F10h
        if e["op"] == "bnot" and e["uns"] and e["t"] == "llong" and P.bits("llong") < 64 and reported == -v - 1:
            return "fold-bitnot-ulonglong-narrow"                    # F10i
    return None


def run_unary_case(ctx, res, drv, P, cpp, exprs, tag):
    """returns (#known results, violation dicts); registers the model tie mismatches in res.extra"""
    # SPEC (Lean `cun`): promoted type and C value
    sp_ops = ["cun %s %d %d %d %d" % (e["op"], e["v"], 1 if e["t"] == "bool" else P.bits(e["t"]), 1 if e["uns"] else 0, P.bits("int")) for e in exprs]
    rc, sp_out, err = core.run_lines(drv, [], sp_ops)
    specs = []
    for e, o in zip(exprs, sp_out):
        m = re.match(r"^(-?\d+) pbits=(\d+) punsigned=([01])$", o)
        if not m:
            raise core.CheckBroken("driver answered %r to a cun op" % o)
        sp = dict(value=int(m.group(1)), pb=int(m.group(2)), pu=m.group(3) == "1")
        # undefined in C: negation of the minimum of the (signed) promoted type
        sp["undefined"] = e["op"] == "neg" and not sp["pu"] and e["v"] == -(1 << (sp["pb"] - 1))
        specs.append(sp)
        if e["form"] == "cmp":
            wrong = (~e["v"]) & ((1 << P.bits(e["t"])) - 1) if e["op"] == "bnot" else (-e["v"]) & ((1 << P.bits(e["t"])) - 1)
            k = wrong if ctx.rng.random() < 0.6 else sp["value"]
            e["k"] = k
            e["src"] = "return (%s(%s)%s == %s);" % (e["osym"], e["tn"], c_int_text(e["v"]), c_int_text(k))
            sp["cmp"] = 1 if sp["value"] == k else 0
    d = os.path.join(ctx.tmp, "un_%s" % tag)
    os.makedirs(d, exist_ok=True)
    src = os.path.join(d, "u.cpp" if cpp else "u.c")
    open(src, "w").write(un_program(exprs))
    for attempt in range(6):
        try:
            rc, out, err = core.sh([ctx.cppcheck, "--platform=" + P.name, "--dump", "-q", src], cwd=d, timeout=120)
            break
        except OSError:
            if attempt == 5:
                raise
            import time
            time.sleep(2)
            ctx.build_repo()
    if not os.path.exists(src + ".dump"):
        raise core.CheckBroken("cppcheck --dump produced no dump for %s on %s: rc=%s %s" % (src, P.name, rc, (out + err)[-300:]))
    lines = read_dump_unary(src + ".dump")
    viol, nknown, fops, fexp = [], 0, [], []
    for i, (e, sp) in enumerate(zip(exprs, specs)):
        r = lines.get(1 + i)
        if r is None:
            res.count("unary:no-return-token")
            continue
        rep = r["top_known"][0] if r["top_known"] else None
        res.count("unary:%s:%s:%s" % (e["op"], e["form"], "known" if rep is not None else "novalue"))
        nknown += rep is not None
        res.case("unary|%s|%s|%s" % (P.name, "cpp" if cpp else "c", e["src"]), rep is not None,
                 dict(tie="cli-unary", platform=P.name, lang="cpp" if cpp else "c", expr=e["src"], reported=rep, reference=sp["value"]) if i == 0 else None)
        if e["form"] == "cmp":
            if rep is not None and rep != sp["cmp"]:
                viol.append(dict(platform=P.name, lang="cpp" if cpp else "c", expr=e["src"], reported=rep, reference=sp["cmp"], key=None))
            continue
        # (a) model tie: the operator token's value = foldUnary(value and type of the operand token as cppcheck has them) + guard
        opd, top = r["opd"], r["top"]
        if opd is not None and r["opd_known"] and opd.get("valueType-type") in DUMP_ITY and not opd.get("valueType-pointer") and top.get("str") == e["osym"]:
            tty = top.get("valueType-type")
            tsz = P.size.get(VT_SIZE.get(tty, ""), 1 if tty == "bool" else 0)
            fops.append("fold %s %d %d %s %d %d %d %d" % (e["op"], r["opd_known"][0], 1 if opd.get("valueType-sign") == "unsigned" else 0,
                                                        DUMP_ITY[opd["valueType-type"]], P.bits("int"), P.bits("long"),
                                                        1 if top.get("valueType-sign") == "unsigned" else 0, tsz))
            fexp.append((e, rep))
        # (b) P_impl: the C value on the platform
        if rep is not None and not sp["undefined"] and rep != wrap64(sp["value"]):
            viol.append(dict(platform=P.name, lang="cpp" if cpp else "c", expr=e["src"], reported=rep, reference=sp["value"],
                             key=classify_unary(P, e, sp, rep)))
    if fops:
        rc, fo, _ = core.run_lines(drv, [], fops)
        bad = []
        for (e, rep), op, o in zip(fexp, fops, fo):
            want = None if o == "novalue" else int(o) if re.match(r"^-?\d+$", o) else "?"
            if want != rep:
                bad.append("%s on %s: reported %s, model %s (%s)" % (e["src"], P.name, rep, want, op))
        res.traces_validated += len(fexp) - len(bad)
        res.extra["unary_model_checked"] = res.extra.get("unary_model_checked", 0) + len(fexp)
        if bad:
            res.extra.setdefault("unary_model_mismatch", []).extend(bad[:5])
    return nknown, viol


def unary_tie(ctx, res, drv, x, thorough):
    rng = ctx.rng
    allp = [Plat(n, v) for n, v in x["builtin"]] + [Plat("native", x["native"])] + [Plat(n, v) for n, v in x["files"]]
    if thorough:
        runs = [(P, cpp, 250) for P in allp for cpp in (False, True)]
    else:
        builtin = [p for p in allp if p.name in ("unix32", "unix64", "win32A", "win32W", "win64")]
        files = [p for p in allp if p.name not in ("unix32", "unix64", "win32A", "win32W", "win64", "native")]
        runs = [(P, bool((i + ctx.seed) % 2), 150) for i, P in enumerate(builtin)] + [(P, rng.random() < 0.5, 150) for P in rng.sample(files, min(2, len(files)))]
    nknown, viols = 0, []
    for P, cpp, n in runs:
        exprs = [un_expr(rng, P, cpp) for _ in range(n)]
        k, v = run_unary_case(ctx, res, drv, P, cpp, exprs, "%s_%d" % (P.name, cpp))
        nknown += k
        viols += v
    res.extra["unary_platforms"] = sorted(set(P.name for P, _, _ in runs))
    res.extra["unary_known_values"] = nknown
    res.oblig("correspondence:cli-unary-folding-vs-model", not res.extra.get("unary_model_mismatch") and res.extra.get("unary_model_checked", 0) > 50,
              "correspondence", "; ".join(res.extra.get("unary_model_mismatch", [])) or "")
    seen = {}
    for v in viols:
        n = seen.get(v["key"], 0)
        seen[v["key"]] = n + 1
        if n < (3 if v["key"] else 25):
            res.violation("folded unary operator differs from the C value (promotion, then the operator) on platform %s (%s): `%s` reported %d, C value %d" %
                          (v["platform"], v["lang"], v["expr"], v["reported"], v["reference"]),
                          dict(kind="unary", platform=v["platform"], lang=v["lang"], expr=v["expr"], reported=v["reported"], reference=v["reference"],
                               replay_cmd="./check.py C10 --replay <this file>"), concrete=True, key=v["key"])
    for k, n in seen.items():
        res.count("unary:violation:%s" % (k or "unclassified"), n)


# ------------------------------------------------------------------------------------------------------------
# corpus: witnesses of the findings and past disagreements; replayed first on every run
# ------------------------------------------------------------------------------------------------------------
def load_corpus():
    p = os.path.join(core.VERIF, "corpus", "C10", "cases.json")
    return json.load(open(p)) if os.path.exists(p) else []


def corpus_ops():
    return [c["op"] for c in load_corpus() if "op" in c]


def replay_cli_witness(ctx, res, drv, x, w):
    """w: dict(platform, lang, expr, kind, ...) a stored constant expression; returns the violation dicts it produces now"""
    vals = dict(x["builtin"]); vals["native"] = x["native"]; vals.update(dict(x["files"]))
    if w["platform"] not in vals:
        return []
    P = Plat(w["platform"], vals[w["platform"]])
    e = dict(w["case"])
    for f in ("ty", "aty", "bty", "lty"):
        if f in e:
            e[f] = tuple(e[f])
    k, v = run_cli_case(ctx, res, drv, P, w["lang"] == "cpp", [e], "corpus_%s_%s" % (w["platform"], abs(hash(w["expr"])) % 100000))
    return v


def run(ctx, res):
    thorough = ctx.tier == "thorough"
    rng = ctx.rng
    res.assumptions += [
        "std::stoull / strtoull behave as documented (modelled, validated by the in-process correspondence incl. white space, sign and 0x quirks)",
        "host of the analysed binary: char signed 8 bit, int 32 bit (characterLiteralToLL's static_cast<char> / static_cast<int>); re-read by the native probe",
        "C09's model litTypeCore is what setValueTypeInTokenList does (tied by C09's own correspondence); used by theorem literal_value",
        "char_bit = 8 on every platform (theorem platforms_sane over the table extracted on this run)",
        "floating literal values and constant folding of binary operators are sampled through the CLI only (no theorem)",
    ]
    # T1 -------------------------------------------------------------------------------------------------
    x = None
    try:
        x = translate(ctx)
        res.oblig("T1:platform-tables-extracted", True, "translation",
                  "%d built-in, native, %d files; getSizeOf chain %d, getMinMaxValues switch %d" % (len(x["builtin"]), len(x["files"]), len(x["getsizeof"]), len(x["minmax"])))
    except Unrecognised as ex:
        res.oblig("T1:platform-tables-extracted", False, "translation", "unrecognised shape: %s" % ex)
    core.prove(ctx, res, MODULES, THEOREMS)
    drv = ctx.driver("drv_c10")
    exe = ctx.harness("c10")
    have_tables = x is not None
    if x is None:
        # the generated table is stale: still run the correspondence on the literal functions; the `plat` ops expose the difference
        x = dict(builtin=[(n, {}) for n in ("win32A", "win32W", "win64", "unix32", "unix64")],
                 files=[(os.path.basename(p)[:-4], {}) for p in sorted(glob.glob(os.path.join(core.REPO, "platforms", "*.xml")))])
    # corpus first -----------------------------------------------------------------------------------------
    corpus = load_corpus()
    cw = [c["spec"] for c in corpus if "spec" in c]
    if cw:
        pimpl_struct(ctx, res, drv, exe, cw, "corpus")
    if have_tables:
        for c in corpus:
            if "cli" in c:
                for v in replay_cli_witness(ctx, res, drv, x, c["cli"]):
                    res.violation("corpus witness: `%s` on %s (%s) reported %s, reference %s" % (v["expr"], v["platform"], v["lang"], v["reported"], v["reference"]),
                                  dict(kind="cli", platform=v["platform"], lang=v["lang"], expr=v["expr"], reported=v["reported"], reference=v["reference"]),
                                  concrete=True, key=v["key"])
        for c in corpus:
            if "unary" in c:
                w = c["unary"]
                vals = dict(x["builtin"]); vals["native"] = x["native"]; vals.update(dict(x["files"]))
                if w["platform"] in vals:
                    k, vv = run_unary_case(ctx, res, drv, Plat(w["platform"], vals[w["platform"]]), w["lang"] == "cpp", [dict(w["case"])],
                                           "corpus_%d" % corpus.index(c))
                    for v in vv:
                        res.violation("corpus witness: `%s` on %s (%s) reported %d, C value %d" % (v["expr"], v["platform"], v["lang"], v["reported"], v["reference"]),
                                      dict(kind="unary", platform=v["platform"], lang=v["lang"], expr=v["expr"], reported=v["reported"], reference=v["reference"]),
                                      concrete=True, key=v["key"])
    # C1..C5 -----------------------------------------------------------------------------------------------
    ops = corpus_ops() + inproc_ops(ctx, x, thorough)
    rc, impl, err = core.run_lines(exe, [core.REPO], ops)
    rc2, model, err2 = core.run_lines(drv, [], ops)
    for o in ops:
        res.count("op:" + o.split(" ", 1)[0])
    core.correspond(ctx, res, "inprocess", ops, impl, model, nontrivial=nontrivial_inproc)
    # P_impl for the truncation: the implementation's result is the two's complement wrap (python integers)
    nt = 0
    for o, got in zip(ops, impl):
        f = o.split(" ")
        if f[0] == "trunc" and 0 < int(f[2]) <= 8 and len(impl) == len(ops):
            v, n, sg = int(f[1]), int(f[2]), f[3] == "1"
            w = v & ((1 << (8 * n)) - 1)
            if sg and w >= 1 << (8 * n - 1):
                w -= 1 << (8 * n)
            if got != str(wrap64(w)):
                nt += 1
                if nt <= 5:
                    res.violation("truncateIntValue(%d, %d, %s) = %s, the conversion to a %d-bit %s type gives %d" %
                                  (v, n, "SIGNED" if sg else "UNSIGNED", got, 8 * n, "signed" if sg else "unsigned", wrap64(w)),
                                  dict(kind="op", op=o, implementation=got, specification=str(wrap64(w))), concrete=True, key=None)
    for o in impl:
        if o.startswith("B "):
            res.count("big:" + re.sub(r":-?\d+", "", o.split(" | ")[0][2:]))
        elif o.startswith("ok:"):
            res.count("chr:ok")
        elif o.startswith("err:"):
            res.count("chr:" + o[4:])
    # P_impl on structured literals ------------------------------------------------------------------------
    n = 6 if thorough else 1
    specs = [gen_struct_lit(rng) for _ in range(2500 * n)] + [gen_struct_char(rng) for _ in range(2500 * n)]
    cases = pimpl_struct(ctx, res, drv, exe, specs, "generated")
    # C6 ---------------------------------------------------------------------------------------------------
    allp = None
    if have_tables:
        allp = cli_tie(ctx, res, drv, x, thorough)
        unary_tie(ctx, res, drv, x, thorough)
    # thorough: validate the SPEC against compilers ----------------------------------------------------------
    if thorough and have_tables:
        spec_probes(ctx, res, cases, allp, drv)
    # search when an obligation broke and nothing concrete is known yet ----------------------------------------
    if any(not o["ok"] for o in res.obligations) and not any(v["concrete"] and not known_key(v.get("key")) for v in res.violations):
        search(ctx, res, drv, exe, x, have_tables)


def known_key(k):
    return k is not None and any(e.get("property") == ID and e.get("kind") == "finding" and e.get("key") == k for e in core.load_known())


REF_MODELS = {   # System V i386 / x86-64 psABI, Microsoft x86 / x64 ABI (the same tables as Platforms.referenceModel in Lean)
    "unix32": dict(short=2, int=4, long=4, llong=8, pointer=4, float=4, double=8, ldouble=12),
    "unix64": dict(short=2, int=4, long=8, llong=8, pointer=8, float=4, double=8, ldouble=16),
    "win32A": dict(short=2, int=4, long=4, llong=8, pointer=4, float=4, double=8, ldouble=8),
    "win32W": dict(short=2, int=4, long=4, llong=8, pointer=4, float=4, double=8, ldouble=8),
    "win64": dict(short=2, int=4, long=4, llong=8, pointer=8, float=4, double=8, ldouble=8),
}


def search_datamodel(ctx, res, drv):
    """P_impl for the built-in platforms: sizeof(T) as the real binary reports it against the ABI tables"""
    for name, ref in REF_MODELS.items():
        v = dict(sizeof_short=ref["short"], sizeof_int=ref["int"], sizeof_long=ref["long"], sizeof_long_long=ref["llong"], sizeof_wchar_t=2,
                 sizeof_float=ref["float"], sizeof_double=ref["double"], sizeof_long_double=ref["ldouble"], sizeof_pointer=ref["pointer"],
                 sizeof_size_t=ref["pointer"], char_bit=8, defaultSign="s")
        P = Plat(name, v)
        exprs = [dict(src="sizeof(%s)" % tn, expect=P.size[t], kind="S", ty=("long", True)) for tn, t in SIZEOF_T]
        k, viol = run_cli_case(ctx, res, drv, P, False, exprs, "dm_" + name)
        for vv in viol:
            res.violation("search: `%s` with --platform=%s reported %d, the ABI data model gives %d" % (vv["expr"], name, vv["reported"], vv["reference"]),
                          dict(kind="cli", platform=name, lang="c", expr=vv["expr"], reported=vv["reported"], reference=vv["reference"]), concrete=True, key=None)


def search(ctx, res, drv, exe, x, have_tables):
    """wider structured sample (P_impl on the implementation) and, with tables, every platform through the CLI"""
    rng = ctx.rng
    search_datamodel(ctx, res, drv)
    specs = [gen_struct_lit(rng) for _ in range(12000)] + [gen_struct_char(rng) for _ in range(12000)]
    res2 = core.Result(ctx, res.level)
    pimpl_struct(ctx, res2, drv, exe, specs, "search")
    if have_tables and ctx.tier != "thorough":
        cli_tie(ctx, res2, drv, x, True)
    res.extra["search_cases"] = res2.evaluations
    for v in res2.violations:
        if not known_key(v.get("key")):
            res.violation("search: " + v["what"], v["replay"], concrete=True, key=v.get("key"))
            if len(res.violations) > 30:
                break


# ------------------------------------------------------------------------------------------------------------
# thorough: static_assert probes — validate the specification (Lean `Lit.value`/`CharLit.value`, reference evaluator, data models)
# ------------------------------------------------------------------------------------------------------------
CLANG_TARGET = {"unix64": "x86_64-linux-gnu", "unix32": "i386-linux-gnu", "win64": "x86_64-pc-windows-msvc", "win32A": "i686-pc-windows-msvc",
                "win32W": "i686-pc-windows-msvc", "native": "x86_64-linux-gnu", "avr8": "avr", "arm32-wchar_t4": "arm-none-eabi",
                "arm64-wchar_t4": "aarch64-linux-gnu", "riscv32": "riscv32", "riscv64": "riscv64", "mips32": "mips-linux-gnu",
                "msp430_eabi_large_datamodel": "msp430", "aix_ppc64": "powerpc64-ibm-aix", "elbrus-e1cp": None, "cray_sv1": None}


def clang_asserts(ctx, target, cpp, asserts, extra=()):
    """compile one static_assert per line; returns (set of failing line indices, set of lines rejected for another reason)"""
    src = os.path.join(ctx.tmp, "probe_%d.%s" % (ctx.rng.getrandbits(30), "cpp" if cpp else "c"))
    open(src, "w").write("".join(a + "\n" for a in asserts))
    cmd = ["clang-14", "--target=" + target, "-fsyntax-only", "-fms-extensions", "-w", "-ferror-limit=0",
           "-std=c++17" if cpp else "-std=gnu11"] + list(extra) + [src]
    rc, out, err = core.sh(cmd, timeout=300)
    failed, rejected = set(), set()
    for m in re.finditer(r":(\d+):\d+: error: (.*)", err):
        (failed if "static_assert failed" in m.group(2) or "static assertion failed" in m.group(2) else rejected).add(int(m.group(1)) - 1)
    return failed, rejected, err


def spec_probes(ctx, res, cases, allp, drv):
    rng = ctx.rng
    # (1) Lean spec values of structured literals against clang (x86-64: signed char, 32-bit int = the host assumptions of the model)
    asserts, meta = [], []
    for c in cases:
        kv = c["spec"]
        if kv["wf"] != "1":
            continue
        text = core.unhx(kv["render"]).decode("latin-1")
        if c["kind"] == "lit":
            f = c["op"].split(" ")
            if f[1] != "-" or kv["canon"] != "1" or int(kv["mag"]) >= 2 ** 64:
                continue
            suf = core.unhx(f[5]).decode("latin-1")
            if suf.startswith("_") or suf.lower() in ("z", "uz", "zu") or (suf and suf != suf.lower() and suf != suf.upper() and "l" in suf.lower() and "ll" in suf.lower() and suf.replace("u", "").replace("U", "") not in ("ll", "LL")):
                continue      # user-defined / C++23 size_t suffixes, mixed-case `lL`: not accepted by the probe compiler
            asserts.append('static_assert((unsigned long long)(%s) == %sULL, "");' % (text, kv["mag"]))
        else:
            if any(ord(ch) < 0x20 or ord(ch) > 0x7e for ch in text):
                continue
            asserts.append('static_assert(%s == %s, "");' % (text, kv["value"]))
        meta.append(c)
        if len(asserts) >= 3000:
            break
    failed, rejected, err = clang_asserts(ctx, "x86_64-linux-gnu", True, asserts)
    res.extra["spec_probe_literals"] = dict(asserted=len(asserts), rejected_by_compiler=len(rejected), contradicted=len(failed))
    res.oblig("spec:literal-values-agree-with-clang", not failed and len(asserts) - len(rejected) > 500, "spec-validation",
              "" if not failed else "clang contradicts the specification value of: %s" % [asserts[i] for i in sorted(failed)[:5]])
    # (2) data models: what clang says about each target (predefined macros)
    def target_model(tgt):
        rc, out, err = core.sh(["clang-14", "--target=" + tgt, "-E", "-dM", "-x", "c", "/dev/null"], timeout=60)
        m = dict(re.findall(r"#define (__SIZEOF_\w+__|__CHAR_UNSIGNED__|__CHAR_BIT__) (\d+)", out))
        if "__SIZEOF_INT__" not in m:
            return None
        return dict(short=int(m["__SIZEOF_SHORT__"]), int=int(m["__SIZEOF_INT__"]), long=int(m["__SIZEOF_LONG__"]), llong=int(m["__SIZEOF_LONG_LONG__"]),
                    pointer=int(m["__SIZEOF_POINTER__"]), size_t=int(m["__SIZEOF_SIZE_T__"]), wchar_t=int(m["__SIZEOF_WCHAR_T__"]),
                    float=int(m["__SIZEOF_FLOAT__"]), double=int(m["__SIZEOF_DOUBLE__"]), ldouble=int(m["__SIZEOF_LONG_DOUBLE__"]),
                    char_unsigned="__CHAR_UNSIGNED__" in m)
    builtin_bad, file_diff, models = [], [], {}
    for P in allp:
        tgt = CLANG_TARGET.get(P.name)
        if not tgt:
            continue
        tm = target_model(tgt)
        if tm is None:
            continue
        models[P.name] = tm
        diff = ["%s: platform %s, clang %s" % (k, P.size[k], tm[k]) for k in ("short", "int", "long", "llong", "pointer", "size_t", "wchar_t", "float", "double", "ldouble") if P.size[k] != tm[k]]
        if P.char_unsigned != tm["char_unsigned"]:
            diff.append("char: platform %s, clang %s" % ("unsigned" if P.char_unsigned else "signed", "unsigned" if tm["char_unsigned"] else "signed"))
        if diff:
            (builtin_bad if P.name in ("unix32", "unix64", "win32A", "win32W", "win64") else file_diff).append("%s vs --target=%s: %s" % (P.name, tgt, "; ".join(diff)))
    res.extra["platform_file_vs_clang_target"] = file_diff
    res.oblig("spec:reference-data-models-agree-with-clang", not builtin_bad and len(models) >= 5, "spec-validation", "; ".join(builtin_bad))
    # (3) reference evaluator against clang, on the targets whose integer sizes are the platform's (char signedness forced to the platform's)
    contradicted, total, used = [], 0, []
    for P in allp:
        tgt, tm = CLANG_TARGET.get(P.name), models.get(P.name)
        if not tm or any(P.size[k] != tm[k] for k in ("short", "int", "long", "llong", "pointer", "float", "double", "ldouble")):
            continue
        used.append(P.name)
        for cpp in (False, True):
            exprs = [cli_expr(rng, P, cpp) for _ in range(150)]
            exprs = [e for e in exprs if e["expect"] is not None and e["kind"] not in ("F",) and not (e["kind"] == "T" and not cpp)
                     and not (e["kind"] == "C" and e["src"].startswith(("L", "u", "U")))]
            kw = "static_assert" if cpp else "_Static_assert"
            asserts = ['%s((%s) == %d, "");' % (kw, e["src"], e["expect"]) if e["expect"] >= 0 else
                       '%s((%s) == -%d - 1, "");' % (kw, e["src"], -e["expect"] - 1) for e in exprs]
            failed, rejected, err = clang_asserts(ctx, tgt, cpp, asserts, ["-funsigned-char" if P.char_unsigned else "-fsigned-char"])
            total += len(asserts) - len(rejected)
            contradicted += ["%s/%s: %s" % (P.name, tgt, asserts[i]) for i in sorted(failed)]
    # (4) the Lean spec of the unary operators (`cun`: promotion, then the operator) against the same targets
    utotal, ubad = 0, []
    for P in allp:
        tgt, tm = CLANG_TARGET.get(P.name), models.get(P.name)
        if P.name not in used:
            continue
        for cpp in (False, True):
            es = [e for e in (un_expr(rng, P, cpp) for _ in range(120)) if e["form"] == "cast" and e["t"] != "bool"]
            ops = ["cun %s %d %d %d %d" % (e["op"], e["v"], P.bits(e["t"]), 1 if e["uns"] else 0, P.bits("int")) for e in es]
            rc, so, _ = core.run_lines(drv, [], ops)
            kw = "static_assert" if cpp else "_Static_assert"
            asserts = []
            for e, o in zip(es, so):
                m = re.match(r"^(-?\d+) pbits=(\d+) punsigned=([01])$", o)
                val, pb, pu = int(m.group(1)), int(m.group(2)), m.group(3) == "1"
                if e["op"] == "neg" and not pu and e["v"] == -(1 << (pb - 1)):
                    asserts.append("")        # undefined behaviour: nothing to assert
                    continue
                body = e["src"][len("return "):-1]
                asserts.append('%s((%s) == %s, "");' % (kw, body, c_int_text(val)))
            failed, rejected, err = clang_asserts(ctx, tgt, cpp, asserts, ["-funsigned-char" if P.char_unsigned else "-fsigned-char"])
            utotal += len([a for a in asserts if a]) - len(rejected)
            ubad += ["%s/%s: %s" % (P.name, tgt, asserts[i]) for i in sorted(failed)]
    res.extra["spec_probe_unary"] = dict(asserted=utotal, contradicted=len(ubad))
    res.oblig("spec:unary-operator-values-agree-with-clang", not ubad and utotal > 500, "spec-validation",
              "" if not ubad else "clang contradicts the Lean specification cUnary: %s" % ubad[:5])
    res.extra["spec_probe_expressions"] = dict(asserted=total, contradicted=len(contradicted), platforms=used)
    res.oblig("spec:reference-evaluator-agrees-with-clang", not contradicted and total > 1000, "spec-validation",
              "" if not contradicted else "clang contradicts the reference evaluator: %s" % contradicted[:5])


def replay(ctx, res, rp):
    drv = ctx.driver("drv_c10")
    exe = ctx.harness("c10")
    if rp.get("kind") == "struct":
        pimpl_struct(ctx, res, drv, exe, [rp["op"]], "replay")
    elif rp.get("kind") == "cli":
        x = extract(ctx)
        vals = dict(x["builtin"]); vals["native"] = x["native"]; vals.update(dict(x["files"]))
        P = Plat(rp["platform"], vals[rp["platform"]])
        e = dict(src=rp["expr"], expect=rp["reference"], kind="R")
        k, v = run_cli_case(ctx, res, drv, P, rp["lang"] == "cpp", [e], "replay")
        for vv in v:
            res.violation("`%s` on %s reported %d, reference %d" % (vv["expr"], vv["platform"], vv["reported"], vv["reference"]), dict(vv), concrete=True, key=None)
    elif rp.get("kind") == "unary":
        x = extract(ctx)
        vals = dict(x["builtin"]); vals["native"] = x["native"]; vals.update(dict(x["files"]))
        P = Plat(rp["platform"], vals[rp["platform"]])
        d = os.path.join(ctx.tmp, "replay_un"); os.makedirs(d, exist_ok=True)
        src = os.path.join(d, "u.cpp" if rp["lang"] == "cpp" else "u.c")
        open(src, "w").write("long long f0(void) { %s }\n" % rp["expr"])
        core.sh([ctx.cppcheck, "--platform=" + P.name, "--dump", "-q", src], cwd=d, timeout=120)
        r = read_dump_unary(src + ".dump").get(1)
        rep = r["top_known"][0] if r and r["top_known"] else None
        if rep is not None and rep != wrap64(rp["reference"]):
            res.violation("`%s` on %s reported %d, C value %d" % (rp["expr"], P.name, rep, rp["reference"]), dict(rp), concrete=True, key=None)
    elif "op" in rp:
        rc, a, _ = core.run_lines(exe, [core.REPO], [rp["op"]])
        rc, b, _ = core.run_lines(drv, [], [rp["op"]])
        if a != b:
            res.violation("implementation %s, model %s on %s" % (a, b, rp["op"]), dict(rp), concrete=True, key=None)
    for v in res.violations:
        print("VIOLATION property=C10 replay=(replayed) %s" % v["what"][:300])
    print("replay: %d failing" % len(res.violations))
    return 1 if res.violations else 0

"""C10 — literal and constant values match the compiler on each platform.

Obligations
  theorems   Cppcheck.Props.C10 (Lean, unbounded): toBig_render / toBigU_render (every rendered literal of the grammar,
             all bases, any number of digits, any valid suffix, optional sign, value < 2^64 ⇒ exact value mod 2^64),
             toBig_rejects_overflow_partial (+ the proved counterexample for binary literals), isInt_iff_grammar,
             suffix_iff_spec, charlit_value (+ counterexample `\\x0x4`), truncate_eq_wrap, minmax_*, const_* and the
             table theorems re-proved over the platform table generated on this run.
  T1         Platform::set (lib/platform.cpp) + platforms/*.xml + the XML element→field chain of loadFromXmlDocument
             → lean/Cppcheck/Gen/Platforms.lean (fail closed); the scalar chain of ValueType::getSizeOf and the
             type→bits switch of getMinMaxValues → Gen.sizeOfSrc / Gen.bitsOfSrc (theorems: model = source chain)
  C1..C5     in-process correspondence (harness/c10.cpp vs lean/Driver/C10.lean): classification, toBigNumber/
             toBigUNumber, characterLiteralToLL, truncateIntValue/getMinMaxValues, Platform::set(name) + getSizeOf
  C6         CLI: `cppcheck --dump` of literal / constant-expression programs per platform; reported known values
             compared with (a) the model's prediction for literals, (b) the reference C evaluator (P_impl)
P_impl       reported known value of a literal / constant expression == value of the C abstract machine for the platform
             (python reference evaluator; validated against gcc/clang static_assert probes in the thorough tier)
"""
import os, re, json, glob, subprocess
import xml.etree.ElementTree as ET
from .. import core, build_repo

ID = "C10"
LEVEL = "proof"
RULE = ("cases = literal spellings (bases × digit runs around 2^7..2^64 × every suffix spelling incl. i64/uz/user-defined, "
        "signs, malformed neighbours), character literals (prefix × escapes × multi-char × UTF-8 × malformed), "
        "truncation triples, platform/type pairs, and constant-expression programs per platform; "
        "non-trivial = the input is accepted by at least one classifier or reaches a conversion branch (not the "
        "generic invalid_argument path), resp. the program yields at least one known value")
EXPLANATION = ("Lean theorems hold for every literal of the grammar (unbounded digit strings); tie = translator for the "
               "platform tables (decided whole on every run) + differential correspondence of every modelled function. "
               "Outside the model: floating literal VALUES (classification only), literal TYPE selection "
               "(setValueTypeInTokenList), raw UTF-8 in the charlit_value theorem (correspondence only), "
               "constant folding beyond what the CLI tie samples (F5 is a finding there).")
THEOREMS = [
    "Cppcheck.C10.toBig_render", "Cppcheck.C10.toBigU_render", "Cppcheck.C10.toBig_rejects_overflow_partial",
    "Cppcheck.C10.toBig_rejects_overflow_counterexample", "Cppcheck.C10.toBig_bin_wraps",
    "Cppcheck.C10.isInt_iff_grammar", "Cppcheck.C10.suffix_iff_spec", "Cppcheck.C10.iso_literal_accepted",
    "Cppcheck.C10.charlit_value_partial", "Cppcheck.C10.charlit_value_counterexample",
    "Cppcheck.C10.truncate_eq_wrap", "Cppcheck.C10.minmax_eq_range_partial", "Cppcheck.C10.minmax_counterexample",
    "Cppcheck.C10.const_unsigned_adjust",
    "Cppcheck.C10.sizeof_table", "Cppcheck.C10.sizeOf_eq_source", "Cppcheck.C10.bitsOf_eq_source",
    "Cppcheck.C10.platforms_sane", "Cppcheck.C10.platform_ranges_defined",
]
MODULES = ["Cppcheck.Props.C10"]


class Unrecognised(Exception):
    pass


# ------------------------------------------------------------------------------------------------------------
# T1: translator  lib/platform.cpp + platforms/*.xml + getSizeOf / getMinMaxValues chains → Gen/Platforms.lean
# ------------------------------------------------------------------------------------------------------------
FIELDS = ["sizeof_bool", "sizeof_short", "sizeof_int", "sizeof_long", "sizeof_long_long", "sizeof_float", "sizeof_double",
          "sizeof_long_double", "sizeof_wchar_t", "sizeof_size_t", "sizeof_pointer"]
NATIVE_TYPES = {"bool", "short", "int", "long", "long long", "float", "double", "long double", "wchar_t", "std::size_t", "void *"}


def strip_comments(text):
    text = re.sub(r"/\*.*?\*/", "", text, flags=re.S)
    return re.sub(r"//[^\n]*", "", text)


def function_body(text, header_re):
    """body of the first function whose header matches, found by brace counting (strings in these windows hold no braces)"""
    m = re.search(header_re, text)
    if not m:
        raise Unrecognised("function header not found: " + header_re)
    i = text.index("{", m.end() - 1)
    depth, j = 0, i
    while j < len(text):
        if text[j] == "{":
            depth += 1
        elif text[j] == "}":
            depth -= 1
            if depth == 0:
                return text[i + 1:j]
        j += 1
    raise Unrecognised("unbalanced braces after " + header_re)


def native_probe(ctx, types):
    """sizes of the host types named in the Native branch, by the compiler that builds /repo"""
    src = "#include <cstdio>\n#include <cstddef>\n#include <limits>\nint main(){\n"
    for t in types:
        src += 'std::printf("%%zu\\n", sizeof(%s));\n' % t
    src += 'std::printf("%d\\n", (int)std::numeric_limits<char>::is_signed);\n}\n'
    p = os.path.join(ctx.tmp, "native_probe.cpp")
    open(p, "w").write(src)
    exe = os.path.join(ctx.tmp, "native_probe")
    rc, out, err = core.sh(["g++", "-std=c++17", p, "-o", exe])
    if rc != 0:
        raise Unrecognised("native probe does not compile: " + err[-300:])
    rc, out, err = core.sh([exe])
    vals = [int(x) for x in out.split()]
    return vals[:-1], bool(vals[-1])


def parse_platform_set(ctx, repo):
    text = strip_comments(open(os.path.join(repo, "lib", "platform.cpp")).read())
    body = function_body(text, r"bool\s+Platform::set\s*\(\s*Type\s+t\s*\)\s*\{")
    lines = [l.strip() for l in body.split("\n") if l.strip()]
    if lines[0] != "switch (t) {":
        raise Unrecognised("Platform::set: expected switch (t) {, got " + lines[0])
    groups, labels, cur, i = [], [], None, 1
    trailer = []
    while i < len(lines):
        l = lines[i]
        m = re.match(r"^case Type::(\w+):$", l)
        if m:
            if cur is not None and cur["stmts"]:
                raise Unrecognised("Platform::set: fall-through into case " + m.group(1))
            if cur is None:
                cur = dict(labels=[], stmts=[], vals={}, native_types={}, native_sign=False)
            cur["labels"].append(m.group(1))
            i += 1
            continue
        if cur is None:
            trailer.append(l)
            i += 1
            continue
        m = re.match(r"^(sizeof_\w+) = (\d+);$", l)
        if m and m.group(1) in FIELDS:
            cur["vals"][m.group(1)] = int(m.group(2)); cur["stmts"].append(l); i += 1; continue
        m = re.match(r"^(sizeof_\w+) = sizeof\(([\w :*]+)\);$", l)
        if m and m.group(1) in FIELDS and m.group(2).strip() in NATIVE_TYPES:
            cur["native_types"][m.group(1)] = m.group(2).strip(); cur["stmts"].append(l); i += 1; continue
        m = re.match(r"^windows = (true|false);$", l)
        if m:
            cur["vals"]["windows"] = (m.group(1) == "true"); cur["stmts"].append(l); i += 1; continue
        m = re.match(r"^defaultSign = '([su])';$", l)
        if m:
            cur["vals"]["defaultSign"] = m.group(1); cur["stmts"].append(l); i += 1; continue
        m = re.match(r"^char_bit = (\d+);$", l)
        if m:
            cur["vals"]["char_bit"] = int(m.group(1)); cur["stmts"].append(l); i += 1; continue
        if l == "type = t;" or l == "calculateBitMembers();":
            cur["stmts"].append(l); i += 1; continue
        if l == "if (type == Type::Unspecified) {":
            want = ["defaultSign = '\\0';", "} else {", "defaultSign = std::numeric_limits<char>::is_signed ? 's' : 'u';", "}"]
            if lines[i + 1:i + 5] != want:
                raise Unrecognised("Platform::set: native defaultSign shape: %s" % lines[i:i + 5])
            cur["native_sign"] = True; cur["stmts"].append(l); i += 5; continue
        if l in ("return true;", "return false;"):
            cur["ret"] = (l == "return true;")
            groups.append(cur); cur = None; i += 1; continue
        raise Unrecognised("Platform::set: statement not understood: " + l)
    if cur is not None:
        raise Unrecognised("Platform::set: case group without return")
    if trailer != ["}", "return false;"]:
        raise Unrecognised("Platform::set: unexpected trailer %s" % trailer)
    # name -> Type of Platform::set(const std::string&, ...)
    body2 = function_body(text, r"bool\s+Platform::set\s*\(\s*const\s+std::string\s*&\s*platformstr")
    names = dict((m.group(2), m.group(1)) for m in re.finditer(r'platformstr == "(\w+)"\)\s*set\(Type::(\w+)\);', body2))
    n_if = len(re.findall(r"platformstr ==", body2))
    if n_if != len(names):
        raise Unrecognised("Platform::set(string): %d comparisons, %d understood" % (n_if, len(names)))
    # calculateBitMembers must be the seven products char_bit * sizeof_x
    htext = strip_comments(open(os.path.join(repo, "lib", "platform.h")).read())
    cb = [l.strip() for l in function_body(htext, r"void\s+calculateBitMembers\s*\(\s*\)\s*\{").split("\n") if l.strip()]
    want = ["%s_bit = char_bit * sizeof_%s;" % (x, x) for x in ("short", "int", "long", "long_long", "float", "double", "long_double")]
    if cb != want:
        raise Unrecognised("calculateBitMembers: %s" % cb)
    plats, native = [], None
    for g in groups:
        if not g.get("ret"):
            if g["labels"] != ["File"] or g["stmts"]:
                raise Unrecognised("Platform::set: group returning false: %s" % g["labels"])
            continue
        if g["native_types"]:
            if sorted(g["labels"]) != ["Native", "Unspecified"] or not g["native_sign"] or set(g["native_types"]) != set(FIELDS):
                raise Unrecognised("Platform::set: native group shape")
            order = list(g["native_types"].items())
            sizes, signed = native_probe(ctx, [t for _, t in order])
            vals = dict(g["vals"])
            for (f, _), s in zip(order, sizes):
                vals[f] = s
            vals["defaultSign"] = "s" if signed else "u"
            native = vals
            continue
        need = set(FIELDS) | {"windows", "defaultSign", "char_bit"}
        if set(g["vals"]) != need:
            raise Unrecognised("Platform::set: case %s sets %s" % (g["labels"], sorted(set(g["vals"]) ^ need)))
        for lab in g["labels"]:
            nm = names.get(lab)
            if nm is None:
                raise Unrecognised("Platform::set: Type::%s has no platform string" % lab)
            plats.append((nm, dict(g["vals"])))
    if native is None or "Native" not in names or names.get("Native") != "native":
        raise Unrecognised("Platform::set: native group missing")
    for k in ("windows", "char_bit"):
        if k not in native:
            raise Unrecognised("native group does not set " + k)
    return plats, native


def parse_xml_chain(repo):
    """element name → field, from Platform::loadFromXmlDocument"""
    text = strip_comments(open(os.path.join(repo, "lib", "platform.cpp")).read())
    body = function_body(text, r"bool\s+Platform::loadFromXmlDocument\s*\(")
    top = dict((m.group(1), m.group(2)) for m in re.finditer(r'std::strcmp\(name, "([\w-]+)"\) == 0\)\s*(\w+) = xmlTextAsUInt\(node, error\);', body))
    sz = dict((m.group(1), m.group(2)) for m in re.finditer(r'std::strcmp\(szname, "([\w-]+)"\) == 0\)\s*(\w+) = xmlTextAsUInt\(sz, error\);', body))
    if top != {"char_bit": "char_bit"}:
        raise Unrecognised("loadFromXmlDocument: top-level numeric elements %s" % top)
    if sorted(sz.values()) != sorted(FIELDS):
        raise Unrecognised("loadFromXmlDocument: sizeof children %s" % sz)
    if not re.search(r'std::strcmp\(name, "default-sign"\) == 0\) \{\s*const char \* const str = xmlText\(node, error\);\s*if \(!error\)\s*defaultSign = \*str;', body):
        raise Unrecognised("loadFromXmlDocument: default-sign shape")
    if not re.search(r'std::strcmp\(node->Name\(\), "windows"\) == 0\) \{\s*windows = xmlTextAsBool\(node, error\);', body):
        raise Unrecognised("loadFromXmlDocument: windows shape")
    n_cmp = len(re.findall(r"std::strcmp\(", body))
    if n_cmp != 5 + len(sz):      # platform root, default-sign, char_bit, sizeof, windows + the sizeof children
        raise Unrecognised("loadFromXmlDocument: %d strcmp calls, expected %d" % (n_cmp, 5 + len(sz)))
    if "calculateBitMembers();" not in body:
        raise Unrecognised("loadFromXmlDocument: calculateBitMembers not called")
    return sz


def parse_xml_platforms(repo, native, sz_chain):
    out = []
    for p in sorted(glob.glob(os.path.join(repo, "platforms", "*.xml"))):
        root = ET.parse(p).getroot()
        if root.tag != "platform":
            raise Unrecognised("%s: root element %s" % (p, root.tag))
        vals = dict(native)       # Platform() constructor = set(Native); the file overrides what it mentions
        for node in root:
            if node.tag == "default-sign":
                if not node.text:
                    raise Unrecognised("%s: empty default-sign" % p)
                vals["defaultSign"] = node.text[0]
            elif node.tag == "char_bit":
                vals["char_bit"] = int(node.text)
            elif node.tag == "sizeof":
                for c in node:
                    if c.tag in sz_chain:
                        vals[sz_chain[c.tag]] = int(c.text)
            elif node.tag == "windows":
                vals["windows"] = node.text.strip() in ("true", "1")
        if vals["defaultSign"] not in "su":
            raise Unrecognised("%s: default-sign %r" % (p, vals["defaultSign"]))
        out.append((os.path.basename(p)[:-4], vals))
    if not out:
        raise Unrecognised("no platform files found")
    return out


VT_CTYPE = {"BOOL": "bool", "CHAR": "char", "SHORT": "short", "WCHAR_T": "wchar", "INT": "int", "LONG": "long", "LONGLONG": "longlong",
            "FLOAT": "float", "DOUBLE": "double", "LONGDOUBLE": "longdouble"}
FIELD_LEAN = {"sizeof_bool": "sizeofBool", "sizeof_short": "sizeofShort", "sizeof_int": "sizeofInt", "sizeof_long": "sizeofLong",
              "sizeof_long_long": "sizeofLongLong", "sizeof_float": "sizeofFloat", "sizeof_double": "sizeofDouble",
              "sizeof_long_double": "sizeofLongDouble", "sizeof_wchar_t": "sizeofWchar", "sizeof_size_t": "sizeofSizeT",
              "sizeof_pointer": "sizeofPointer"}
BIT_LEAN = {"char_bit": "p.charBit", "short_bit": "p.charBit * p.sizeofShort", "int_bit": "p.charBit * p.sizeofInt",
            "long_bit": "p.charBit * p.sizeofLong", "long_long_bit": "p.charBit * p.sizeofLongLong"}


def parse_getsizeof(repo):
    """scalar chain at the head of ValueType::getSizeOf → [(ctype, lean expr)]"""
    text = strip_comments(open(os.path.join(repo, "lib", "symboldatabase.cpp")).read())
    body = function_body(text, r"size_t\s+ValueType::getSizeOf\s*\(")
    head = body.split("if (type == ValueType::Type::CONTAINER)")[0]
    lines = [l.strip() for l in head.split("\n") if l.strip()]
    chain = []
    i = 0
    pre = ["if (maxRecursion > settings.vfOptions.maxSizeOfRecursion) {", "return 0;", "}", "const auto& platform = settings.platform;",
           "if (sizeOf == SizeOf::Pointer && (pointer || reference != Reference::None))", "return platform.sizeof_pointer;"]
    if lines[:len(pre)] != pre:
        raise Unrecognised("getSizeOf: prologue %s" % lines[:len(pre)])
    chain.append(("pointer", "p.sizeofPointer"))
    i = len(pre)
    while i < len(lines):
        m = re.match(r"^if \((type == ValueType::Type::\w+(?: \|\| type == ValueType::Type::\w+)*)\)$", lines[i])
        if not m or i + 1 >= len(lines):
            raise Unrecognised("getSizeOf: " + lines[i])
        tys = re.findall(r"ValueType::Type::(\w+)", m.group(1))
        r = lines[i + 1]
        mm = re.match(r"^return platform\.(sizeof_\w+);$", r)
        if mm and mm.group(1) in FIELD_LEAN:
            e = "p." + FIELD_LEAN[mm.group(1)]
        elif re.match(r"^return (\d+);$", r):
            e = re.match(r"^return (\d+);$", r).group(1)
        else:
            raise Unrecognised("getSizeOf: " + r)
        for t in tys:
            if t not in VT_CTYPE:
                raise Unrecognised("getSizeOf: type " + t)
            chain.append((VT_CTYPE[t], e))
        i += 2
    if sorted(c for c, _ in chain) != sorted(list(VT_CTYPE.values()) + ["pointer"]):
        raise Unrecognised("getSizeOf: chain covers %s" % [c for c, _ in chain])
    return chain


def parse_minmax_switch(repo):
    text = strip_comments(open(os.path.join(repo, "lib", "vf_common.cpp")).read())
    body = function_body(text, r"bool\s+getMinMaxValues\s*\(\s*const\s+ValueType\s*\*\s*vt")
    sw = function_body(body, r"switch\s*\(vt->type\)\s*\{")
    lines = [l.strip() for l in sw.split("\n") if l.strip()]
    out, i = [], 0
    while i < len(lines):
        m = re.match(r"^case ValueType::Type::(\w+):$", lines[i])
        if m:
            mm = re.match(r"^bits = (?:platform\.(\w+)|(\d+));$", lines[i + 1])
            if not mm or lines[i + 2] != "break;" or m.group(1) not in VT_CTYPE:
                raise Unrecognised("getMinMaxValues switch: %s" % lines[i:i + 3])
            e = BIT_LEAN.get(mm.group(1)) if mm.group(1) else mm.group(2)
            if e is None:
                raise Unrecognised("getMinMaxValues switch: field " + mm.group(1))
            out.append((VT_CTYPE[m.group(1)], e)); i += 3; continue
        if lines[i] == "default:" and lines[i + 1] == "return false;":
            i += 2; continue
        raise Unrecognised("getMinMaxValues switch: " + lines[i])
    # the value part after the switch must be the text the model was copied from
    tail = re.sub(r"\s+", " ", body.split("}", 1)[1] if False else body[body.index("if (bits == 1)"):]).strip()
    want = ("if (bits == 1) { minValue = 0; maxValue = 1; } else if (bits < 62) { if (vt->sign == ValueType::Sign::UNSIGNED) { minValue = 0; "
            "maxValue = (1LL << bits) - 1; } else { minValue = -(1LL << (bits - 1)); maxValue = (1LL << (bits - 1)) - 1; } } else if (bits == 64) { "
            "if (vt->sign == ValueType::Sign::UNSIGNED) { minValue = 0; maxValue = LLONG_MAX; } else { minValue = LLONG_MIN; maxValue = LLONG_MAX; } } "
            "else { return false; } return true;")
    if tail != want:
        raise Unrecognised("getMinMaxValues: value part changed: " + tail[:200])
    return out


def lean_platform(name, v):
    return ('  { name := "%s", charBit := %d, sizeofBool := %d, sizeofShort := %d, sizeofInt := %d, sizeofLong := %d, sizeofLongLong := %d,\n'
            '    sizeofFloat := %d, sizeofDouble := %d, sizeofLongDouble := %d, sizeofWchar := %d, sizeofSizeT := %d, sizeofPointer := %d,\n'
            '    charUnsigned := %s, windows := %s }') % (
        name, v["char_bit"], v["sizeof_bool"], v["sizeof_short"], v["sizeof_int"], v["sizeof_long"], v["sizeof_long_long"],
        v["sizeof_float"], v["sizeof_double"], v["sizeof_long_double"], v["sizeof_wchar_t"], v["sizeof_size_t"], v["sizeof_pointer"],
        "true" if v["defaultSign"] == "u" else "false", "true" if v["windows"] else "false")


def extract(ctx):
    repo = core.REPO
    plats, native = parse_platform_set(ctx, repo)
    szchain = parse_xml_chain(repo)
    files = parse_xml_platforms(repo, native, szchain)
    gs = parse_getsizeof(repo)
    mm = parse_minmax_switch(repo)
    return dict(builtin=plats, native=native, files=files, getsizeof=gs, minmax=mm)


def gen_text(x):
    o = ["import Cppcheck.Model.Platforms",
         "/- GENERATED by vlib/props/c10.py from lib/platform.cpp (Platform::set, loadFromXmlDocument), platforms/*.xml,",
         "   lib/symboldatabase.cpp (ValueType::getSizeOf) and lib/vf_common.cpp (getMinMaxValues) — do not edit -/",
         "namespace Cppcheck.Gen.Platforms", "open Cppcheck.Platforms", "",
         "/-- the named cases of `Platform::set(Type)` -/", "def builtin : List Platform := ["]
    o.append(",\n".join(lean_platform(n, v) for n, v in x["builtin"]))
    o += ["]", "", "/-- `Type::Native` on the host that builds /repo (sizeof(T) evaluated by the same g++) -/", "def native : Platform :="]
    o.append(lean_platform("native", x["native"]))
    o += ["", "/-- platforms/*.xml through the element→field chain of `loadFromXmlDocument` (defaults = native) -/", "def files : List Platform := ["]
    o.append(",\n".join(lean_platform(n, v) for n, v in x["files"]))
    o += ["]", "", "def all : List Platform := builtin ++ [native] ++ files", "",
          "/-- the scalar chain of `ValueType::getSizeOf` in source order (first match wins) -/",
          "def sizeOfSrc (p : Platform) (t : CType) : Nat :="]
    for c, e in x["getsizeof"]:
        o.append("  if t = .%s then %s else" % (c, e))
    o += ["  0", "", "/-- the `switch (vt->type)` of `getMinMaxValues` -/", "def bitsOfSrc (p : Platform) (t : CType) : Option Nat :="]
    for c, e in x["minmax"]:
        o.append("  if t = .%s then some (%s) else" % (c, e))
    o += ["  none", "", "end Cppcheck.Gen.Platforms", ""]
    return "\n".join(o)


def translate(ctx):
    x = extract(ctx)
    ctx.write_gen("Platforms", gen_text(x))
    return x


# ------------------------------------------------------------------------------------------------------------
# generators (all randomness from ctx.rng)
# ------------------------------------------------------------------------------------------------------------
SUFFIX_OK = ["", "", "", "u", "U", "l", "L", "ul", "uL", "Ul", "UL", "lu", "LU", "lU", "ll", "LL", "lL", "Ll", "ull", "ULL", "uLL", "Ull",
             "llu", "LLU", "llU", "z", "Z", "uz", "UZ", "zu", "ZU", "i64", "I64", "ui64", "UI64", "Ui64", "_x", "_km", "_", "_1", "_u'", "_i64"]
SUFFIX_BAD = ["lul", "ulll", "lll", "i32", "i6", "i", "u64", "f", "e5", "wb", "uwb", "uu", "lz", "zl", "ui", "ui6", "i644", "ulz", "uzl", "llul",
              "x", "p1", ".", ".0", "e", "i64u", "_"]
BOUNDS = [7, 8, 15, 16, 31, 32, 62, 63, 64]


def gen_magnitude(rng):
    k = rng.random()
    if k < 0.15:
        return rng.randrange(0, 20)
    if k < 0.65:
        b = rng.choice(BOUNDS)
        return max(0, (1 << b) + rng.choice([-2, -1, 0, 1, 2]))
    if k < 0.8:
        return rng.getrandbits(rng.choice([8, 16, 31, 32, 33, 48, 63, 64]))
    if k < 0.9:
        return rng.getrandbits(rng.choice([65, 66, 70, 128]))
    return rng.getrandbits(rng.choice([1, 3, 5, 12, 24]))


def render_digits(rng, base, v, pad=True):
    if base == 10:
        s = "%d" % v
    elif base == 16:
        s = "%x" % v
        s = "".join(c.upper() if rng.random() < 0.4 else c for c in s)
    elif base == 8:
        s = "%o" % v
    else:
        s = bin(v)[2:]
    if pad and base != 10 and rng.random() < 0.15:
        s = "0" * rng.choice([1, 2, 5]) + s
    return s


def gen_int_literal(rng):
    base = rng.choice([10, 10, 16, 16, 8, 2])
    v = gen_magnitude(rng)
    pfx = {10: "", 16: rng.choice(["0x", "0X"]), 8: "0", 2: rng.choice(["0b", "0B"])}[base]
    if base == 10 and v == 0 and rng.random() < 0.5:
        s = "0"
    else:
        s = pfx + render_digits(rng, base, v)
    r = rng.random()
    suf = rng.choice(SUFFIX_OK) if r < 0.8 else rng.choice(SUFFIX_BAD)
    sign = "" if rng.random() < 0.8 else rng.choice("+-")
    return sign + s + suf


FLOATS = ["1.0", "1.", ".5", "1e5", "1E-5", "1.5f", "1.5F", "2.L", "1.0_km", "1e5f", "0x1p3", "0x1.8p-1", "0x.8p1", "0X1P+3f", "1.5e+3l", "1e", "1e+",
          ".", "1..2", "0x1p", "0x1.p1", "1.0ff", "1.0_", "+1.5", "-.5e3", "1f", "0x1.8", "1.e3", "1.0e5_x", "0x1p3L", "00.5", "09.5", "1e5_x"]
MALFORMED = ["", "+", "-", "0x", "0X", "0b", "0B", "0b2", "0xg", "08", "018", "09u", "00", "0", "-0", "+0x", " 12", "12 ", "\t7", "1 2", "abc", "x1", "1x",
             "0x1g", "0b12", "0o7", "1'000", "--1", "+-1", "- 1", "0x-1", "1u1", "1_", "1__", "'", "''", "u", "u'", "L", "0x1.0", "1e5", "1.0", "0b1e5",
             "99999999999999999999", "18446744073709551616", "18446744073709551615", "-18446744073709551615", "-18446744073709551616",
             "-9223372036854775808", "-9223372036854775809", "0x10000000000000000", "0xffffffffffffffff", "-0xffffffffffffffff",
             "02000000000000000000000", "01777777777777777777777", "0b" + "1" * 64, "0b1" + "0" * 64, "-0b1" + "0" * 63, "0b" + "1" * 65 + "u",
             "1\x000", "\x00", "12\x00u", "\xff", "1\xff", "0x\xe9", " 0x10", " 010", "\n5", "+ 5", "0x 1", "1e", "١"]


def mutate(rng, s):
    if not s:
        return s
    k = rng.random()
    i = rng.randrange(len(s))
    pool = "0123456789abcdefxXbBuUlLzZiI64_'.+-eEpPfF \\\x00\xff89"
    if k < 0.35:
        return s[:i] + rng.choice(pool) + s[i + 1:]
    if k < 0.6:
        return s[:i] + rng.choice(pool) + s[i:]
    if k < 0.8:
        return s[:i] + s[i + 1:]
    return s + rng.choice(pool)


SIMPLE_ESC = list("'\"?\\abfnrtveE%([{")
PLAIN = [c for c in "aAzZ09 !#$&*+,-./:;<=>@^_`|~x"]


def gen_char_elem(rng):
    k = rng.random()
    if k < 0.3:
        return rng.choice(PLAIN)
    if k < 0.45:
        return "\\" + rng.choice(SIMPLE_ESC)
    if k < 0.6:
        return "\\" + "".join(rng.choice("01234567") for _ in range(rng.choice([1, 2, 3])))
    if k < 0.8:
        v = rng.choice([0, 1, 0x41, 0x7f, 0x80, 0xff, 0x100, 0xffff, 0x10000, 0x7fffffff, 0xffffffff, 0x100000000, rng.getrandbits(16), rng.getrandbits(70)])
        s = "%x" % v
        if rng.random() < 0.3:
            s = s.upper()
        if rng.random() < 0.2:
            s = "0" * rng.choice([1, 3]) + s
        return "\\x" + s
    if k < 0.9:
        cp = rng.choice([0x41, 0x7f, 0x80, 0xe9, 0x7ff, 0x800, 0xd7ff, 0xd800, 0xdfff, 0xe000, 0xffff, 0x10000, 0x10ffff, 0x110000, rng.getrandbits(20)])
        return ("\\u%04x" % cp) if (cp <= 0xffff and rng.random() < 0.7) else ("\\U%08x" % cp)
    # raw bytes (UTF-8, possibly damaged)
    cp = rng.choice([0x80, 0xe9, 0x7ff, 0x800, 0xfff, 0xd7ff, 0xd800, 0xe000, 0xffff, 0x10000, 0x10ffff, rng.randrange(0x80, 0x110000)])
    try:
        bs = chr(cp).encode("utf-8", "surrogatepass")
    except Exception:
        bs = b"\xe9"
    s = bs.decode("latin-1")
    if rng.random() < 0.25:
        s = mutate(rng, s)
    return s


CHAR_MALFORMED = ["'", "''", "'a", "a'", "'\\'", "'\\", "'\\x'", "'\\xg'", "'\\8'", "'\\9'", "'\\u12'", "'\\u123g'", "'\\U0001'", "'\\q'", "'a\nb'", "'''",
                  "'\\x0x41'", "'\\x0x4'", "'\\x0X4'", "'\\x0xg'", "'\\x0x'", "'\\x 41'", "'\\x+41'", "'\\x-1'", "'\\x\t1'", "'\\u0x41'", "'\\u 041'", "'\\u+041'",
                  "'\\U-0000041'", "'\\0x'", "'\\08'", "'\\400'", "'\\777'", "'\\1234'", "u8'ab'", "u'ab'", "L'ab'", "U'ab'", "u8'\\x100'", "u'\\x10000'",
                  "L'\\x100000000'", "L'\\xffffffff'", "U'\\U0010ffff'", "U'\\U00110000'", "u'\\ud800'", "u8'\\u0080'", "'\\u0080'", "'\\u007f'",
                  "'abcd'", "'abcde'", "'abcdefgh'", "'abcdefghi'", "'\\xff\\xff\\xff\\xff'", "'\\x80\\0\\0\\0'", "'\\377'", "'\\200'", "'\xe9'", "L'\xe9'",
                  "L'\xc3\xa9'", "u'\xe2\x82\xac'", "U'\xf0\x9f\x98\x80'", "u'\xf0\x9f\x98\x80'", "u8'\xc3\xa9'", "L'\xc0\x80'", "L'\xe0\x80\x80'",
                  "L'\xf0\x80\x80\x80'", "L'\xed\xa0\x80'", "L'\xf4\x90\x80\x80'", "L'\xf5\x80\x80\x80'", "L'\xc3'", "L'\xc3a'", "L'\xe2\x82'", "X'a'",
                  "u8", "u8'", "U", "L'", "'a'b", "'a''", "\"a\"", "'\\x41\\x42'", "'\\101\\102'", "'\\e'", "'\\(' ", "' '", "'\\\n'", "'\x00'", "'a\x00'", "L'\x00'"]


def gen_char_literal(rng):
    pfx = rng.choice(["", "", "", "u8", "u", "U", "L"])
    n = rng.choice([1, 1, 1, 1, 2, 2, 3, 4, 5, 8, 9]) if pfx == "" else rng.choice([1, 1, 1, 2])
    return pfx + "'" + "".join(gen_char_elem(rng) for _ in range(n)) + "'"


def gen_trunc(rng):
    k = rng.random()
    if k < 0.5:
        b = rng.choice([7, 8, 15, 16, 23, 24, 31, 32, 39, 40, 47, 48, 55, 56, 62, 63])
        v = rng.choice([1, -1]) * ((1 << b) + rng.choice([-2, -1, 0, 1, 2]))
    elif k < 0.6:
        v = rng.choice([0, 1, -1, 2 ** 63 - 1, -2 ** 63, 2 ** 63 - 2, -2 ** 63 + 1])
    else:
        v = rng.getrandbits(64) - 2 ** 63
    v = max(-2 ** 63, min(2 ** 63 - 1, v))
    return "trunc %d %d %d" % (v, rng.choice([0, 1, 2, 3, 4, 5, 6, 7, 8, 1, 2, 4, 8]), rng.choice([0, 1]))


CTYPES = ["bool", "char", "short", "wchar", "int", "long", "longlong", "float", "double", "longdouble", "pointer"]


def lat1(s):
    return core.hx(s.encode("latin-1", "replace"))


def inproc_ops(ctx, x, thorough):
    rng = ctx.rng
    n = 6 if thorough else 1
    ops = []
    lits = [gen_int_literal(rng) for _ in range(1500 * n)]
    lits += [mutate(rng, gen_int_literal(rng)) for _ in range(500 * n)]
    lits += FLOATS + [mutate(rng, rng.choice(FLOATS)) for _ in range(200 * n)]
    lits += MALFORMED
    lits += SUFFIX_OK + SUFFIX_BAD + [mutate(rng, rng.choice(SUFFIX_OK + SUFFIX_BAD)) for _ in range(150 * n)]
    chars = list(CHAR_MALFORMED) + [gen_char_literal(rng) for _ in range(1200 * n)]
    chars += [mutate(rng, gen_char_literal(rng)) for _ in range(400 * n)]
    for s in lits + chars[:200]:
        ops.append("cls " + lat1(s))
    for s in lits + chars:
        ops.append("big " + lat1(s))
    for s in chars + lits[:200]:
        ops.append("chr " + lat1(s))
    for s in lits[:600]:
        ops.append("sfx " + lat1(s))
    for _ in range(1500 * n):
        ops.append(gen_trunc(rng))
    for bits in list(range(0, 70)) + [127, 128, 255]:
        for u in (0, 1):
            if bits == 0 and u == 0:
                continue        # `1LL << (bits - 1)` with bits = 0: negative shift count, undefined in the C++
            ops.append("minmax %d %d" % (bits, u))
    names = [nm for nm, _ in x["builtin"]] + ["native"] + [nm for nm, _ in x["files"]]
    for nm in names:
        ops.append("plat " + nm)
        for t in CTYPES:
            ops.append("sizeof %s %s" % (nm, t))
    ops.append("plat nosuchplatform")
    return ops


def nontrivial_inproc(op, out):
    k = op.split(" ", 1)[0]
    if k == "cls":
        return "=1" in out.replace("pos=1", "")
    if k == "big":
        return "invalid_argument" not in out
    if k == "chr":
        return "expected_literal" not in out
    if k == "trunc":
        return not op.endswith(" 0 0") and not op.endswith(" 0 1")
    return True


def run(ctx, res):
    thorough = ctx.tier == "thorough"
    # T1 -------------------------------------------------------------------------------------------------
    x = None
    try:
        x = translate(ctx)
        res.oblig("T1:platform-tables-extracted", True, "translation",
                  "%d built-in, native, %d files; getSizeOf chain %d, getMinMaxValues switch %d" % (len(x["builtin"]), len(x["files"]), len(x["getsizeof"]), len(x["minmax"])))
    except Unrecognised as ex:
        res.oblig("T1:platform-tables-extracted", False, "translation", "unrecognised shape: %s" % ex)
    core.prove(ctx, res, MODULES, THEOREMS)
    drv = ctx.driver("drv_c10")
    exe = ctx.harness("c10")
    if x is None:
        # the generated table is stale: still run the correspondence on the literal functions, the `plat` ops will expose the difference
        x = dict(builtin=[(n, {}) for n in ("win32A", "win32W", "win64", "unix32", "unix64")], files=[(os.path.basename(p)[:-4], {}) for p in sorted(glob.glob(os.path.join(core.REPO, "platforms", "*.xml")))])
    # C1..C5 -----------------------------------------------------------------------------------------------
    ops = corpus_ops() + inproc_ops(ctx, x, thorough)
    rc, impl, err = core.run_lines(exe, [core.REPO], ops)
    rc2, model, err2 = core.run_lines(drv, [], ops)
    for o in ops:
        res.count("op:" + o.split(" ", 1)[0])
    mism = core.correspond(ctx, res, "inprocess", ops, impl, model, nontrivial=nontrivial_inproc)
    for o in impl:
        if o.startswith("B "):
            res.count("big:" + re.sub(r":-?\d+", "", o.split(" | ")[0][2:]))
        elif o.startswith("ok:"):
            res.count("chr:ok")
        elif o.startswith("err:"):
            res.count("chr:" + o[4:])


def corpus_ops():
    p = os.path.join(core.VERIF, "corpus", "C10", "cases.json")
    if not os.path.exists(p):
        return []
    return [c["op"] for c in json.load(open(p)) if "op" in c]


def replay(ctx, res, rp):
    return 0

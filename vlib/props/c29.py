"""C29 — output is deterministic across runs (partial: the decided part is the file order and the dump canonicaliser).

theorems   Cppcheck.Determinism.sort_perm_invariant, lister_perm_invariant_files, lister_perm_invariant, runFiles_perm_invariant
           (the file list of a run is the same for every directory enumeration order; command-line order is kept:
           runFiles_argument_order_matters; runFiles_eq: runFiles = markupLast . dedupPaths . sorted selections), dump_alpha +
           canon_complete = canon_eq_iff (two dumps have the same canonical form IFF they differ by an injective renaming of
           the ids: the comparison is neither too coarse nor too fine), canon_eq_rename, canon_lits
           keyed_sort_perm_invariant / keyed_sort_stable / keyed_set_collapses / keyed_set_perm_invariant (a sort or ordered set
           under a comparator on layout-independent keys is a function of keys and arrival order) and
           address_tiebreak_layout_dependent (a tie-break by address is not)
T          enumeration of containers in lib/ whose iteration order depends on addresses or hashing (ordered containers
           keyed by pointers, unordered containers) - listed in the evidence, NOT proved harmless; every user comparator
           (functor, lambda, static predicate, std::less<T*>) of lib/ and cli/ is extracted and classified: one that orders by
           raw addresses (or cannot be classified) and is not in the reviewed list is an undischarged obligation
C          (1) the indices the python canonicaliser really substitutes into a <dump> element = the Lean `canon` on the id
           occurrences of that element; (2) file order: the order of the `Checking ...` lines of the real binary on directory
           trees (sources, headers, other files, .qml markup with --library=qt) created in two different orders on tmpfs and
           given as several arguments = `Determinism.runFiles` itself, evaluated by the driver on the trees as enumerated
P_impl     the same command run under different address-space layouts (ASLR on/off, MALLOC_PERTURB_, tcache off, arena count,
           environment size, working-directory depth, and layouts that REVERSE the relative order of heap objects: mmap threshold
           0 / 128, a preloaded descending-address allocator built from harness/c29_downalloc.c) and with shuffled directory
           creation order, on inputs that include macro expansions declaring several entities at one file/line/column
           gives byte-identical text / xml output and identical dumps after canonicalisation
"""
import json, os, re, shutil
from concurrent.futures import ThreadPoolExecutor
from .. import core
from . import c17


def _sh(cmd, **kw):
    """core.sh, repeated when the process cannot be started (fork / pipe failure on an overloaded machine)"""
    import time
    for attempt in range(4):
        try:
            return core.sh(cmd, **kw)
        except OSError:
            if attempt == 3:
                raise
            time.sleep(2 + 3 * attempt)


ID = "C29"
LEVEL = "other"
RULE = ("one case = one command (text, --xml or --dump; samples directory, cfg test files with their library, generated "
        "multi-file projects) run under 4-6 differently laid-out processes / directory creation orders and compared byte for "
        "byte with the reference run; non-trivial = the reference output contains at least 3 findings or a dump with ids")
EXPLANATION = ("Proved: the file list of a run does not depend on the directory enumeration order; the dump canonicaliser is "
               "invariant under injective renaming of ids. NOT decidable here and only sampled by repeated runs under perturbed "
               "allocation / address layouts: iteration order of containers keyed by pointers or hashes (enumerated in the "
               "evidence: pointer_keyed_containers, unordered_containers), timing dependent output (--showtime, progress), "
               "multi-job ordering (multiset equality is C15's).")
THEOREMS = ["Cppcheck.Determinism.sort_perm_invariant", "Cppcheck.Determinism.lister_perm_invariant_files",
            "Cppcheck.Determinism.lister_perm_invariant", "Cppcheck.Determinism.runFiles_perm_invariant",
            "Cppcheck.Determinism.runFiles_argument_order_matters", "Cppcheck.Determinism.dump_alpha",
            "Cppcheck.Determinism.dump_alpha_counterexample_not_injective", "Cppcheck.Determinism.canon_lits",
            "Cppcheck.Determinism.canon_eq_rename", "Cppcheck.Determinism.canon_complete", "Cppcheck.Determinism.canon_eq_iff",
            "Cppcheck.Determinism.runFiles_eq", "Cppcheck.Determinism.keyed_sort_perm_invariant", "Cppcheck.Determinism.keyed_sort_stable",
            "Cppcheck.Determinism.keyed_set_collapses", "Cppcheck.Determinism.keyed_set_perm_invariant",
            "Cppcheck.Determinism.address_tiebreak_layout_dependent"]
MODULES = ["Cppcheck.Props.C29"]

# attributes of the dump that hold addresses
IDATTRS = {"id", "scope", "link", "variable", "function", "values", "type-scope", "astParent", "astOperand1", "astOperand2",
           "valueType-typeScope", "valueType-containerId", "bodyStart", "bodyEnd", "nestedIn", "definedType", "token", "tokenDef",
           "overriddenFunction", "classScope", "type", "nameTok", "nameToken", "typeStartToken", "typeEndToken", "tokvalue",
           "lifetime", "symbolic", "originalName-token", "containerId"}
ATTR_RE = re.compile(r'([\w-]+)="([0-9a-f]{9,16})"')


def sections(text):
    """the prolog and every <dump cfg=...> element separately: ids (addresses) identify objects only within one element -
    the objects of one configuration are destroyed before the next is analysed, so an address may come back"""
    parts = re.split(r"(?=<dump cfg=)", text)
    return parts


def canon_section(text):
    seen, occ = {}, []

    def rep(m):
        if m.group(1) not in IDATTRS:
            return m.group(0)
        i = m.group(2)
        occ.append(i)
        if i not in seen:
            seen[i] = len(seen)
        return '%s="#%d"' % (m.group(1), seen[i])
    return ATTR_RE.sub(rep, text), occ


def canon_dump(text):
    """replace every address by the index of its first occurrence within its <dump> element; returns (canonical text, id
    occurrences of the largest element in order, canonical text of that element)"""
    out, best, best_c = [], [], ""
    for sec in sections(text):
        c, occ = canon_section(sec)
        out.append(c)
        if len(occ) > len(best):
            best, best_c = occ, c
    return "".join(out), best, best_c


CANON_ATTR_RE = re.compile(r'([\w-]+)="#(\d+)"')


def substituted_indices(canon_text):
    """the indices canon_section actually wrote into the text, in order"""
    return [m.group(2) for m in CANON_ATTR_RE.finditer(canon_text) if m.group(1) in IDATTRS]


VARBLOCK_RE = re.compile(r"(  <variables>\n)(.*?)(  </variables>\n)", re.S)


def canon_modulo_var_order(text):
    """canonical form that also forgets the order of the <var> elements inside <variables>: per <dump> element the text outside
    the block is canonicalised; every <var> line is rewritten with the indices the ids got OUTSIDE the block (ids first met
    inside it become #x) and the lines of the block are sorted"""
    res = []
    for sec in sections(text):
        outer = VARBLOCK_RE.sub(lambda m: m.group(1) + m.group(3), sec)
        seen = {}

        def rep(m):
            if m.group(1) not in IDATTRS:
                return m.group(0)
            if m.group(2) not in seen:
                seen[m.group(2)] = len(seen)
            return '%s="#%d"' % (m.group(1), seen[m.group(2)])
        c_outer = ATTR_RE.sub(rep, outer)
        blocks = []
        for m in VARBLOCK_RE.finditer(sec):
            lines = [l for l in m.group(2).split("\n") if l]
            blocks.append(sorted(ATTR_RE.sub(lambda a: ('%s="#%s"' % (a.group(1), seen.get(a.group(2), "x"))) if a.group(1) in IDATTRS else a.group(0), l)
                                 for l in lines))
        res.append((c_outer, blocks))
    return res


K_CONTAINERS = "dump-containers-section-ordered-by-address"
CONTBLOCK_RE = re.compile(r"(  <containers>\n)(.*?)(  </containers>\n)", re.S)
CONT_RE = re.compile(r"    <container [^>]*?(?:/>\n|>\n.*?    </container>\n)", re.S)


def canon_modulo_container_order(text):
    """canonical form that also forgets the order of the <container> elements inside <containers> (and nothing else): per <dump>
    element the text outside that block is canonicalised; every <container>…</container> element is rewritten with the indices
    its ids got OUTSIDE the block (tokens refer to containers through valueType-containerId) and the elements are sorted"""
    res = []
    for sec in sections(text):
        outer = CONTBLOCK_RE.sub(lambda m: m.group(1) + m.group(3), sec)
        seen = {}

        def rep(m):
            if m.group(1) not in IDATTRS:
                return m.group(0)
            if m.group(2) not in seen:
                seen[m.group(2)] = len(seen)
            return '%s="#%d"' % (m.group(1), seen[m.group(2)])
        c_outer = ATTR_RE.sub(rep, outer)
        blocks = []
        for m in CONTBLOCK_RE.finditer(sec):
            els = CONT_RE.findall(m.group(2))
            if "".join(els) != m.group(2):
                return None          # the block is not a plain sequence of <container> elements: do not classify
            blocks.append(sorted(ATTR_RE.sub(lambda a: ('%s="#%s"' % (a.group(1), seen.get(a.group(2), "x"))) if a.group(1) in IDATTRS else a.group(0), e)
                                 for e in els))
        res.append((c_outer, blocks))
    return res


# ------------------------------------------------------------------------------------------------
# T: containers whose iteration order is not determined by the program text
# ------------------------------------------------------------------------------------------------

PTRKEY_RE = re.compile(r"std::(?:multi)?(?:set|map)\s*<\s*(?:const\s+)?[A-Za-z_][\w:]*(?:\s+const)?\s*\*")
UNORD_RE = re.compile(r"std::unordered_(?:multi)?(?:set|map)\s*<")


def enumerate_containers(repo):
    ptr, unord = [], []
    import glob
    for f in sorted(glob.glob(os.path.join(repo, "lib", "*.cpp")) + glob.glob(os.path.join(repo, "lib", "*.h"))):
        rel = os.path.relpath(f, repo)
        for n, line in enumerate(open(f, encoding="utf-8", errors="replace"), 1):
            code = line.split("//")[0]
            if PTRKEY_RE.search(code):
                ptr.append("%s:%d: %s" % (rel, n, code.strip()[:140]))
            if UNORD_RE.search(code):
                unord.append("%s:%d: %s" % (rel, n, code.strip()[:140]))
    return ptr, unord


# ------------------------------------------------------------------------------------------------
# T: user comparators (ordered containers with a comparator, sort / set_difference / unique ... with a predicate)
# ------------------------------------------------------------------------------------------------

CMP_HEADS = [
    ("functor", re.compile(r"bool\s+operator\(\)\s*\(([^()]*)\)\s*(?:const\s*)?\{")),
    ("lambda", re.compile(r"\[[^\[\]]*\]\s*\(([^()]*)\)\s*(?:mutable\s*)?(?:->\s*[\w:]+\s*)?\{")),
    ("function", re.compile(r"static\s+bool\s+(\w+)\s*\(([^()]*)\)\s*\{")),
]
REL_RE = re.compile(r"([A-Za-z_][\w\.]*(?:(?:->|\.)[A-Za-z_]\w*|\([^()]*\))*)\s*(<=|>=|<|>)\s*([A-Za-z_][\w\.]*(?:(?:->|\.)[A-Za-z_]\w*|\([^()]*\))*)")


def _split_params(ps):
    out, depth, cur = [], 0, ""
    for ch in ps:
        if ch in "<(":
            depth += 1
        elif ch in ">)":
            depth -= 1
        if ch == "," and depth == 0:
            out.append(cur)
            cur = ""
        else:
            cur += ch
    if cur.strip():
        out.append(cur)
    res = []
    for q in out:
        q = q.strip()
        m = re.match(r"(.*?)([A-Za-z_]\w*)\s*$", q)
        if not m:
            return None
        res.append((m.group(1).strip(), m.group(2)))
    return res


class _Decls:
    """field and method declarations of lib/ (text search): is `X::name` a pointer?"""
    def __init__(self, repo):
        import glob
        self.text = "\n".join(c17._strip_comments(open(f, encoding="utf-8", errors="replace").read())
                              for f in sorted(glob.glob(os.path.join(repo, "lib", "*.h")) + glob.glob(os.path.join(repo, "lib", "*.cpp"))))

    def field_is_pointer(self, name):
        ptr = re.search(r"[\w>]\s*\*\s*(?:const\s+)?%s\s*(?:\{[^}]*\})?\s*[;=]" % re.escape(name), self.text) is not None
        val = re.search(r"(?:int|bool|char|long|size_t|std::string|unsigned|double|nonneg int|std::uint\w+|MathLib::bigint)\s+%s\s*(?:\{[^}]*\})?\s*[;=]" % re.escape(name), self.text) is not None
        return "pointer" if ptr and not val else ("value" if val and not ptr else "unknown")

    def method_returns_pointer(self, name):
        ptr = re.search(r"[\w>]\s*\*\s*&?\s*%s\s*\([^()]*\)\s*(?:const)?" % re.escape(name), self.text) is not None
        val = re.search(r"(?:int|bool|char|long|size_t|std::string|std::string\s*&|unsigned|double|nonneg int|std::uint\w+|MathLib::bigint|auto)\s+&?%s\s*\([^()]*\)" % re.escape(name), self.text) is not None
        return "pointer" if ptr and not val else ("value" if val else "unknown")


def _operand_class(op, params, decls):
    """'key' (layout independent), 'address', 'unknown', or None when the operand does not involve a parameter"""
    names = {n: t for t, n in params}
    m = re.match(r"([A-Za-z_]\w*)(.*)$", op)
    if not m or m.group(1) not in names:
        return None
    ty, rest = names[m.group(1)], m.group(2)
    if rest == "":
        if "*" in ty:
            return "address"
        return "key" if re.search(r"\b(int|bool|char|long|size_t|string|unsigned|double|bigint|T|U|FileWithDetails|TokenAndName|dataElementType|ValueIterator|Value)\b", ty) else "unknown"
    last = re.findall(r"(?:->|\.)([A-Za-z_]\w*)(\([^()]*\))?", rest)
    if not last:
        return "unknown"
    fname, call = last[-1]
    if call:
        r = decls.method_returns_pointer(fname)
        return "address" if r == "pointer" else ("key" if r == "value" else "unknown")
    if fname in ("first", "second") and "pair<" in ty:
        inner = ty[ty.index("pair<") + 5:]
        parts, depth, cur = [], 0, ""
        for ch in inner:
            if ch == "<":
                depth += 1
            elif ch == ">":
                if depth == 0:
                    break
                depth -= 1
            if ch == "," and depth == 0:
                parts.append(cur)
                cur = ""
            else:
                cur += ch
        parts.append(cur)
        k = 0 if fname == "first" else 1
        return ("address" if "*" in parts[k] else "key") if k < len(parts) else "unknown"
    r = decls.field_is_pointer(fname)
    return "address" if r == "pointer" else ("key" if r == "value" else "unknown")


def scan_comparators(repo):
    """every two-parameter predicate in lib/ and cli/ that relates its two parameters with < > <= >=, with a verdict:
    'keys' (all compared operands are layout-independent values), 'address' (an operand is a raw pointer: the parameter itself,
    a pointer field, a method returning a pointer, std::less<T*>, id_string / uintptr_t), 'unknown'"""
    import glob
    decls = _Decls(repo)
    out = []
    for f in sorted(glob.glob(os.path.join(repo, "lib", "*.cpp")) + glob.glob(os.path.join(repo, "lib", "*.h")) + glob.glob(os.path.join(repo, "cli", "*.cpp"))):
        rel = os.path.relpath(f, repo)
        text = c17._strip_comments(open(f, encoding="utf-8", errors="replace").read())
        for m in re.finditer(r"std::(less|greater)(_equal)?\s*<\s*(?:const\s+)?[\w:]+\s*(?:const\s*)?\*", text):
            out.append(dict(file=rel, kind="std::" + m.group(1), sig=re.sub(r"\s+", " ", m.group(0)), verdict="address", why="orders raw pointers"))
        for kind, rx in CMP_HEADS:
            for m in rx.finditer(text):
                params = _split_params(m.group(2) if kind == "function" else m.group(1))
                if not params or len(params) != 2:
                    continue
                t0, t1 = re.sub(r"\s+", "", params[0][0]), re.sub(r"\s+", "", params[1][0])
                if t0 != t1 and not (re.fullmatch(r"const[TU]&", t0) and re.fullmatch(r"const[TU]&", t1)):
                    continue
                try:
                    body, _ = c17._body(text, m.end() - 1)
                except ValueError:
                    continue
                verdicts, why = [], []
                if re.search(r"id_string\s*\(|uintptr_t|std::less\s*<", body):
                    verdicts.append("address")
                    why.append("converts an address to a number / string")
                # locals initialised from the parameters: `const int lineA = a->nameToken()->linenr();`, `const Token* ta = a.tok;`
                locs = {}
                for lm in re.finditer(r"(?:const\s+)?([\w:<>]+(?:\s*(?:const\s*)?\*)?)\s*(?:const\s+)?([A-Za-z_]\w*)\s*=\s*([^;{}]+);", body):
                    if any(re.search(r"\b%s\b" % re.escape(n), lm.group(3)) for _, n in params):
                        locs[lm.group(2)] = "address" if "*" in lm.group(1) else ("unknown" if lm.group(1) == "auto" else "key")
                for r in REL_RE.finditer(body):
                    a, b = _operand_class(r.group(1), params, decls), _operand_class(r.group(3), params, decls)
                    if a is None and r.group(1) in locs:
                        a = locs[r.group(1)]
                    if b is None and r.group(3) in locs:
                        b = locs[r.group(3)]
                    if a is None or b is None:
                        continue
                    names = (re.match(r"\w+", r.group(1)).group(0), re.match(r"\w+", r.group(3)).group(0))
                    if names[0] == names[1]:
                        continue
                    for c in (a, b):
                        verdicts.append(c)
                    if "address" in (a, b) or "unknown" in (a, b):
                        why.append("%s %s %s" % (r.group(1), r.group(2), r.group(3)))
                if not verdicts:
                    continue        # the two parameters are never related by an order: not a comparator
                v = "address" if "address" in verdicts else ("unknown" if "unknown" in verdicts else "keys")
                nm = m.group(1) if kind == "function" else ""
                out.append(dict(file=rel, kind=kind, name=nm, sig="%s(%s){%s}" % (nm, re.sub(r"\s+", " ", m.group(2) if kind == "function" else m.group(1)),
                                                                             re.sub(r"\s+", " ", body)[:400]), verdict=v, why="; ".join(why)))
    return out


def translate_comparators(ctx, res):
    found = scan_comparators(ctx.repo)
    p = os.path.join(core.VERIF, "corpus", "C29", "comparators.json")
    reviewed = json.load(open(p)) if os.path.exists(p) else {}
    bad = []
    for c in found:
        key = c["file"] + ": " + c["sig"]
        c["review"] = reviewed.get(key, "")
        if c["verdict"] != "keys" and key not in reviewed:
            bad.append("%s [%s] %s" % (key[:260], c["verdict"], c["why"]))
    res.extra["comparators"] = [dict(where=c["file"], kind=c["kind"], verdict=c["verdict"], why=c["why"], review=c["review"], text=c["sig"][:200]) for c in found]
    res.oblig("translation:comparators-use-layout-independent-keys", not bad and len(found) >= 5, "translation",
              "" if not bad and len(found) >= 5 else ("only %d comparators found (pattern no longer matches the code?)" % len(found) if not bad else
              "comparator(s) that order by raw addresses (or that the scanner cannot classify) and are not in the reviewed list corpus/C29/comparators.json - "
              "a sort / ordered container under such a comparator gives an order that depends on the heap layout: %s" % bad[:3]))
    return found


# ------------------------------------------------------------------------------------------------
# perturbed runs
# ------------------------------------------------------------------------------------------------

def layouts(tier, down_so=None):
    """differently laid-out processes.  Plain ASLR only shifts the heap as a whole; the reversing layouts change the RELATIVE order
    of objects: every allocation served by its own mmap (mmap_threshold=0 / 128: later mappings lie lower), tcache off, and a
    preloaded allocator that hands out strictly descending addresses (harness/c29_downalloc.c)"""
    base = [
        dict(name="reference", env={}, pre=[]),
        dict(name="perturb+arena1+bigenv", env={"MALLOC_PERTURB_": "165", "MALLOC_ARENA_MAX": "1", "C29_PAD": "x" * 3001}, pre=[]),
        dict(name="no-aslr", env={"C29_PAD": "y" * 17}, pre=["setarch", "x86_64", "-R"]),
        dict(name="tcache-off+mmap4096", env={"GLIBC_TUNABLES": "glibc.malloc.tcache_count=0:glibc.malloc.mmap_threshold=4096"}, pre=[]),
        dict(name="mmap-threshold-0", env={"GLIBC_TUNABLES": "glibc.malloc.mmap_threshold=0:glibc.malloc.mmap_max=4000000"}, pre=[], small=True),
        dict(name="mmap-threshold-128+tcache-off", env={"GLIBC_TUNABLES": "glibc.malloc.mmap_threshold=128:glibc.malloc.tcache_count=0:glibc.malloc.mmap_max=4000000"}, pre=[], small=True),
    ]
    if down_so:
        base.append(dict(name="descending-allocator", env={"LD_PRELOAD": down_so}, pre=[]))
    if tier != "thorough":
        # quick tier: the tcache / mmap-threshold-4096 layout is subsumed by mmap-threshold-128+tcache-off
        base = [l for l in base if l["name"] != "tcache-off+mmap4096"]
    if tier == "thorough":
        base += [
            dict(name="top-pad+perturb", env={"MALLOC_TOP_PAD_": "1048576", "MALLOC_PERTURB_": "90", "C29_PAD": "z" * 70000}, pre=[]),
        ]
    return base


def build_down_allocator(ctx, res):
    """harness/c29_downalloc.c -> shared object in the temp directory of the run; None when it cannot be built or does not work"""
    src = os.path.join(core.VERIF, "harness", "c29_downalloc.c")
    so = os.path.join(ctx.tmp, "c29_downalloc.so")
    rc, out, err = _sh(["gcc", "-O1", "-shared", "-fPIC", "-o", so, src])
    ok = rc == 0 and os.path.exists(so)
    if ok:
        rc2, o2, e2 = _sh([ctx.cppcheck, "--version"], env={"LD_PRELOAD": so})
        ok = rc2 == 0 and "Cppcheck" in o2
    res.oblig("machinery:descending-allocator", ok, "machinery", "" if ok else "harness/c29_downalloc.c does not build or cppcheck does not run under it: " + (err or "")[-300:])
    return so if ok else None


def have_setarch():
    rc, so, se = _sh(["setarch", "x86_64", "-R", "true"])
    return rc == 0


def run_layout(cmd, cwd, lay, no_aslr_ok):
    pre = lay["pre"] if (lay["pre"] and no_aslr_ok) else []
    rc, so, se = _sh(pre + cmd, cwd=cwd, timeout=600, env=lay["env"])
    return rc, so, se


def make_tree(root, files, order):
    """create the files in the given order (the enumeration order of readdir depends on it)"""
    for p in order:
        q = os.path.join(root, p)
        os.makedirs(os.path.dirname(q), exist_ok=True)
        open(q, "w").write(files[p])


def gen_macro_file(rng):
    """C file in which several entities share file / line / column through one macro expansion: pointer locals that could be
    pointers to const, parameters, null pointers, uninitialised variables, unused variables - the findings of several checks
    then carry the same location, and their order is whatever the checks' containers make of it"""
    L = ["struct rec { struct rec *link; int a; int b; };", "struct box { struct rec *first; int n; };",
         "struct rec *get_rec(int k);", "struct box *get_box(const struct rec *r);", "int sink(int v);", ""]
    nmac = rng.choice([2, 3, 4])
    for m in range(nmac):
        kind = rng.choice(["decl2", "decl2", "decl3", "null2", "uninit2", "unused2"])
        if kind == "decl2":
            L.append("#define M%d(p, q, k) struct rec *p = get_rec(k); struct box *q = get_box(p);" % m)
        elif kind == "decl3":
            L.append("#define M%d(p, q, r, k) struct rec *p = get_rec(k); struct rec *q = get_rec(k + 1); struct box *r = get_box(p);" % m)
        elif kind == "null2":
            L.append("#define M%d(p, q) do { int *p = 0; int *q = 0; sink(*p); sink(*q); } while (0)" % m)
        elif kind == "uninit2":
            L.append("#define M%d(u, v) int u; int v; sink(u + v);" % m)
        else:
            L.append("#define M%d(u, v) int u = 1; int v = 2;" % m)
        L.append("/* %s */" % kind)
    kinds = [l[3:-3] for l in L if l.startswith("/* ")]
    L = [l for l in L if not l.startswith("/* ")]
    L.append("")
    for f in range(rng.choice([3, 4, 6])):
        m = rng.randrange(nmac)
        kind = kinds[m]
        n = ["v%d_%d" % (f, i) for i in range(3)]
        rng.shuffle(n)
        L.append("int fn%d(int key)" % f)
        L.append("{")
        if kind == "decl2":
            L.append("    M%d(%s, %s, key)" % (m, n[0], n[1]))
            L.append("    return %s->a + %s->n;" % (n[0], n[1]))
        elif kind == "decl3":
            L.append("    M%d(%s, %s, %s, key)" % (m, n[0], n[1], n[2]))
            L.append("    return %s->a + %s->b + %s->n;" % (n[0], n[1], n[2]))
        elif kind == "null2":
            L.append("    M%d(%s, %s);" % (m, n[0], n[1]))
            L.append("    return key;")
        elif kind == "uninit2":
            L.append("    M%d(%s, %s)" % (m, n[0], n[1]))
            L.append("    return key;")
        else:
            L.append("    M%d(%s, %s)" % (m, n[0], n[1]))
            L.append("    return key;")
        L.append("}")
    if rng.random() < 0.7:
        L.append("int par(struct rec *pa, struct rec *pb, struct box *pc) { return pa->a + pb->b + pc->n; }")
    return "\n".join(L) + "\n"


def gather_inputs(ctx, rng, res):
    """list of dict(name, files {rel: text}, args [...], options [...])"""
    repo = ctx.repo
    inputs = []
    wp = os.path.join(core.VERIF, "corpus", "C29", "witness_varorder.c")
    if os.path.exists(wp):
        inputs.append(dict(name="corpus/witness_varorder.c", files={"witness_varorder.c": open(wp).read()}, args=["witness_varorder.c"], options=[]))
    # the samples directory of the repository as one directory argument
    files = {}
    sd = os.path.join(repo, "samples")
    for d, _, fs in os.walk(sd):
        for f in fs:
            if f.endswith((".c", ".cpp", ".h")):
                p = os.path.join(d, f)
                files[os.path.relpath(p, repo)] = open(p, encoding="utf-8", errors="replace").read()
    if files:
        inputs.append(dict(name="samples", files=files, args=["samples"], options=[]))
    wc = os.path.join(core.VERIF, "corpus", "C29", "witness_containers.cpp")
    if os.path.exists(wc):
        inputs.append(dict(name="corpus/witness_containers.cpp", files={"witness_containers.cpp": open(wc).read()}, args=["witness_containers.cpp"], options=[]))
    wm = os.path.join(core.VERIF, "corpus", "C29", "witness_macro_decls.c")
    if os.path.exists(wm):
        inputs.append(dict(name="corpus/witness_macro_decls.c", files={"witness_macro_decls.c": open(wm).read()}, args=["witness_macro_decls.c"], options=[]))
    for i in range(1 if ctx.tier != "thorough" else 10):
        inputs.append(dict(name="macrogen%d" % i, files={"m%d.c" % i: gen_macro_file(rng)}, args=["m%d.c" % i], options=[]))
    cfg_small = ["bsd.c", "openmp.c", "lua.c", "cairo.c", "selinux.c", "libsigc++.cpp", "cppunit.cpp", "googletest.cpp", "emscripten.cpp", "kde.cpp", "sqlite3.c", "libcurl.c"]
    cfg_big = ["python.c", "std.c", "std.cpp", "posix.c", "gnu.c", "qt.cpp", "boost.cpp", "windows.cpp", "wxwidgets.cpp", "gtk.c", "openssl.c", "mfc.cpp", "opencv2.cpp"]
    pick = rng.sample(cfg_small, 1) if ctx.tier != "thorough" else cfg_small + rng.sample(cfg_big, 3)
    for c in pick:
        p = os.path.join(repo, "test", "cfg", c)
        if not os.path.exists(p):
            continue
        lib = os.path.splitext(c)[0]
        opts = [] if lib in ("std",) else ["--library=" + lib]
        if lib in ("gnu", "bsd", "selinux"):
            opts.append("--library=posix")
        inputs.append(dict(name="cfg/" + c, files={c: open(p, encoding="utf-8", errors="replace").read()}, args=[c], options=opts, big=c in cfg_big))
    for i in range(1 if ctx.tier != "thorough" else 12):
        proj = c17.gen_project(rng, lambda *a, **k: None)
        dirs = sorted(set(p.split("/")[0] for p in proj["files"] if "/" in p))
        tops = sorted(p for p in proj["srcs"] if "/" not in p)
        args = tops + dirs
        rng.shuffle(args)
        inputs.append(dict(name="gen%d" % i, files=proj["files"], args=args or ["."], options=["--inline-suppr"]))
    return inputs


COMMANDS = {
    "text": ["--enable=all", "--inconclusive"],
    "xml": ["--enable=all", "--inconclusive", "--xml"],
    "dump": ["--dump", "-q"],
}


def checking_order(stdout):
    out = []
    for l in stdout.split("\n"):
        m = re.match(r"Checking (.*?) \.\.\.$", l)
        if m:
            out.append(m.group(1))
    return out


def one_input(ctx, res, drv, inp, k, no_aslr_ok, stats, down_so=None):
    """all commands x all layouts for one input; returns list of problems"""
    rng_orders = ctx.rng
    root = os.path.join(ctx.tmp, "i%d" % k)
    problems = []
    lays = [l for l in layouts(ctx.tier, down_so) if not (l.get("small") and inp.get("big"))]
    names = sorted(inp["files"])
    trees = []
    for j, lay in enumerate(lays):
        # a fresh copy per layout: shuffled creation order, alternating directory depth
        d = os.path.join(root, "l%d" % j, *(["deep", "er", "dir"] if j % 2 else []))
        order = list(names)
        rng_orders.shuffle(order)
        make_tree(d, inp["files"], order if j else names)
        trees.append(d)
    for cname, copts in COMMANDS.items():
        ref = None
        for j, lay in enumerate(lays):
            d = trees[j]
            cmd = [ctx.cppcheck] + copts + inp["options"] + inp["args"]
            rc, so, se = run_layout(cmd, d, lay, no_aslr_ok)
            if rc == -999 and j > 0:
                # the run was cut off by the time limit of the check (slow layout on a loaded machine): there is no complete output
                # to compare; counted, never taken for a difference
                stats("layout-timeout:" + lay["name"])
                continue
            if cname == "dump":
                dumps = {}
                for dd, _, fs in os.walk(d):
                    for f in fs:
                        if f.endswith(".dump"):
                            p = os.path.join(dd, f)
                            dumps[os.path.relpath(p, d)] = open(p, encoding="utf-8", errors="replace").read()
                            os.remove(p)
                got = dict(rc=rc, out=so + "\n--stderr--\n" + se, dumps=dumps)
            else:
                got = dict(rc=rc, out=so + "\n--stderr--\n" + se, dumps={})
            if j == 0:
                ref = got
                nfind = len(re.findall(r"<error |: (error|warning|style|performance|portability|information):", got["out"]))
                res.case("%s|%s|%s" % (inp["name"], cname, json.dumps(sorted(inp["files"]))[:200] + str(hash(json.dumps(inp["files"], sort_keys=True)))),
                         nfind >= 3 or any(ATTR_RE.search(t) for t in got["dumps"].values()),
                         dict(input=inp["name"], command=cname, findings=nfind, dumps=len(got["dumps"])) if k % 3 == 0 else None)
                stats("cmd:" + cname)
                if cname == "text":
                    # file order of the real run against the model
                    real = checking_order(so)
                    op = trees_op(d, inp["args"])
                    want = model_files(drv, op) if "." not in inp["args"] else None
                    seen, real_u = set(), []
                    for r in real:
                        if r not in seen:
                            seen.add(r)
                            real_u.append(r)
                    if want is None:
                        continue
                    okf = real_u == want
                    res.case("fileorder|" + op, len(want) >= 3, None)
                    if okf:
                        res.traces_validated += 1
                    else:
                        problems.append(("fileorder", dict(input=inp["name"], args=inp["args"], real=real_u, model=want)))
                continue
            stats("layout:" + lay["name"])
            if got["rc"] != ref["rc"] or got["out"] != ref["out"]:
                problems.append(("output", dict(input=inp["name"], command=cname, layout=lay["name"], layout_env={k_: (v_ if len(v_) < 200 else v_[:20] + "...") for k_, v_ in lay["env"].items()},
                                                layout_prefix=lay["pre"], reference_layout="reference (no environment change)",
                                                cmdline=" ".join(copts + inp["options"] + inp["args"]), ref=ref["out"][-1500:], got=got["out"][-1500:],
                                                diff=first_diff(ref["out"], got["out"]), files=inp["files"] if len(json.dumps(inp["files"])) < 20000 else None,
                                                args=inp["args"], options=inp["options"])))
            if cname == "dump":
                if sorted(got["dumps"]) != sorted(ref["dumps"]):
                    problems.append(("output", dict(input=inp["name"], command=cname, layout=lay["name"], note="different set of dump files",
                                                    ref=sorted(ref["dumps"]), got=sorted(got["dumps"]))))
                for name, text in got["dumps"].items():
                    if name not in ref["dumps"]:
                        continue
                    c1, occ1, _ = canon_dump(ref["dumps"][name])
                    c2, occ2, sec2 = canon_dump(text)
                    if c1 != c2:
                        fd = first_diff(c1, c2)
                        unlisted = re.search(r'([\w-]+)="[0-9a-f]{9,16}"', fd["a"]) and re.search(r'([\w-]+)="[0-9a-f]{9,16}"', fd["b"])
                        kind = "idattr" if unlisted else "output"
                        if kind == "output" and canon_modulo_var_order(ref["dumps"][name]) == canon_modulo_var_order(text):
                            fd["note"] = "only the order of the <var> elements inside <variables> differs (F29a, repaired by e03b361, is back)"
                        elif kind == "output":
                            ma, mb = canon_modulo_container_order(ref["dumps"][name]), canon_modulo_container_order(text)
                            if ma is not None and ma == mb:
                                kind = "containers"
                        problems.append((kind,
                                         dict(input=inp["name"], command="dump", layout=lay["name"], dump=name, diff=fd,
                                              files=inp["files"] if len(json.dumps(inp["files"])) < 20000 else None, args=inp["args"], options=inp["options"])))
                    # the canonicaliser of the check = the Lean canon
                    if j == 1 and occ2:
                        # the indices that canon_section really substituted into the text of this <dump> element (the Lean model
                        # is one element; the restart of the numbering per element is python only) against Lean canon
                        op = "canon " + " ".join("R" + i for i in occ2)
                        rcm, mo, _ = core.run_lines(drv, [], [op])
                        want = substituted_indices(sec2)
                        okc = bool(mo) and len(want) == len(occ2) and mo[0] == ",".join(want)
                        res.case("canon|" + inp["name"] + "|" + name, len(set(occ2)) >= 10, None)
                        if okc:
                            res.traces_validated += 1
                        else:
                            problems.append(("canon", dict(input=inp["name"], dump=name, model=(mo[0][:200] if mo else None), python=",".join(want)[:200],
                                                           n_model=len(mo[0].split(",")) if mo else 0, n_python=len(want))))
    shutil.rmtree(root, ignore_errors=True)
    return problems


def first_diff(a, b):
    la, lb = a.split("\n"), b.split("\n")
    for i in range(min(len(la), len(lb))):
        if la[i] != lb[i]:
            return dict(line=i + 1, a=la[i][:400], b=lb[i][:400])
    return dict(line=min(len(la), len(lb)) + 1, a="<end>" if len(la) <= len(lb) else la[len(lb)][:400], b="<end>" if len(lb) <= len(la) else lb[len(la)][:400])


def enum_root(ctx, res):
    """a directory on a file system whose readdir order follows the creation order (tmpfs: newest first); ext4 enumerates in
    hash order whatever the creation order, there only the sort itself is exercised"""
    import tempfile
    if os.path.isdir("/dev/shm") and os.access("/dev/shm", os.W_OK):
        res.count("enum-order:tmpfs(creation order)")
        return tempfile.mkdtemp(prefix="verif-C29-", dir="/dev/shm"), True
    res.count("enum-order:hash order only")
    return os.path.join(ctx.tmp, "ao"), False


def trees_op(d, args, extra=(), late=()):
    """the `trees` op of the driver: every argument as the directory tree the file system shows (all files, enumeration order)"""
    enc = []
    for a in args:
        p = os.path.join(d, a)
        if os.path.isdir(p):
            rels = []
            for dd, _, fs in os.walk(p):
                for f in fs:
                    rels.append(os.path.relpath(os.path.join(dd, f), p))
            enc.append("D%s:%s" % (core.hx(a), ",".join(core.hx(r) for r in rels)))
        elif os.path.exists(p):
            enc.append("F" + core.hx(a))
        else:
            enc.append("N" + core.hx(a))
    return "trees %s %s %s" % (",".join(core.hx(e) for e in extra) or "-", ",".join(core.hx(e) for e in late) or "-", " ".join(enc))


def model_files(drv, op):
    rcm, mo, _ = core.run_lines(drv, [], [op])
    if not mo or mo[0] == "bad-op":
        raise core.CheckBroken("C29 driver rejected: " + op[:300])
    return [core.unhx(h).decode() for h in mo[0].split(" ") if h]


def argument_order_cases(ctx, res, drv):
    """several arguments naming overlapping sets: command-line order kept, duplicates erased, each directory sorted; the same
    tree created in two different orders gives the same run"""
    rng = ctx.rng
    problems = []
    root, by_creation = enum_root(ctx, res)
    try:
        for k in range(8 if ctx.tier != "thorough" else 40):
            names = rng.sample(["a.c", "b.c", "z.c", "m.cpp", "d1/a.c", "d1/c.c", "d1/s/x.c", "d2/b.c", "d2/B.c", "d2/a.cpp", "d1/s/t/u.c", "d2/k.c", "d1/e.cpp"],
                               rng.choice([4, 6, 8, 10]))
            files = {n: "int f_%d(void) { return %d/0; }\n" % (i, i) for i, n in enumerate(names)}
            # files the lister must not select (headers, other extensions) and, in a third of the cases, markup files that are
            # processed after the code (.qml with --library=qt)
            for n in rng.sample(["h.h", "d1/g.hpp", "notes.txt", "d2/README", "d1/s/data.json"], rng.choice([0, 1, 2])):
                files[n] = "int not_a_source;\n"
            markup = k % 3 == 2
            lib_opts, extra = [], []
            if markup:
                for n in rng.sample(["ui.qml", "d1/a.qml", "d2/zz.qml", "d1/s/m.qml"], rng.choice([1, 2, 3])):
                    files[n] = "import QtQuick 2.0\nItem { }\n"
                lib_opts, extra = ["--library=qt"], [".qml"]
            names = sorted(files)
            cands = sorted(set(n.split("/")[0] for n in names)) + [n for n in names if "/" in n][:2] + ["d1/s"] * (any(n.startswith("d1/s/") for n in names))
            args = [rng.choice(cands) for _ in range(rng.choice([1, 2, 3, 4]))]
            outs = []
            for rep in range(2):
                d = os.path.join(root, "ao%d_%d" % (k, rep))
                order = list(names)
                rng.shuffle(order)
                make_tree(d, files, order)
                a2 = [a for a in args if os.path.exists(os.path.join(d, a))]
                if not a2:
                    break
                rc, so, se = _sh([ctx.cppcheck, "--template={file}:{line}:{id}"] + lib_opts + a2, cwd=d, timeout=120)
                real = []
                for r in checking_order(so):
                    if r not in real:
                        real.append(r)
                enum = [os.listdir(os.path.join(d, x)) for x in sorted(set(os.path.dirname(n) for n in names)) if True]
                outs.append((so, se, enum))
                if True:
                    # the model runs `runFiles` on the tree as THIS copy of the file system enumerates it
                    op = trees_op(d, a2, extra, extra)
                    want = model_files(drv, op)
                    if markup:
                        res.count("argorder:markup-last")
                    res.case("fileorder|" + op, len(want) >= 3 and len(a2) >= 2, dict(args=a2, real=real[:6], model=want[:6]) if k % 3 == 0 else None)
                    res.count("argorder:%d-args" % len(a2))
                    if real == want:
                        res.traces_validated += 1
                    else:
                        problems.append(("fileorder", dict(args=a2, created=order, real=real, model=want)))
                shutil.rmtree(d, ignore_errors=True)
            if len(outs) == 2:
                res.case("enumorder|%s|%s" % (sorted(names), args), outs[0][2] != outs[1][2], None)
                if outs[0][2] != outs[1][2]:
                    res.count("enum-order:differs-between-the-two-trees")
                if outs[0][:2] != outs[1][:2]:
                    problems.append(("output", dict(input="tree created in two orders", command="text", layout="directory enumeration order",
                                                    files=files, args=args, options=[], diff=first_diff(outs[0][0] + outs[0][1], outs[1][0] + outs[1][1]))))
    finally:
        if by_creation:
            shutil.rmtree(root, ignore_errors=True)
    return problems


def run(ctx, res):
    core.prove(ctx, res, MODULES, THEOREMS)
    drv = ctx.driver("drv_c29")
    ptr, unord = enumerate_containers(ctx.repo)
    res.extra["pointer_keyed_containers"] = ptr
    res.extra["unordered_containers"] = unord
    res.extra["containers_note"] = ("%d ordered containers keyed by pointers and %d unordered containers in lib/: their iteration order may depend on "
                                    "addresses / hashing; none of them is proved harmless, the repeated-run comparison samples them" % (len(ptr), len(unord)))
    res.oblig("translation:container-enumeration", len(ptr) + len(unord) > 0, "translation",
              "" if ptr or unord else "the scanner finds no container declaration in lib/ (pattern no longer matches the code?)")
    res.assumptions += [
        "iteration over containers keyed by pointer values or hashed (evidence: pointer_keyed_containers, unordered_containers) never "
        "reaches the output order: NOT proved for any of them, sampled by runs in differently laid-out processes",
        "the per-file analysis and the printing of findings are functions of the inputs and options (no clock, pid or environment "
        "reaches the output apart from --showtime / progress / plist file names, which are outside)",
        "abspath() of a listed file is modelled by its path string: aliases of one file (./d/a.c, d//a.c, symlinks) are not generated",
        "an address identifies one object within one <dump cfg> element (the canonicaliser restarts per element; python only)",
    ]
    translate_comparators(ctx, res)
    no_aslr_ok = have_setarch()
    res.count("setarch:" + ("available" if no_aslr_ok else "missing"))
    down_so = build_down_allocator(ctx, res)
    inputs = gather_inputs(ctx, ctx.rng, res)
    stats = res.count

    def work(item):
        k, inp = item
        return one_input(ctx, res, drv, inp, k, no_aslr_ok, stats, down_so)
    with ThreadPoolExecutor(max_workers=8) as ex:
        outs = list(ex.map(work, list(enumerate(inputs))))
    problems = [p for o in outs for p in o] + argument_order_cases(ctx, res, drv)
    corr_bad = [p for p in problems if p[0] in ("canon", "fileorder")]
    res.oblig("correspondence:file-order-and-canonicaliser", not corr_bad, "correspondence",
              "" if not corr_bad else "%d disagreements between the real file order / the python canonicaliser and the model; first: %s" %
              (len(corr_bad), json.dumps(corr_bad[0][1])[:1500]))
    idbad = [p for p in problems if p[0] == "idattr"]
    res.oblig("machinery:dump-id-attributes", not idbad, "machinery",
              "" if not idbad else "dumps of two runs differ in an address-valued attribute the canonicaliser does not list: %s" % json.dumps(idbad[0][1]["diff"])[:600])
    for kind, p in problems:
        if kind == "containers":
            res.violation("the order of the <container> elements in the <containers> section of the dump differs between two runs of the same "
                          "command (%s, layout %s, %s line %s)" % (p.get("input"), p.get("layout"), p.get("dump"), p.get("diff", {}).get("line")),
                          p, concrete=True, key=K_CONTAINERS)
        if kind == "output":
            res.violation("the same command gives different output in a differently laid-out run (%s, %s, layout %s): line %s: %r vs %r" %
                          (p.get("input"), p.get("command"), p.get("layout"), p.get("diff", {}).get("line"), p.get("diff", {}).get("a"), p.get("diff", {}).get("b")),
                          p, concrete=True, key=None)


def replay(ctx, res, rp):
    if not rp.get("files") or not rp.get("args"):
        print("replay: the input was too large to store; re-run ./check.py C29 with VERIF_SEED=%s" % rp.get("seed"))
        return 0
    drv = ctx.driver("drv_c29")
    inp = dict(name=rp.get("input", "replay"), files=rp["files"], args=rp["args"], options=rp.get("options", []))
    bad = 0
    down_so = build_down_allocator(ctx, res)
    for rep in range(3):
        ps = one_input(ctx, res, drv, inp, rep, have_setarch(), res.count, down_so)
        bad += sum(1 for k, _ in ps if k == "output")
    print("replay: %d differing runs" % bad)
    return 1 if bad else 0

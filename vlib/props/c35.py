"""C35 — Clang-AST import yields a consistent program model.

Obligations
  theorems   Cppcheck.C35.* (Lean): line splitter round trip, address-keyed declaration map (uses before and after declarations),
             location tokens, AST setter discipline of the import, verified invariant checker
  C-split    real `splitString` (textual include of the working tree's lib/clangimport.cpp) == model, on clang-shaped and hostile lines
  C-data     real `clangimport::Data` driven with event sequences == model
  C-loc      real `AstNode::setLocations` on node trees == model
  C-import   real `clangimport::parseClangAstDump` on clang-14 dumps of generated C / C++ programs == model import (token list, links,
             AST operands, varIds, variable / function / enumerator links), for the node kinds the model supports
P_impl       on the real importer, for every generated program clang accepts:
             (1) AstStore invariant + symmetric, nested links on the imported token list (re-checked by the verified Lean checker),
             (2) every variable use is linked to the declaration clang's JSON dump names (`referencedDecl` / `referencedMemberDecl`),
             (3) no crash, no exception other than InternalError,
             (4) the line of every name token is the line clang means.
"""
import concurrent.futures, hashlib, json, os, re, subprocess
from .. import core, build_repo

ID = "C35"
LEVEL = "other"
RULE = ("cases = clang-14 text dumps of generated C and C++ programs (globals, structs, enums, typedefs, functions with parameters, "
        "locals, arrays, pointers, calls, member access, casts, sizeof, if/else, while, do, for, switch; C++: classes with "
        "fields (also declared after the methods that use them), constructors and methods, namespaces, references, new/delete, casts, bool), every entity with a unique "
        "name, in a safe layout (one statement per line) and a free layout (line breaks inside headers and expressions); plus "
        "generated splitter lines, declaration-map event sequences and location trees; non-trivial = the program has a variable "
        "use that is linked (dump cases), the line has a grouped field (split), a use precedes its declaration (data), a relative "
        "location follows a line change (loc)")
EXPLANATION = ("Lean theorems: the importer's line splitter inverts clang's field joining for the field shapes clang emits; the "
               "address-keyed declaration map links every use to the declaration with the referenced address whatever the order of "
               "uses and declarations; location tokens resolve to clang's location exactly when the inherited line is clang's last "
               "printed line (the importer inherits from the parent node instead: counterexample theorem, finding F35a); the token "
               "attributes a model import returns are by construction the result of running its logged declaration-map calls, so the "
               "map theorem applies to every import whose calls satisfy its hypotheses (import_uses_linked; hypotheses evaluated on "
               "every real dump); the model import issues only astOperand1/astOperand2 calls (true by construction of the model; for "
               "the real importer the premise is the translator obligation T:clangimport-writes-the-AST-through-astOperand1/2-only "
               "plus the sampled correspondence), so C14's AstStore invariant holds for every imported token list; "
               "the invariant checker run on the real token list is proved sound. Tie: the real splitString/Data/setLocations and "
               "the real parseClangAstDump in-process against the compiled model. Level 'other': the property quantifies over all "
               "programs clang accepts; the model import covers the node kinds listed in Model/ClangDeclMap.lean `supported`; "
               "outside the model: scopes, types, value types, templates, range-for, out-of-line member definitions, never-crash "
               "for arbitrary programs (sampled only), ValueFlow and the checks after the import.")
THEOREMS = ["Cppcheck.C35.split_join", "Cppcheck.C35.split_join_counterexample", "Cppcheck.C35.use_links_referenced",
            "Cppcheck.C35.varIds_distinct", "Cppcheck.C35.use_links_dup_address_counterexample", "Cppcheck.C35.import_uses_linked",
            "Cppcheck.C35.location_token_resolves",
            "Cppcheck.C35.location_sequence_resolves", "Cppcheck.C35.location_inheritance_counterexample",
            "Cppcheck.C35.location_column_counterexample", "Cppcheck.C35.location_lineform_column", "Cppcheck.C35.import_setters_only",
            "Cppcheck.C35.import_ast_invariant", "Cppcheck.C35.checker_sound", "Cppcheck.C35.checked_links"]
MODULES = ["Cppcheck.Props.C35"]

CACHE = os.path.join(core.VERIF, ".build", "cache", "c35")
CLANG = "clang-14"
TRUTH_VERSION = "4"      # bump when truth_of() changes: cached entries hold the extracted truth


# ---------------------------------------------------------------------------------------------------------
# program generator
# ---------------------------------------------------------------------------------------------------------
class Gen:
    """Generates one translation unit.  Every declared entity gets a unique name (kind prefix + counter) so that a token of the
    imported list can be aligned with the source occurrence it stands for without trusting locations."""

    def __init__(self, rng, cpp, layout, stress=False):
        self.r, self.cpp, self.layout, self.stress = rng, cpp, layout, stress
        self.n = 0
        self.out = []
        self.globals = []      # (name, kind) kind: int | arr | ptr | struct:<S> | sptr:<S>
        self.structs = {}      # name -> [field names]
        self.funcs = []        # (name, nparams)
        self.enums = []        # enumerator names
        self.typedefs = []
        self.classes = {}      # name -> dict(fields, methods[(name, nparams)])
        self.features = set()
        self.ret = "int"

    def fresh(self, p):
        self.n += 1
        return "%s%d" % (p, self.n)

    # ---- layout ----
    def brk(self, ind, p=0.25):
        """optional line break inside a construct (free layout only)"""
        if self.layout == "free" and self.r.random() < p:
            self.features.add("linebreak")
            return "\n" + " " * (ind + 4)
        return " "

    # ---- expressions ----
    def ints(self, env):
        return [n for n, k in env if k in ("int", "num", "cint")]

    def args_for(self, kinds, env, ind, d):
        """argument expressions matching the parameter kinds of a callable, or None"""
        out = []
        for k in kinds:
            if k in ("int", "num"):
                out.append(self.expr(env, ind, d + 1))
            elif k == "ptr":
                ps = [n for n, kk in env if kk == "ptr"] + ["&" + n for n, kk in env if kk == "int" and "::" not in n]
                if not ps:
                    return None
                out.append(self.r.choice(ps))
            elif k.startswith("sptr:"):
                s = k.split(":")[1]
                ps = [n for n, kk in env if kk == "sptr:" + s] + ["&" + n for n, kk in env if kk == "struct:" + s]
                if not ps:
                    return None
                out.append(self.r.choice(ps))
            elif k.startswith("struct:"):
                ps = [n for n, kk in env if kk == k]
                if not ps:
                    return None
                out.append(self.r.choice(ps))
            else:
                return None
        return out

    def atom(self, env, ind):
        r = self.r
        c = r.random()
        iv = self.ints(env)
        if c < 0.45 and iv:
            return r.choice(iv)
        if c < 0.55:
            return str(r.choice([0, 1, 2, 3, 7, 10, 42, 100, 255]))
        if c < 0.60:
            return r.choice(["'a'", "'0'", "'\\n'", "'\\0'", "'z'"])
        if c < 0.68:
            arrs = [n for n, k in env if k == "arr"]
            if arrs:
                return "%s[%s]" % (r.choice(arrs), r.choice(iv) if iv and r.random() < 0.5 else str(r.randrange(3)))
        if c < 0.78:
            ss = [(n, k) for n, k in env if k.startswith("struct:") or k.startswith("sptr:")]
            if ss:
                n, k = r.choice(ss)
                fields = self.fields_of(k.split(":")[1])
                if fields:
                    self.features.add("member")
                    return "%s%s%s" % (n, "." if k.startswith("struct:") else "->", r.choice(fields))
        if c < 0.83:
            ps = [n for n, k in env if k == "ptr"]
            if ps:
                return "*" + r.choice(ps)
        if c < 0.88 and self.enums:
            self.features.add("enumuse")
            return r.choice(self.enums)
        if c < 0.91 and iv:
            if self.stress and r.random() < 0.6:
                self.features.add("sizeof-var")     # F35d
                return "sizeof(%s)" % r.choice(iv)
            return "sizeof(%s)" % r.choice(["int", "long", "char"])
        if c < 0.95 and self.cpp:
            return r.choice(["true", "false"])
        if iv:
            return r.choice(iv)
        return "1"

    def fields_of(self, s):
        if s in self.structs:
            return self.structs[s]
        if s in self.classes:
            return self.classes[s]["fields"]
        return []

    def expr(self, env, ind, d=0):
        r = self.r
        c = r.random()
        if d >= 3 or c < 0.35:
            return self.atom(env, ind)
        if c < 0.65:
            op = r.choice(["+", "-", "*", "/", "%", "<", ">", "<=", ">=", "==", "!=", "&&", "||", "&", "|", "^", "<<", ">>"])
            return "%s %s%s%s" % (self.expr(env, ind, d + 1), op, self.brk(ind, 0.12), self.expr(env, ind, d + 1))
        if c < 0.72:
            return "(%s)" % self.expr(env, ind, d + 1)
        if c < 0.78:
            return "%s%s" % (r.choice(["-", "!", "~"]), self.atom(env, ind))
        if c < 0.83:
            return "%s ?%s%s : %s" % (self.expr(env, ind, d + 1), self.brk(ind, 0.1), self.expr(env, ind, d + 1), self.expr(env, ind, d + 1))
        if c < 0.90:
            fs = [x for x in self.funcs if x[2] != "void"]
            if fs:
                f, kinds, ret = r.choice(fs)
                args = self.args_for(kinds, env, ind, d)
                if args is not None:
                    self.features.add("call")
                    return "%s(%s)" % (f, ("," + self.brk(ind, 0.2)).join(args))
        if c < 0.94:
            if self.cpp and r.random() < 0.5:
                return "static_cast<%s>(%s)" % (r.choice(["long", "int", "char"]), self.expr(env, ind, d + 1))
            return "(%s)%s" % (r.choice(["long", "int", "char", "unsigned"]), self.atom(env, ind))
        if c < 0.97:
            iv = [n for n, k in env if k in ("int", "num")]
            if iv:
                return r.choice(iv) + r.choice(["++", "--"])
        return self.atom(env, ind)

    def lvalue(self, env):
        r = self.r
        cands = [n for n, k in env if k in ("int", "num")]
        arrs = [n for n, k in env if k == "arr"]
        ss = [(n, k) for n, k in env if (k.startswith("struct:") or k.startswith("sptr:")) and self.fields_of(k.split(":")[1])]
        c = r.random()
        if c < 0.15 and arrs:
            return "%s[%d]" % (r.choice(arrs), r.randrange(3))
        if c < 0.35 and ss:
            n, k = r.choice(ss)
            return "%s%s%s" % (n, "." if k.startswith("struct:") else "->", r.choice(self.fields_of(k.split(":")[1])))
        if cands:
            return r.choice(cands)
        return None

    # ---- statements ----
    def local_decl(self, env, ind):
        r = self.r
        pad = " " * ind
        c = r.random()
        if c < 0.5:
            v = self.fresh("lv")
            init = " =%s%s" % (self.brk(ind, 0.15), self.expr(env, ind)) if r.random() < 0.7 else ""
            ty = r.choice(["int", "int", "int", "long", "unsigned", "char", "short"] + self.typedefs)
            kind = "int" if ty == "int" else "num"
            line = "%s%s %s%s" % (pad, ty, v, init)
            new = [(v, kind)]
            if self.stress and r.random() < 0.3:      # F35e
                v2 = self.fresh("lv")
                line += ", %s" % v2 + (" = %s" % self.atom(env, ind) if r.random() < 0.5 else "")
                new.append((v2, kind))
                self.features.add("multidecl")
            return line + ";", new
        if c < 0.62:
            v = self.fresh("la")
            if r.random() < 0.5:
                self.features.add("initlist")
                exact = [n for n, k in env if k == "int"] + ["1", "2", "42"]
                return "%sint %s[3] = {%s};" % (pad, v, ", ".join(r.choice(exact) for _ in range(3))), [(v, "arr")]
            return "%sint %s[3];" % (pad, v), [(v, "arr")]
        if c < 0.75 and (self.structs or self.classes):
            s = r.choice(list(self.structs) + [k for k in self.classes if not self.classes[k].get("ctorargs")])
            v = self.fresh("ls")
            kw = "struct " if (s in self.structs and (not self.cpp or r.random() < 0.5)) else ""
            return "%s%s%s %s;" % (pad, kw, s, v), [(v, "struct:" + s)]
        if c < 0.85:
            iv = [n for n, k in env if k == "int" and "::" not in n]
            if iv:
                v = self.fresh("lp")
                self.features.add("pointer")
                return "%sint *%s = &%s;" % (pad, v, r.choice(iv)), [(v, "ptr")]
        if c < 0.92:
            ss = [(n, k) for n, k in env if k.startswith("struct:")]
            if ss:
                n, k = r.choice(ss)
                s = k.split(":")[1]
                v = self.fresh("lq")
                kw = "struct " if s in self.structs and not self.cpp else ""
                return "%s%s%s *%s = &%s;" % (pad, kw, s, v, n), [(v, "sptr:" + s)]
        if self.stress and r.random() < 0.5:
            v = self.fresh("lv")
            self.features.add("staticlocal")
            return "%sstatic int %s = 0;" % (pad, v), [(v, "int")]
        v = self.fresh("lv")
        return "%sint %s = %s;" % (pad, v, self.expr(env, ind)), [(v, "int")]

    def block(self, env, ind, d, inloop, insw=False):
        """statements of a compound statement; returns list of lines"""
        lines = []
        env = list(env)
        for _ in range(self.r.randrange(1, 4 if d else 6)):
            ls, new = self.stmt(env, ind, d, inloop, insw)
            lines += ls
            env += new
        return lines

    def body(self, env, ind, d, inloop, head, insw=False):
        """`head {` … `}` in the current layout"""
        pad = " " * ind
        inner = self.block(env, ind + 2, d + 1, inloop, insw)
        if self.layout == "free" and self.r.random() < 0.3:
            self.features.add("brace-on-own-line")
            return [pad + head, pad + "{"] + inner + [pad + "}"]
        return [pad + head + " {"] + inner + [pad + "}"]

    def stmt(self, env, ind, d, inloop, insw=False):
        r = self.r
        pad = " " * ind
        c = r.random()
        if c < 0.22:
            l, new = self.local_decl(env, ind)
            return [l], new
        if c < 0.42:
            lv = self.lvalue(env)
            if lv:
                op = r.choice(["=", "=", "=", "+=", "-=", "*=", "|=", "&="])
                return ["%s%s %s%s%s;" % (pad, lv, op, self.brk(ind, 0.15), self.expr(env, ind))], []
        if c < 0.52 and d < 3:
            self.features.add("if")
            ls = self.body(env, ind, d, inloop, "if (%s)" % self.expr(env, ind), insw)
            if r.random() < 0.5:
                self.features.add("else")
                els = self.body(env, ind, d, inloop, "else", insw)
                if self.layout == "free" and r.random() < 0.6 and ls[-1].strip() == "}" and els[0].strip().startswith("else"):
                    self.features.add("cuddled-else")
                    els[0] = ls[-1] + " " + els[0].strip()
                    ls = ls[:-1]
                ls += els
            return ls, []
        if c < 0.57 and d < 3:
            lv = self.lvalue(env)
            if lv and r.random() < 0.5:
                self.features.add("if-nobrace")
                return ["%sif (%s)" % (pad, self.expr(env, ind)), "%s  %s = %s;" % (pad, lv, self.expr(env, ind))], []
        if c < 0.60 and d < 3 and self.cpp and self.stress:    # F35i: the condition variable of a while is not imported
            self.features.add("while-condition-variable")
            v = self.fresh("lv")
            return self.body(env + [(v, "num")], ind, d, True, "while (int %s = %s)" % (v, self.expr(env, ind))), []
        if c < 0.64 and d < 3:
            self.features.add("while")
            return self.body(env, ind, d, True, "while (%s)" % self.expr(env, ind)), []
        if c < 0.69 and d < 3:
            self.features.add("do")
            ls = self.body(env, ind, d, True, "do")
            ls[-1] += " while (%s);" % self.expr(env, ind)
            return ls, []
        if c < 0.78 and d < 3:
            self.features.add("for")
            iv = [n for n, k in env if k in ("int", "num")]
            if r.random() < 0.6 or not iv:
                v = self.fresh("li")
                env2 = env + [(v, "int")]
                init = "int %s = %s" % (v, self.atom(env, ind))
            else:
                v = r.choice(iv)
                env2 = env
                init = "%s = 0" % v if r.random() < 0.8 else ""
            cond = "%s < %s" % (v, self.atom(env2, ind)) if r.random() < 0.9 else ""
            inc = r.choice(["%s++" % v, "++%s" % v, "%s += 2" % v, ""])
            head = "for (%s;%s%s;%s%s)" % (init, self.brk(ind, 0.15), cond, self.brk(ind, 0.15), inc)
            return self.body(env2, ind, d, True, head), []
        if c < 0.82 and d < 2:
            self.features.add("switch")
            ls = [pad + "switch (%s) {" % self.expr(env, ind)]
            for k in range(r.randrange(1, 4)):
                ls.append(pad + "case %d:" % (k * 3 + 1))
                lv = self.lvalue(env)
                if lv:
                    ls.append("%s  %s = %s;" % (pad, lv, self.expr(env, ind)))
                if r.random() < 0.8 or not lv:
                    ls.append(pad + "  break;")
            if r.random() < 0.6:
                ls.append(pad + "default:")
                ls.append(pad + "  break;")
            ls.append(pad + "}")
            return ls, []
        if c < 0.86 and inloop:
            return [pad + r.choice(["break;", "continue;"])], []
        if c < 0.90 and self.funcs:
            f, kinds, ret = r.choice(self.funcs)
            args = self.args_for(kinds, env, ind, 1)
            if args is not None:
                self.features.add("callstmt")
                return ["%s%s(%s);" % (pad, f, ("," + self.brk(ind, 0.25)).join(args))], []
        if c < 0.93:
            if self.ret == "void":
                return [pad + "return;"], []
            return ["%sreturn %s;" % (pad, self.expr(env, ind))], []
        if c < 0.95 and self.cpp:
            iv = self.ints(env)
            v = self.fresh("lp")
            self.features.add("new")
            return ["%sint *%s = new int;" % (pad, v), "%sdelete %s;" % (pad, v)], [(v, "ptr")]
        if c < 0.97 and d < 3:
            return [pad + "{"] + self.block(env, ind + 2, d + 1, inloop, insw) + [pad + "}"], []
        lv = self.lvalue(env)
        if lv:
            return ["%s%s = %s;" % (pad, lv, self.expr(env, ind))], []
        return [pad + ";"], []

    # ---- top level ----
    def params(self, n, ind=0):
        ps = []
        env = []
        for _ in range(n):
            p = self.fresh("pa")
            c = self.r.random()
            if c < 0.7:
                ty = self.r.choice(["int", "int", "long", "unsigned", "char"])
                ps.append("%s %s" % (ty, p)); env.append((p, "int" if ty == "int" else "num"))
            elif c < 0.8:
                ps.append("int *%s" % p); env.append((p, "ptr"))
            elif c < 0.9 and (self.structs or self.classes):
                s = self.r.choice(list(self.structs) + list(self.classes))
                kw = "struct " if s in self.structs and not self.cpp else ""
                if self.cpp and self.r.random() < 0.5:
                    ps.append("%s%s &%s" % (kw, s, p)); env.append((p, "struct:" + s))
                    self.features.add("reference")
                else:
                    ps.append("%s%s *%s" % (kw, s, p)); env.append((p, "sptr:" + s))
            else:
                ps.append("int %s" % p); env.append((p, "int"))
        sep = "," + ("\n" + " " * 8 if self.layout == "free" and self.r.random() < 0.4 and n > 1 else " ")
        if "\n" in sep:
            self.features.add("params-on-lines")
        return sep.join(ps) if ps else ("void" if not self.cpp else ""), env

    def function(self, name=None, ind=0, extra_env=(), ret=None, qual="", proto_ok=True):
        r = self.r
        f = name or self.fresh("fn")
        n = r.randrange(0, 4)
        ps, penv = self.params(n, ind)
        ret = ret or r.choice(["int", "int", "long", "void", "unsigned"])
        self.ret = ret
        pad = " " * ind
        lines = []
        static = "static " if (r.random() < 0.15 and not qual and ind == 0) else ""
        if self.stress and proto_ok and r.random() < 0.5:
            # a prototype first: parameter names are declared again in the definition (F35b/F35c)
            self.features.add("prototype")
            lines.append("%s%s%s %s(%s);" % (pad, static, ret, f, ps.replace("\n", " ")))
        env = self.globals + list(extra_env) + penv
        head = "%s%s %s(%s)%s" % (static, ret, f, ps, qual)
        if self.layout == "free" and r.random() < 0.25:
            self.features.add("brace-on-own-line")
            lines += [pad + head, pad + "{"]
        else:
            lines += [pad + head + " {"]
        lines += self.block(env, ind + 2, 0, False)
        if ret != "void":
            lines.append("%s  return %s;" % (pad, self.expr(env, ind + 2)))
        lines.append(pad + "}")
        return f, [k for _, k in penv], ret, lines

    def program(self):
        r = self.r
        out = []
        nglob = r.randrange(1, 5)
        for _ in range(nglob):
            c = r.random()
            if c < 0.4:
                g = self.fresh("gv")
                out.append("%sint %s%s;" % (r.choice(["", "", "static "]), g, " = %d" % r.randrange(50) if r.random() < 0.6 else ""))
                self.globals.append((g, "int"))
            elif c < 0.6:
                s = self.fresh("St")
                fs = [self.fresh("fm") for _ in range(r.randrange(1, 4))]
                if self.layout == "free" and r.random() < 0.5:
                    out.append("struct %s { %s };" % (s, " ".join("int %s;" % f for f in fs)))
                else:
                    out += ["struct %s {" % s] + ["  int %s;" % f for f in fs] + ["};"]
                self.structs[s] = fs
                if r.random() < 0.6:
                    g = self.fresh("gs")
                    out.append("struct %s %s;" % (s, g))
                    self.globals.append((g, "struct:" + s))
            elif c < 0.72:
                e = self.fresh("En")
                ks = [self.fresh("EK") for _ in range(r.randrange(1, 4))]
                out.append("enum %s { %s };" % (e, ", ".join(ks)))
                self.enums += ks
                self.features.add("enum")
            elif c < 0.8:
                t = self.fresh("Ty")
                out.append("typedef int %s;" % t)
                self.typedefs.append(t)
                self.features.add("typedef")
            elif c < 0.9:
                g = self.fresh("ga")
                out.append("int %s[4];" % g)
                self.globals.append((g, "arr"))
            else:
                g = self.fresh("gv")
                out.append("int %s = %d;" % (g, r.randrange(9)))
                self.globals.append((g, "int"))
        if self.cpp:
            for _ in range(r.randrange(0, 3)):
                out += self.klass()
            if r.random() < 0.4:
                ns = self.fresh("ns")
                g = self.fresh("gv")
                self.features.add("namespace")
                f, kinds, ret, ls = self.function(ind=2, proto_ok=False)
                out += ["namespace %s {" % ns, "  int %s = 2;" % g] + ls + ["}"]
                self.globals.append(("%s::%s" % (ns, g), "int"))
                self.funcs.append(("%s::%s" % (ns, f), kinds, ret))
                if self.stress and r.random() < 0.6:      # F35h: uses found through a using-declaration
                    self.features.add("using-declaration")
                    out.append("using %s::%s;" % (ns, g))
                    self.globals.append((g, "num"))
        for _ in range(r.randrange(1, 4)):
            f, kinds, ret, ls = self.function()
            out += ls
            self.funcs.append((f, kinds, ret))
        return "\n".join(out) + "\n"

    def klass(self):
        r = self.r
        c = self.fresh("Cl")
        kw = r.choice(["class", "struct"])
        fs = [self.fresh("fm") for _ in range(r.randrange(1, 3))]
        lines = ["%s %s {" % (kw, c)]
        if kw == "class":
            lines.append("public:")
        # some fields are declared after the methods that use them: the uses come BEFORE the declaration in the dump
        late = fs[1:] if r.random() < 0.5 else []
        if late:
            self.features.add("field-used-before-declaration")
        lines += ["  int %s;" % f for f in fs if f not in late]
        info = dict(fields=fs, methods=[])
        fenv = [(f, "int") for f in fs]
        # static data members and static member functions, mostly declared BELOW the inline member functions that use them: clang
        # refers to them with a DeclRefExpr (not a MemberExpr) whose declaration comes later in the dump
        statics, late_static = [], []
        for _ in range(r.randrange(0, 3)):
            sm = self.fresh("sm")
            decl = "  static int %s;" % sm if r.random() < 0.6 else "  static const int %s = %d;" % (sm, r.randrange(1, 9))
            self.features.add("static-member")
            if r.random() < 0.75:
                late_static.append(decl)
                self.features.add("static-member-used-before-declaration")
            else:
                lines.append(decl)
            if "const" not in decl:
                fenv.append((sm, "int"))
            else:
                fenv.append((sm, "cint"))
            statics.append((sm, "const" in decl))
        sfuncs = []
        if r.random() < 0.5:
            sf = self.fresh("sf")
            sfuncs.append(sf)
            self.features.add("static-method-called-before-declaration")
        if r.random() < 0.5:
            self.features.add("ctor")
            lines.append("  %s() : %s(0) { %s = 1; }" % (c, fs[0], fs[-1]))
        if r.random() < 0.25:
            lines.append("  ~%s() { }" % c)
            self.features.add("dtor")
        for _ in range(r.randrange(0, 3)):
            m = self.fresh("me")
            qual = " const" if r.random() < 0.25 else ""
            self.features.add("method")
            saved = list(self.funcs)
            self.funcs = self.funcs + [(sf, [], "int") for sf in sfuncs]
            menv = fenv if not qual else [(n_, k_) for n_, k_ in fenv if n_.startswith("sm")]
            f, kinds, ret, ls = self.function(name=m, ind=2, extra_env=menv, ret="int", qual=qual, proto_ok=False)
            self.funcs = saved
            lines += ls
            info["methods"].append((m, kinds))
        for sf in sfuncs:
            senv = [(n_, k_) for n_, k_ in fenv if n_.startswith("sm")]
            lines += ["  static int %s() {" % sf, "    return %s;" % (self.expr(self.globals + senv, 4) if senv else "1"), "  }"]
        lines += ["  int %s;" % f for f in late]
        lines += late_static
        if kw == "class" and r.random() < 0.3:
            lines.append("private:")
            p = self.fresh("fm")
            lines.append("  int %s;" % p)
        lines.append("};")
        self.classes[c] = info
        for sm, isconst in statics:
            self.globals.append(("%s::%s" % (c, sm), "cint" if isconst else "int"))
        for sf in sfuncs:
            self.funcs.append(("%s::%s" % (c, sf), [], "int"))
        return lines


def gen_program(rng, cpp, layout, stress=False):
    g = Gen(rng, cpp, layout, stress)
    text = g.program()
    return dict(lang="cpp" if cpp else "c", layout=layout, stress=stress, text=text, features=sorted(g.features))


# ---------------------------------------------------------------------------------------------------------
# clang: text dump (what cppcheck --clang consumes) and JSON dump (ground truth), cached by program hash
# ---------------------------------------------------------------------------------------------------------
def src_name(lang):
    return "t.c" if lang == "c" else "t.cpp"


def linecol(text, off):
    line = text.count("\n", 0, off) + 1
    col = off - (text.rfind("\n", 0, off) + 1) + 1
    return line, col


VARKINDS = ("VarDecl", "ParmVarDecl", "FieldDecl")
FUNKINDS = ("FunctionDecl", "CXXMethodDecl")
DECLKINDS = VARKINDS + FUNKINDS + ("EnumConstantDecl",)


def truth_of(text, js):
    """from clang's JSON dump: declarations (by id) and uses (DeclRefExpr / MemberExpr) with the offsets of their identifiers"""
    decls, uses = {}, []

    def off(loc):
        if not isinstance(loc, dict):
            return None
        if "offset" in loc:
            return loc["offset"]
        for k in ("expansionLoc", "spellingLoc"):
            if k in loc and "offset" in loc[k]:
                return loc[k]["offset"]
        return None

    def walk(n, anc, func, dropped=False):
        k = n.get("kind")
        rng = n.get("range") or {}
        b = off(rng.get("begin"))
        e = off(rng.get("end"))
        if k in DECLKINDS and n.get("name") and not n.get("isImplicit") and off(n.get("loc")) is not None and b is not None:
            decls[n["id"]] = dict(kind=k, name=n["name"], off=off(n["loc"]), begin=b, prev=n.get("previousDecl"),
                                  func=func, anc=list(anc), dropped=dropped)
        if k == "DeclRefExpr" and n.get("referencedDecl") and e is not None:
            rd = n["referencedDecl"]
            uses.append(dict(target=rd.get("id"), name=rd.get("name"), tkind=rd.get("kind"), off=e, begin=b, anc=list(anc), via="ref", dropped=dropped,
                             using=(n.get("foundReferencedDecl") or {}).get("kind") == "UsingShadowDecl"))
        if k == "MemberExpr" and n.get("referencedMemberDecl") and e is not None:
            uses.append(dict(target=n["referencedMemberDecl"], name=n.get("name"), tkind=None, off=e, begin=b, anc=list(anc), via="member", dropped=dropped,
                             nonodr=bool(n.get("nonOdrUseReason"))))
        anc2 = anc + [b] if b is not None else anc
        func2 = n["id"] if k in FUNKINDS + ("CXXConstructorDecl", "CXXDestructorDecl") else func
        inner = n.get("inner", [])
        for j, c in enumerate(inner):
            # the importer turns a DeclStmt into its FIRST declarator only (`getChild(0)->createTokens`) …
            d2 = dropped or ("declarator" if (k == "DeclStmt" and j > 0) else False)
            # … and takes condition and body of while/switch from the LAST two children: a condition variable (first child) is skipped
            if k in ("WhileStmt", "SwitchStmt") and j == 0 and len(inner) == 3 and c.get("kind") == "DeclStmt":
                d2 = d2 or "condvar"
            walk(c, anc2, func2, d2)

    walk(js, [], None)
    for u in uses:
        if u["tkind"] is None and u["target"] in decls:
            u["tkind"] = decls[u["target"]]["kind"]
    funcprev = {}
    for i, d in decls.items():
        if d["kind"] in FUNKINDS:
            funcprev[i] = bool(d["prev"])

    def lc(o):
        return list(linecol(text, o))

    out_d = {}
    for i, d in decls.items():
        out_d[i] = dict(kind=d["kind"], name=d["name"], off=d["off"], begin=lc(d["begin"]), prev=bool(d["prev"]),
                        funcprev=bool(d["func"] and funcprev.get(d["func"])), anclines=sorted(set(lc(a)[0] for a in d["anc"])),
                        dropped=d["dropped"])
    out_u = [dict(target=u["target"], name=u["name"], tkind=u["tkind"], off=u["off"], begin=lc(u["begin"]) if u["begin"] is not None else None,
                  via=u["via"], anclines=sorted(set(lc(a)[0] for a in u["anc"])), dropped=u["dropped"], nonodr=u.get("nonodr", False),
                  using=u.get("using", False)) for u in uses]
    return dict(decls=out_d, uses=out_u)


def clang_case(case):
    """fills case['dump'] (text dump) and case['truth']; cached"""
    key = hashlib.sha1((TRUTH_VERSION + "\0" + case["lang"] + "\0" + case["text"]).encode()).hexdigest()
    p = os.path.join(CACHE, key + ".json")
    if os.path.exists(p):
        try:
            d = json.load(open(p))
            case.update(dump=d["dump"], truth=d["truth"], clang_ok=d["clang_ok"], cached=True)
            return case
        except Exception:
            pass
    os.makedirs(CACHE, exist_ok=True)
    wd = os.path.join(CACHE, "w-" + key + "-%d" % os.getpid())
    os.makedirs(wd, exist_ok=True)
    try:
        fn = src_name(case["lang"])
        open(os.path.join(wd, fn), "w").write(case["text"])
        r1 = subprocess.run([CLANG, "-fsyntax-only", "-Xclang", "-ast-dump", "-fno-color-diagnostics", fn], cwd=wd, stdout=subprocess.PIPE,
                            stderr=subprocess.PIPE, text=True, errors="replace", timeout=120)
        r2 = subprocess.run([CLANG, "-fsyntax-only", "-Xclang", "-ast-dump=json", "-fno-color-diagnostics", fn], cwd=wd, stdout=subprocess.PIPE,
                            stderr=subprocess.PIPE, text=True, errors="replace", timeout=120)
        ok = r1.returncode == 0 and r2.returncode == 0
        truth = None
        if ok:
            try:
                truth = truth_of(case["text"], json.loads(r2.stdout))
            except Exception as ex:
                ok = False
        d = dict(dump=r1.stdout, truth=truth, clang_ok=ok, stderr=(r1.stderr or "")[-400:])
        tmp = p + ".tmp%d" % os.getpid()
        json.dump(d, open(tmp, "w"))
        os.replace(tmp, p)
        case.update(dump=d["dump"], truth=truth, clang_ok=ok, cached=False)
        return case
    finally:
        import shutil
        shutil.rmtree(wd, ignore_errors=True)


def clang_all(cases, workers=8):
    with concurrent.futures.ThreadPoolExecutor(workers) as ex:
        return list(ex.map(clang_case, cases))


# ---------------------------------------------------------------------------------------------------------
# running the line-protocol executables; a crash of the harness is an outcome of the op it happened on
# ---------------------------------------------------------------------------------------------------------
def run_robust(exe, ops, timeout=900):
    out = []
    i = 0
    while i < len(ops):
        rc, o, err = core.run_lines(exe, [], ops[i:], timeout=timeout)
        out += o
        i = len(out)
        if i < len(ops):
            out.append("CRASH rc=%s %s" % (rc, (err or "")[-200:].replace("\n", " | ")))
            i += 1
    return out


def parse_dump_line(line):
    """harness/driver `dump` output -> list of token dicts, or None when the import did not complete"""
    if not line.startswith("ok "):
        return None
    toks = []
    for f in line.split(" | ", 1)[1].split(" ") if " | " in line else []:
        q = f.split(":")

        def ix(s):
            return None if s == "-" else int(s)
        toks.append(dict(idx=int(q[0]), str=core.unhx(q[1]).decode("latin-1"), file=int(q[2]), line=int(q[3]), col=int(q[4]), link=ix(q[5]),
                         parent=ix(q[6]), op1=ix(q[7]), op2=ix(q[8]), varId=int(q[9]), varDef=ix(q[10]), funDef=ix(q[11]), enumDef=ix(q[12])))
    return toks


# ---------------------------------------------------------------------------------------------------------
# P_impl
# ---------------------------------------------------------------------------------------------------------
def inv_problems(toks):
    """(1) AstStore invariant (acyclic, operand's parent points back, a child is listed, op1 != op2) and links (symmetric, nested,
    an opening bracket before its closing bracket of the same kind, every bracket linked)"""
    n = len(toks)
    bad = []
    for t in toks:
        i = t["idx"]
        for k in ("op1", "op2"):
            c = t[k]
            if c is not None and toks[c]["parent"] != i:
                bad.append(("ast-opback", "token %d %r: %s=%d whose parent is %r" % (i, t["str"], k, c, toks[c]["parent"])))
        if t["op1"] is not None and t["op1"] == t["op2"]:
            bad.append(("ast-distinct", "token %d %r: op1 == op2" % (i, t["str"])))
        p = t["parent"]
        if p is not None and toks[p]["op1"] != i and toks[p]["op2"] != i:
            bad.append(("ast-listed", "token %d %r: parent %d does not list it" % (i, t["str"], p)))
        # acyclic
        seen, c = 0, t["parent"]
        while c is not None and seen <= n:
            c = toks[c]["parent"]
            seen += 1
        if seen > n:
            bad.append(("ast-cycle", "token %d %r is on a parent cycle" % (i, t["str"])))
    pairs = {"(": ")", "[": "]", "{": "}"}
    stack = []
    for t in toks:
        i, s, l = t["idx"], t["str"], t["link"]
        if l is not None and toks[l]["link"] != i:
            bad.append(("link-asym", "token %d %r links to %d which links to %r" % (i, s, l, toks[l]["link"])))
        if s in pairs:
            if l is None or l <= i or toks[l]["str"] != pairs[s]:
                bad.append(("link-kind", "opening %r at %d links to %r" % (s, i, l)))
            stack.append(i)
        elif s in pairs.values():
            if not stack or toks[stack[-1]]["link"] != i:
                bad.append(("link-nesting", "closing %r at %d does not close the innermost open bracket %r" % (s, i, stack[-1] if stack else None)))
            if stack:
                stack.pop()
        elif l is not None:
            bad.append(("link-nonbracket", "token %d %r has a link" % (i, s)))
    if stack:
        bad.append(("link-nesting", "unclosed brackets %r" % stack[:3]))
    return bad


ENTITY = re.compile(r"^(gv|gs|ga|lv|la|ls|lp|lq|li|pa|fm|fn|me|EK|sm|sf)\d+$")


def align(case, toks):
    """pair the k-th token spelled N with the k-th source occurrence (declaration name or use) of entity N.
    Returns (pairs, unaligned names).  pairs: list of (token, occ) with occ = dict(role 'D'|'U', id / target, ...)"""
    tr = case["truth"]
    occ = {}
    for i, d in tr["decls"].items():
        if ENTITY.match(d["name"] or "") and not d["dropped"]:
            occ.setdefault(d["name"], []).append(dict(role="D", id=i, off=d["off"], d=d))
    for u in tr["uses"]:
        if u["name"] and ENTITY.match(u["name"]) and u["target"] in tr["decls"] and not u["dropped"]:
            occ.setdefault(u["name"], []).append(dict(role="U", id=u["target"], off=u["off"], u=u))
    bystr = {}
    for t in toks:
        if ENTITY.match(t["str"]):
            bystr.setdefault(t["str"], []).append(t)
    pairs, unaligned = [], []
    for name, os_ in occ.items():
        os_.sort(key=lambda o: (o["off"], o["role"]))
        ts = bystr.get(name, [])
        if len(ts) != len(os_):
            unaligned.append((name, len(os_), len(ts)))
            continue
        pairs += list(zip(ts, os_))
    return pairs, unaligned


def link_problems(case, toks):
    """(2) every variable use is linked to the declaration clang names; (4) lines/columns of the aligned name tokens.
    Returns list of (key, text, detail dict)"""
    tr = case["truth"]
    pairs, unaligned = align(case, toks)
    tok_of_decl = {}
    for t, o in pairs:
        if o["role"] == "D":
            tok_of_decl[o["id"]] = t
    bad = []
    stats = dict(var_uses=0, var_uses_linked=0, func_uses=0, enum_uses=0, decls=0, unaligned=len(unaligned), line_checked=0)
    ids_seen = {}
    for t, o in pairs:
        d = tr["decls"][o["id"]]
        kind = d["kind"]
        where = "%s %r (source %d:%d)" % ("declaration of" if o["role"] == "D" else "use of", t["str"], *linecol(case["text"], o["off"]))
        # ---- locations: the node's begin as clang means it ----
        exp = d["begin"] if o["role"] == "D" else o["u"]["begin"]
        anclines = d["anclines"] if o["role"] == "D" else o["u"]["anclines"]
        if exp:
            stats["line_checked"] += 1
            if t["line"] != exp[0]:
                stats["line_wrong"] = stats.get("line_wrong", 0) + 1
                key = "loc-line-inherited" if (t["line"] in anclines or t["line"] < exp[0]) else "loc-line-other"
                bad.append((key, "%s: imported at line %d, clang: line %d" % (where, t["line"], exp[0]), dict(tok=t["idx"])))
            elif t["col"] != exp[1]:
                bad.append(("loc-col", "%s: imported at column %d, clang: column %d" % (where, t["col"], exp[1]), dict(tok=t["idx"])))
        # ---- links ----
        if kind in VARKINDS:
            if o["role"] == "D":
                stats["decls"] += 1
                if t["varDef"] != t["idx"] or t["varId"] == 0:
                    key = "param-of-redeclared-function" if (kind == "ParmVarDecl" and d["funcprev"]) else "decl-unlinked"
                    bad.append((key, "%s: varId=%d variable()->nameToken()=%r" % (where, t["varId"], t["varDef"]), dict(tok=t["idx"])))
                else:
                    if t["varId"] in ids_seen and ids_seen[t["varId"]] != o["id"]:
                        bad.append(("varid-shared", "%s: varId %d also names another declaration" % (where, t["varId"]), dict(tok=t["idx"])))
                    ids_seen[t["varId"]] = o["id"]
            else:
                stats["var_uses"] += 1
                td = tok_of_decl.get(o["id"])
                if td is None:
                    if d["dropped"]:
                        kk = "condition-variable-dropped" if d["dropped"] == "condvar" else "declarator-dropped"
                        key = kk if (t["varDef"] is None and t["varId"] == 0) else "use-wrong-decl"
                        bad.append((key, "%s: its declaration (%d:%d) %s and was not imported; imported: varId=%d variable()->nameToken()=%r" %
                                    (where, d["begin"][0], d["begin"][1],
                                     "is the condition variable of a while/switch" if d["dropped"] == "condvar" else "is not the first declarator of its statement",
                                     t["varId"], t["varDef"]), dict(tok=t["idx"])))
                    continue
                if t["varDef"] == td["idx"] and t["varId"] == td["varId"] and t["varId"] != 0:
                    stats["var_uses_linked"] += 1
                    continue
                if kind == "ParmVarDecl" and d["funcprev"] and t["varDef"] is None:
                    key = "param-of-redeclared-function"
                elif t["varDef"] is None and t["varId"] == td["varId"] and t["varId"] != 0 and in_sizeof(toks, t["idx"]):
                    key = "use-inside-sizeof"
                elif t["varDef"] is None and t["varId"] == 0 and o["u"].get("using"):
                    key = "use-via-using-declaration"
                elif t["varDef"] is None:
                    key = "use-unlinked"
                else:
                    key = "use-wrong-decl"
                bad.append((key, "%s: clang: declaration at %d:%d; imported: varId=%d variable()->nameToken()=%s (expected token %d, varId %d)" %
                            (where, d["begin"][0], d["begin"][1], t["varId"],
                             "none" if t["varDef"] is None else "token %d %r" % (t["varDef"], toks[t["varDef"]]["str"]), td["idx"], td["varId"]),
                            dict(tok=t["idx"])))
        elif kind in FUNKINDS and o["role"] == "U":
            # a function use must be linked to (a declaration token of) the function clang names
            stats["func_uses"] += 1
            ok = t["funDef"] is not None and toks[t["funDef"]]["str"] == t["str"]
            if not ok:
                stats["func_uses_unlinked"] = stats.get("func_uses_unlinked", 0) + 1
                # F35c: clang names the LATEST redeclaration (it has a previousDecl); funcDecl registered the first address only
                key = "call-of-redeclared-function" if (d["prev"] and t["funDef"] is None) else "func-use-unlinked"
                bad.append((key, "%s: clang: function declared at %d:%d%s; imported: function()=%s" %
                            (where, d["begin"][0], d["begin"][1], " (a redeclaration)" if d["prev"] else "",
                             "none" if t["funDef"] is None else "token %d %r" % (t["funDef"], toks[t["funDef"]]["str"])), dict(tok=t["idx"])))
        elif kind == "EnumConstantDecl" and o["role"] == "U":
            stats["enum_uses"] += 1
            td = tok_of_decl.get(o["id"])
            if td is not None and t["enumDef"] != td["idx"]:
                stats["enum_uses_unlinked"] = stats.get("enum_uses_unlinked", 0) + 1
    return bad, stats, unaligned


def in_sizeof(toks, i):
    """token i lies between `sizeof (` and the next `)`"""
    j = i - 1
    while j >= 1:
        if toks[j]["str"] == ")":
            return False
        if toks[j]["str"] == "(" and toks[j - 1]["str"] == "sizeof":
            return True
        j -= 1
    return False


# ---------------------------------------------------------------------------------------------------------
# unit-op generators
# ---------------------------------------------------------------------------------------------------------
ADDR = lambda r: "0x%x" % r.randrange(0x1000, 0xffffffffff)


def gen_loc_token(r, weird=0.0):
    c = r.random()
    if c < weird:
        return r.choice(["<col:x>", "<line:>", "<line:3>", "<col:>", "<C:\\a.c:1:2>", "<C:x>", "<a.c>", "<a.c:7>", "<:3:4>", "<col:007>",
                         "<line:+3:4>", "<col:-2>", "<col:99999999999>", "<line:5:1, col:>", "<invalid sloc>", "<<invalid sloc>>", "<>",
                         "<a b.c:3:4>", "<line:2:3, col:4, col:5>", "<col: 3>"])
    n = lambda: str(r.choice([1, 2, 3, 7, 12, 40, 118, 2000]))
    if c < 0.40:
        return "<col:%s>" % n() if r.random() < 0.5 else "<col:%s, col:%s>" % (n(), n())
    if c < 0.55:
        return "<col:%s, line:%s:%s>" % (n(), n(), n())
    if c < 0.80:
        x = r.random()
        if x < 0.4:
            return "<line:%s:%s, col:%s>" % (n(), n(), n())
        if x < 0.7:
            return "<line:%s:%s, line:%s:%s>" % (n(), n(), n(), n())
        return "<line:%s:%s>" % (n(), n())
    if c < 0.92:
        f = r.choice(["a.c", "t.cpp", "dir/x.h", "./y.h", "/usr/include/stdio.h"])
        return "<%s:%s:%s, %s>" % (f, n(), n(), r.choice(["col:" + n(), "line:%s:%s" % (n(), n())]))
    return r.choice(["<<invalid sloc>>", "<>", "<<invalid sloc>, col:3>"])


def gen_loc_tree(r):
    """preorder list of (depth, ext); the root has depth 0"""
    weird = 0.15 if r.random() < 0.25 else 0.0
    items = []
    depth = 0
    for i in range(r.randrange(2, 14)):
        if i == 0:
            depth = 0
        else:
            depth = r.randrange(1, min(depth + 1, 6) + 1)
        head = ADDR(r)
        x = r.random()
        if x < 0.08:
            ext = " %s prev %s %s col:3 f 'int ()'" % (head, ADDR(r), gen_loc_token(r, weird))   # the range is not mExtTokens[1]
        elif x < 0.12:
            ext = " %s" % head
        elif x < 0.16:
            ext = " %s 'int' lvalue" % head
        else:
            ext = " %s %s %s" % (head, gen_loc_token(r, weird), r.choice(["'int'", "col:5 used x 'int'", "line:4:2 f 'void ()'", ""]))
        items.append((depth, ext))
    return items


def loc_nontrivial(items):
    # a relative column after a sibling subtree changed the line
    seen_line_change = False
    for d, e in items[1:]:
        if "<line:" in e:
            seen_line_change = True
        elif "<col:" in e and seen_line_change:
            return True
    return False


def gen_split_line(r):
    c = r.random()
    if c < 0.55:
        # clang-shaped
        fs = [ADDR(r)]
        if r.random() < 0.2:
            fs += [r.choice(["prev", "parent"]), ADDR(r)]
        fs.append(gen_loc_token(r, 0.02))
        for _ in range(r.randrange(0, 7)):
            x = r.random()
            if x < 0.25:
                t = r.choice(["int", "int (*)(int)", "struct S", "char *", "int[3]", "void (int, char)", "std::vector<int>", "unsigned long", "const T &"])
                fs.append("'%s'" % t if r.random() < 0.6 else "'%s':'%s'" % (t, r.choice(["int", t, "struct S", "T<a, b>"])))
            elif x < 0.45:
                fs.append(r.choice(["lvalue", "used", "cinit", "callinit", "implicit", "referenced", "definition", "static", "extern", "Var", "ParmVar",
                                    "Function", "prefix", "postfix", "struct", "class", "col:7", "line:3:5", "non_odr_use_unevaluated"]))
            elif x < 0.6:
                fs.append(ADDR(r))
            elif x < 0.7:
                fs.append(r.choice(["x", "foo", "_bar9", "operator=", "operator<<", "~C", "ns::f", "a::b::c", "vector<int>", "map<int, int>", "S<T<int>>"]))
            elif x < 0.8:
                fs.append(r.choice(["'+'", "'<<'", "'->'", "'x'", "'='", "','"]))
            elif x < 0.88:
                fs.append(r.choice(["\"abc\"", "\"a b  c\"", "\"\"", "\"a\\\"b\"", "\"it's\""]))
            elif x < 0.94:
                fs.append(r.choice(["42", "0", "3.14", "1e10", "<LValueToRValue>", "<NoOp>", "<ArrayToPointerDecay>"]))
            else:
                fs.append(r.choice(["(", ")", "*", "(CXXTemporary", "0x55)"]))
        return " " + (" " if r.random() < 0.9 else "  ").join(fs)
    alphabet = " '\"<>:*()_ab0x,-" if c < 0.9 else "".join(chr(i) for i in range(1, 128))
    return "".join(r.choice(alphabet) for _ in range(r.randrange(0, 40)))


def gen_data_ops(r):
    n = r.randrange(2, 14)
    addrs = [ADDR(r) for _ in range(r.randrange(1, 6))]
    evs = []
    free = list(range(n))
    r.shuffle(free)
    wild = r.random() < 0.3            # duplicate addresses / reused tokens
    used_addr = set()
    declared_tok = []
    while free:
        t = free.pop() if not (wild and r.random() < 0.15 and evs) else r.randrange(n)
        c = r.random()
        a = r.choice(addrs)
        if c < 0.5:
            evs.append(("r", a, t))
        else:
            if a in used_addr and not wild:
                cand = [x for x in addrs if x not in used_addr]
                if not cand:
                    evs.append(("r", a, t))
                    continue
                a = r.choice(cand)
            used_addr.add(a)
            k = r.choice(["v", "v", "v", "f", "e"])
            evs.append((k, a, t))
            if k == "v":
                declared_tok.append(t)
        if r.random() < 0.08:
            evs.append(("s", r.choice(addrs), 0))
        if declared_tok and r.random() < 0.1:
            evs.append(("x", addrs[0], r.choice(declared_tok)))
    return "data %d " % n + " ".join("%s %s %d" % (k, core.hx(a), t) for k, a, t in evs), evs


def data_nontrivial(evs):
    seen = set()
    for k, a, t in evs:
        if k == "r" and a not in seen and any(k2 in "vfe" and a2 == a for k2, a2, _ in evs):
            return True
        if k in "vfe":
            seen.add(a)
    return False


def ext_lines_of(dump):
    """the `ext` strings parseClangAstDump hands to splitString"""
    out = []
    for line in dump.split("\n"):
        p1 = line.find("-")
        if p1 < 0:
            continue
        p2 = line.find(" ", p1)
        if p2 < p1 + 4:
            continue
        out.append(line[p2:])
    return out


def mutate_dump(r, dump):
    lines = dump.split("\n")
    k = r.random()
    body = [i for i, l in enumerate(lines) if "-" in l and "sloc" not in l]
    if not body:
        return dump
    i = r.choice(body)
    if k < 0.3:
        lines[i] = re.sub(r"<col:\d+", "<col:x", lines[i], 1)
    elif k < 0.5:
        lines[i] = re.sub(r"<(line|col):[^>]*>", "<bogus>", lines[i], 1)
    elif k < 0.7:
        lines = lines[:i]                                   # truncated output
    elif k < 0.85:
        lines[i] = re.sub(r"<(line|col):[^>]*>", "<>", lines[i], 1)
    else:
        lines[i] = re.sub(r" '[^']*'", "", lines[i], 1)      # a missing type field
    return "\n".join(lines)


# ---------------------------------------------------------------------------------------------------------
# the check
# ---------------------------------------------------------------------------------------------------------
KNOWN_KEYS = ("loc-line-inherited", "param-of-redeclared-function", "declarator-dropped", "not-analysed-interleaved-diagnostics",
              "call-of-redeclared-function", "use-via-using-declaration", "condition-variable-dropped")
# fixed in /repo (4904769, 62b103f, 683485c): "use-inside-sizeof", "member-nonodr-flag", "crash-interleaved-diagnostics" — their witnesses are
# still replayed on every run and must stay clean; the old behaviour coming back is a VIOLATION (and breaks the correspondence: the
# repaired behaviour is the only model)


def interleave(r, dump, text="1 warning generated.\n"):
    """what `clang … 2>&1` does to the AST text: a stderr line lands in the middle of a dump line"""
    lines = dump.split("\n")
    cand = [i for i, l in enumerate(lines) if "-" in l and len(l) > 12]
    if not cand:
        return dump
    i = r.choice(cand)
    k = r.randrange(1, min(len(lines[i]) - 1, 12))       # inside the indentation / the node type
    lines[i] = lines[i][:k] + text + lines[i][k:]
    return "\n".join(lines)


def load_witnesses():
    p = os.path.join(core.VERIF, "corpus", "C35", "witnesses.json")
    return json.load(open(p))["witnesses"] if os.path.exists(p) else []


def dump_op(c):
    return "dump %s %s %s" % (c["lang"], core.hx(src_name(c["lang"])), core.hx(c["dump"]))


def evaluate(c, line):
    """P_impl on one harness `dump` line.  Returns (violations [(key, text)], stats, note)"""
    if line.startswith("CRASH"):
        return [("crash", "the importer crashed: " + line)], {}, "crash"
    if line.startswith("exception"):
        return [("exception", "the importer left with an exception that is not an InternalError: " + line)], {}, "exception"
    toks = parse_dump_line(line)
    if toks is None:
        return [], {}, line.split(" ")[0] + " " + " ".join(line.split(" ")[1:2])       # InternalError: allowed outcome
    viol = [(k, t) for k, t in inv_problems(toks)]
    bad, stats, unaligned = link_problems(c, toks)
    viol += [(k, t) for k, t, _ in bad if k != "loc-col"]
    stats["col_mismatch"] = sum(1 for k, _, _ in bad if k == "loc-col")
    # MemberExpr printed with a trailing flag: the importer takes the address for the member name (token "0x…") and links nothing
    # (fixed by 62b103f; seen again = VIOLATION) MemberExpr printed with a trailing flag: member spelt with the address, unlinked
    nonodr = [u for u in c["truth"]["uses"] if u.get("nonodr") and u["via"] == "member"]
    if nonodr and any(re.match(r"^0x[0-9a-f]+$", t["str"]) for t in toks):
        viol.append(("member-nonodr-flag", "member use inside an unevaluated operand (source %d:%d): the token is spelt with the address and is unlinked" %
                     linecol(c["text"], nonodr[0]["off"])))
    for name, want, got in unaligned:
        viol.append(("occurrence-count", "entity %r: %d source occurrences, %d imported tokens" % (name, want, got)))
    return viol, stats, "ok"


def t_setters(ctx, res):
    """T: the premise of theorem group (i) on the REAL code — lib/clangimport.cpp touches the AST of a Token only through
    astOperand1(x) / astOperand2(x).  Fail closed: any other member call whose name starts with `ast`, any `createAst`, any
    `mAst…` field in the file breaks the obligation."""
    src = open(os.path.join(core.REPO, "lib", "clangimport.cpp"), encoding="utf-8", errors="replace").read()
    code = re.sub(r"//[^\n]*", "", re.sub(r"/\*.*?\*/", "", src, flags=re.S))
    code = re.sub(r'"([^"\\\n]|\\.)*"', '""', code)
    calls = re.findall(r"(?:->|\.)\s*(ast\w*)\s*\(\s*([^)\s]?)", code)
    writes = [(n, a) for n, a in calls if a]                     # a call with an argument = a setter
    other = sorted(set(n for n, a in writes if n not in ("astOperand1", "astOperand2")))
    extra = sorted(set(re.findall(r"\b(createAst\w*|mAst\w*|astParent|astTop)\b", code)))
    ok = len(writes) > 20 and not other and not extra
    res.extra["ast_setter_calls_in_clangimport"] = dict(astOperand_calls=len(writes), other_setters=other, other_ast_names=extra)
    res.oblig("T:clangimport-writes-the-AST-through-astOperand1/2-only", ok, "translation",
              "" if ok else "lib/clangimport.cpp: %d astOperand1/2 calls; other AST setters %s; other AST names %s — the premise of "
              "import_setters_only / import_ast_invariant (C14 reachable_inv) no longer holds for the real importer" % (len(writes), other, extra))


def run(ctx, res):
    import time
    rng = ctx.rng
    thorough = ctx.tier == "thorough"
    T = {}
    t0 = time.time()
    core.prove(ctx, res, MODULES, THEOREMS)
    drv = ctx.driver("drv_c35")
    exe = ctx.harness("c35")
    T["prove+build"] = round(time.time() - t0, 1)
    res.extra["phase_seconds"] = T
    t_setters(ctx, res)

    # ---- the witnesses of the findings (known and fixed) first ------------------------------------------------------------------
    wit = load_witnesses()
    wcases = [dict(lang=w["lang"], text=w["text"], layout="witness", stress=True, features=[], wkey=w["key"], name=w["name"]) for w in wit]
    clang_all(wcases)
    badw = [c["name"] for c in wcases if not c.get("clang_ok")]
    res.oblig("corpus:witnesses-accepted-by-clang", not badw, "machinery", "clang-14 rejects the witness programs %s" % badw)
    wcases = [c for c in wcases if c.get("clang_ok")]
    wout = run_robust(exe, [dump_op(c) for c in wcases]) if wcases else []
    for c, o in zip(wcases, wout):
        for u in (c.get("truth") or {}).get("uses", []):
            u.setdefault("nonodr", False)
        viol, stats, note = evaluate(c, o)
        hit = [v for v in viol if v[0] == c["wkey"]]
        res.case("witness|" + c["name"], True, dict(tie="witness", name=c["name"], key=c["wkey"], reproduces=bool(hit)))
        res.count("witness-%s:%s" % ("reproduces" if hit else "clean", c["wkey"]))
        if hit:      # a known finding prints KNOWN-FINDING; a fixed one has no entry of kind "finding" any more and is a VIOLATION
            res.violation("%s: %s" % (c["name"], hit[0][1]), dict(kind="program", lang=c["lang"], text=c["text"], key=c["wkey"], witness=c["name"]),
                          concrete=True, key=c["wkey"])
        for k, t in viol:
            if k != c["wkey"] and k not in KNOWN_KEYS:
                res.violation("witness %s: %s" % (c["name"], t), dict(kind="program", lang=c["lang"], text=c["text"], key=k), concrete=True, key=k)

    # ---- programs ------------------------------------------------------------------------------------------------------
    plan = [("c", "safe", False, 40 if thorough else 8), ("c", "free", False, 40 if thorough else 6), ("cpp", "safe", False, 40 if thorough else 7),
            ("cpp", "free", False, 40 if thorough else 6), ("c", "free", True, 30 if thorough else 4), ("cpp", "free", True, 30 if thorough else 4)]
    cases = []
    for lang, layout, stress, n in plan:
        for _ in range(n):
            cases.append(gen_program(rng, lang == "cpp", layout, stress))
    clang_all(cases, 8)
    bad_clang = [c for c in cases if not c.get("clang_ok")]
    res.oblig("generator:programs-accepted-by-clang", not bad_clang, "machinery",
              "" if not bad_clang else "%d generated programs were rejected by clang-14; first:\n%s" % (len(bad_clang), bad_clang[0]["text"][:600]))
    cases = [c for c in cases if c.get("clang_ok")]
    res.extra["clang_runs_cached"] = sum(1 for c in cases if c.get("cached"))
    for c in cases:
        for u in c["truth"]["uses"]:
            u.setdefault("nonodr", False)

    # ---- C-import ------------------------------------------------------------------------------------------------------
    ops = [dump_op(c) for c in cases]
    muts = []
    for c in rng.sample(cases, min(len(cases), 40 if thorough else 8)):
        m = dict(c)
        m["dump"] = mutate_dump(rng, c["dump"])
        m["mut"] = True
        muts.append(m)
    ops_m = [dump_op(c) for c in muts]
    impl = run_robust(exe, ops + ops_m)
    rc, model, err = core.run_lines(drv, [], ops + ops_m, timeout=1800)
    if len(model) != len(ops) + len(ops_m):
        res.oblig("correspondence:import", False, "correspondence", "driver returned %d lines for %d ops: %s" % (len(model), len(ops) + len(ops_m), err[-300:]))
    else:
        cmp_ops, cmp_i, cmp_m = [], [], []
        for k, (op, i, m) in enumerate(zip(ops + ops_m, impl, model)):
            c = (cases + muts)[k]
            tag = "%s/%s%s%s" % (c["lang"], c["layout"], "/stress" if c["stress"] else "", "/mutated" if c.get("mut") else "")
            if m.startswith("unsupported"):
                res.count("import-outside-model:" + m.split(" ", 1)[1][:40])
                continue
            if m.startswith("ub "):
                # the model says the C++ indexes out of range / dereferences null here: any behaviour of the implementation is consistent
                res.count("import-model-predicts-ub:" + m[3:40])
                continue
            res.count("import:" + tag)
            res.count("import-outcome:" + " ".join(i.split(" ")[:2]) if not i.startswith("ok") else "import-outcome:ok")
            cmp_ops.append("dump %s #%d %s" % (tag, k, hashlib.sha1(op.encode()).hexdigest()[:12]))
            cmp_i.append(i)
            cmp_m.append(m)
        nt = {o: (i.startswith("ok") and ":" in i) for o, i in zip(cmp_ops, cmp_i)}
        mism = core.correspond(ctx, res, "import", cmp_ops, cmp_i, cmp_m, nontrivial=lambda op, out: nt.get(op, True))
        if mism:
            k = int(cmp_ops[mism[0]].split("#")[1].split(" ")[0])
            c = (cases + muts)[k]
            a, b = cmp_i[mism[0]].split(" "), cmp_m[mism[0]].split(" ")
            d = next((j for j, (x, y) in enumerate(zip(a, b)) if x != y), min(len(a), len(b)))
            res.extra["import_mismatch"] = dict(lang=c["lang"], text=c["text"], mutated=bool(c.get("mut")), field=d, impl=a[max(0, d - 2):d + 2], model=b[max(0, d - 2):d + 2])

    T["clang+import"] = round(time.time() - t0, 1)
    # ---- the hypotheses of the theorems on the real inputs (evidence: how much of the real input the theorems speak about) ----
    eops = ["events %s %s %s" % (c["lang"], core.hx(src_name(c["lang"])), core.hx(c["dump"])) for c in cases]
    rc, eo, err = core.run_lines(drv, [], eops, timeout=900)
    hyp = dict(dumps=0, setters_only=0, addrs_unique=0, toks_fresh=0, objs_fresh=0, events=0, refs=0, refs_before_decl=0, all_hypotheses=0)
    for o in eo:
        if not o.startswith("ok "):
            continue
        f = dict(x.split("=") for x in o.split(" ")[1:])
        hyp["dumps"] += 1
        hyp["setters_only"] += f["via"] == "1"
        hyp["addrs_unique"] += f["u"] == "1"
        hyp["toks_fresh"] += f["f"] == "1"
        hyp["objs_fresh"] += f["o"] == "1"
        hyp["all_hypotheses"] += (f["u"], f["f"], f["o"], f["r"]) == ("1", "1", "1", "1")
        hyp["events"] += int(f["events"]); hyp["refs"] += int(f["refs"]); hyp["refs_before_decl"] += int(f["early"])
    res.extra["theorem_hypotheses_on_real_dumps"] = hyp
    res.oblig("hypotheses:use_links_referenced-applies-to-real-dumps", hyp["dumps"] > 0 and hyp["all_hypotheses"] * 10 >= hyp["dumps"] * 9 and
              hyp["setters_only"] == hyp["dumps"], "hypotheses",
              "" if hyp["dumps"] else "no dump was imported by the model: %s" % eo[:2])

    # ---- F35g: diagnostics interleaved into the dump (`2>&1` in CppCheck::checkClang) ------------------------------------------------
    # since 683485c a node that lost a child ends in getChild's InternalError (a crash is a VIOLATION again); what remains is that a
    # program clang accepts with a warning is not analysed: the import of the clean dump succeeds, the import of what checkClang reads throws
    ipath = os.path.join(core.VERIF, "corpus", "C35", "interleaved.json")
    icases = []
    if os.path.exists(ipath):
        w = json.load(open(ipath))
        wc = clang_case(dict(lang=w["lang"], text=w["text"]))
        icases.append(dict(lang=w["lang"], text=w["text"], dump=w["dump"], clean=wc.get("dump", ""), name=w["name"]))
    for c in rng.sample(cases, min(len(cases), 60 if thorough else 10)):
        icases.append(dict(lang=c["lang"], text=c["text"], dump=interleave(rng, c["dump"]), clean=c["dump"], name="synthetic"))
    iops = [dump_op(c) for c in icases] + [dump_op(dict(lang=c["lang"], dump=c["clean"])) for c in icases]
    ii = run_robust(exe, iops)
    rc, im_, err = core.run_lines(drv, [], iops[:len(icases)], timeout=900)
    cmp_o, cmp_a, cmp_b = [], [], []
    for k, c in enumerate(icases):
        a, clean = ii[k], ii[len(icases) + k]
        b = im_[k] if len(im_) == len(icases) else ""
        res.count("interleaved:" + ("crash" if a.startswith("CRASH") else ("ok" if a.startswith("ok") else " ".join(a.split(" ")[:2]))))
        if a.startswith("CRASH") or a.startswith("exception"):
            res.violation("%s: the importer %s on clang output with a diagnostic line written into the AST text; model: %s" %
                          (c["name"], "crashes" if a.startswith("CRASH") else "leaves with " + a[:60], b[:80]),
                          dict(kind="dump", lang=c["lang"], text=c["text"], dump=c["dump"], key="crash"), concrete=True, key="crash")
        elif a.startswith("throw") and clean.startswith("ok"):
            res.violation("%s: a program clang accepts is not analysed: the AST text read through `2>&1` has a diagnostic inside a dump line, "
                          "the import ends with InternalError (%s); the clean dump of the same program is imported" % (c["name"], a),
                          dict(kind="dump", lang=c["lang"], text=c["text"], dump=c["dump"], key="not-analysed-interleaved-diagnostics"),
                          concrete=True, key="not-analysed-interleaved-diagnostics")
        if b and not b.startswith(("ub ", "unsupported")) and not a.startswith("CRASH"):
            cmp_o.append("dump interleaved/%s #%d" % (c["name"], k)); cmp_a.append(a); cmp_b.append(b)
    core.correspond(ctx, res, "import-interleaved", cmp_o, cmp_a, cmp_b, nontrivial=lambda op, out: out.startswith("throw"))

    # ---- P_impl on the real importer -------------------------------------------------------------------------------------
    inv_ops, inv_cases = [], []
    agg = {}
    for c, o in zip(cases, impl[:len(cases)]):
        viol, stats, note = evaluate(c, o)
        for k, v in stats.items():
            agg[k] = agg.get(k, 0) + v
        res.count("p_impl-outcome:" + note)
        fam = "%s/%s%s" % (c["lang"], c["layout"], "/stress" if c["stress"] else "")
        for f in c["features"]:
            res.count("feature:" + f)
        seen = set()
        for k, t in viol:
            if k in seen:
                continue
            seen.add(k)
            res.count("p_impl-violation-class:" + k)
            res.violation("%s program: %s" % (fam, t), dict(kind="program", lang=c["lang"], text=c["text"], key=k, family=fam), concrete=True, key=k)
        toks = parse_dump_line(o)
        if toks is not None:
            inv_ops.append("inv %d %s" % (len(toks), " ".join("%s,%s,%s,%s" % tuple("-" if t[x] is None else t[x] for x in ("parent", "op1", "op2", "link")) +
                                                                    (",%d" % (ord(t["str"][0]) if t["str"] else 0)) for t in toks)))
            inv_cases.append(c)
    if agg.get("line_checked"):
        agg["lines_as_clang_means"] = "%d of %d aligned name tokens" % (agg["line_checked"] - agg.get("line_wrong", 0), agg["line_checked"])
    res.extra["p_impl"] = agg
    res.assumptions += [
        "clang-14's text and JSON dumps of one program describe the same AST (alignment of tokens with JSON occurrences by unique entity names and source order, vlib/props/c35.py align)",
        "the location specification in Lean (formOf/printRange) is TextNodeDumper::dumpLocation/dumpSourceRange of clang 14",
        "which declaration-map calls and AST setter calls the real importer issues is known through the sampled correspondence:import only (the theorems are about the model import and about the map / store)",
    ]
    # (1) once more, by the Lean checker whose soundness is a theorem
    if inv_ops:
        rc, io, err = core.run_lines(drv, [], inv_ops, timeout=900)
        badinv = [(c, o) for c, o in zip(inv_cases, io) if o != "inv=1 links=1"]
        res.oblig("p_impl:invariant-checker(lean)", len(io) == len(inv_ops) and not badinv, "p_impl",
                  "" if not badinv else "the verified checker rejects the imported token list: %s" % badinv[0][1])
        for c, o in badinv[:3]:
            res.violation("verified checker: %s" % o, dict(kind="program", lang=c["lang"], text=c["text"], key="inv-lean"), concrete=True, key="inv-lean")

    # ---- unit correspondences ------------------------------------------------------------------------------------------------
    lines = []
    for c in cases + wcases:
        lines += ext_lines_of(c["dump"])
    lines = sorted(set(lines))
    rng.shuffle(lines)
    lines = lines[:6000 if thorough else 1500] + [gen_split_line(rng) for _ in range(6000 if thorough else 1500)]
    nreal = min(len(lines), 6000 if thorough else 1500)
    sops = ["split " + core.hx(l) for l in lines]
    si = run_robust(exe, sops)
    rc, sm, err = core.run_lines(drv, [], sops)
    rc, cov, err = core.run_lines(drv, [], ["cover " + core.hx(l) for l in lines[:nreal]])
    res.extra["real_dump_lines_in_split_join_class"] = "%d of %d" % (sum(1 for x in cov if x == "1"), len(cov))
    grouped = {op: (" " in l.strip() and any(ch in l for ch in "<'\"")) for op, l in zip(sops, lines)}
    core.correspond(ctx, res, "split", sops, si, sm, nontrivial=lambda op, out: grouped.get(op, False))

    dops, devs = [], {}
    for _ in range(2000 if thorough else 400):
        op, evs = gen_data_ops(rng)
        dops.append(op)
        devs[op] = data_nontrivial(evs)
    di = run_robust(exe, dops)
    rc, dm, err = core.run_lines(drv, [], dops)
    core.correspond(ctx, res, "data", dops, di, dm, nontrivial=lambda op, out: devs.get(op, False))

    lops, lnt = [], {}
    for _ in range(2000 if thorough else 400):
        items = gen_loc_tree(rng)
        op = "loc " + ",".join("%d:%s" % (d, core.hx(e)) for d, e in items)
        lops.append(op)
        lnt[op] = loc_nontrivial(items)
    li = run_robust(exe, lops)
    rc, lm, err = core.run_lines(drv, [], lops)
    core.correspond(ctx, res, "loc", lops, li, lm, nontrivial=lambda op, out: lnt.get(op, False))

    T["unit-ops"] = round(time.time() - t0, 1)
    if thorough:
        cli(ctx, res, rng, cases)
    T["total"] = round(time.time() - t0, 1)


def cli(ctx, res, rng, cases):
    """`cppcheck --clang=clang-14 --dump` on generated programs: no crash, the dump satisfies C14's dump invariants"""
    from . import c14_dump
    import importlib.util
    spec = importlib.util.spec_from_file_location("cppcheckdata", os.path.join(core.REPO, "addons", "cppcheckdata.py"))
    cppcheckdata = importlib.util.module_from_spec(spec)
    try:
        spec.loader.exec_module(cppcheckdata)
    except Exception:
        cppcheckdata = None
    n_ok = 0
    # checkClang reads the AST from `clang … 2>&1`: diagnostics are interleaved INTO dump lines (`<col:67 warnings generated.`), the
    # import then bails out with an internal error (observation F35g, docs/C35.md).  The dump invariants are checked with a wrapper
    # that silences the diagnostics; the plain command is run as well and its bail-outs are counted.
    wrapper = os.path.join(ctx.tmp, "clang-quiet.sh")
    open(wrapper, "w").write("#!/bin/sh\nexec %s -w \"$@\"\n" % CLANG)
    os.chmod(wrapper, 0o755)
    for c in rng.sample(cases, min(len(cases), 16)):
        wd = os.path.join(ctx.tmp, "cli%d" % rng.getrandbits(30))
        os.makedirs(wd)
        fn = src_name(c["lang"])
        open(os.path.join(wd, fn), "w").write(c["text"])
        rc0, out0, err0 = core.sh([ctx.cppcheck, "--clang=" + CLANG, "--dump", "-q", fn], cwd=wd, timeout=300)
        res.count("cli-plain-exit:%d" % rc0)
        plain_crash = rc0 < 0 or rc0 >= 128
        plain_bailout = not os.path.exists(os.path.join(wd, fn + ".dump")) and "Processing Clang AST dump failed" in err0 + out0
        if not os.path.exists(os.path.join(wd, fn + ".dump")):
            res.count("cli-plain-bailout:" + ("interleaved-diagnostics" if plain_bailout else "other"))
        else:
            os.remove(os.path.join(wd, fn + ".dump"))
        rc, out, err = core.sh([ctx.cppcheck, "--clang=" + wrapper, "--dump", "-q", fn], cwd=wd, timeout=300)
        res.count("cli-exit:%d" % rc)
        if plain_crash:
            key = "cli-crash"
            res.violation("cppcheck --clang=%s --dump terminated abnormally (rc=%d); with diagnostics silenced rc=%d" % (CLANG, rc0, rc),
                          dict(kind="program", lang=c["lang"], text=c["text"], key=key), concrete=True, key=key)
        if rc < 0 or rc >= 128:
            res.violation("cppcheck --clang --dump terminated abnormally (rc=%d): %s" % (rc, err[-300:]),
                          dict(kind="program", lang=c["lang"], text=c["text"], key="cli-crash"), concrete=True, key="cli-crash")
            continue
        dp = os.path.join(wd, fn + ".dump")
        if plain_bailout and os.path.exists(dp):
            res.violation("cppcheck --clang=%s reports `%s` and does not analyse a program clang accepts; with clang's diagnostics silenced the same "
                          "program is analysed" % (CLANG, (err0 + out0).strip().split("\n")[0][:200]),
                          dict(kind="program", lang=c["lang"], text=c["text"], key="not-analysed-interleaved-diagnostics"), concrete=True,
                          key="not-analysed-interleaved-diagnostics")
        if not os.path.exists(dp):
            res.count("cli-no-dump")
            continue
        stats, problems = c14_dump.check_dump(dp, cppcheckdata)
        n_ok += 1
        for key, text in problems[:5]:
            res.count("cli-dump-problem:" + key)
            res.violation("--clang --dump output: %s: %s" % (key, text), dict(kind="program", lang=c["lang"], text=c["text"], key="cli-dump:" + key),
                          concrete=True, key="cli-dump:" + key)
    res.oblig("cli:dumps-produced", n_ok > 0, "p_impl", "no dump file was produced by cppcheck --clang=%s --dump" % CLANG)
    res.extra["cli_dumps_checked"] = n_ok


def replay(ctx, res, rp):
    """re-run one stored program: prints the violations it still shows; returns 1 if the stored class still occurs"""
    exe = ctx.harness("c35")
    c = dict(lang=rp.get("lang", "c"), text=rp["text"], layout="replay", stress=True, features=[])
    clang_case(c)
    if not c.get("clang_ok"):
        print("replay: clang rejects the program")
        return 1
    for u in c["truth"]["uses"]:
        u.setdefault("nonodr", False)
    if rp.get("dump"):        # a stored AST text (interleaved diagnostics)
        o = run_robust(exe, [dump_op(dict(lang=c["lang"], dump=rp["dump"]))])[0]
        clean = run_robust(exe, [dump_op(c)])[0]
        print("replay: stored AST text -> %s; clean dump of the program -> %s" % (o[:60], clean[:20]))
        bad = o.startswith(("CRASH", "exception")) or (o.startswith("throw") and clean.startswith("ok"))
        print("replay: stored class %r %s" % (rp.get("key"), "still occurs" if bad else "no longer occurs"))
        return 1 if bad else 0
    o = run_robust(exe, [dump_op(c)])[0]
    viol, stats, note = evaluate(c, o)
    hit = [v for v in viol if v[0] == rp.get("key")]
    for k, t in viol:
        print("replay: %s: %s" % (k, t))
    print("replay: outcome=%s, stored class %r %s" % (note, rp.get("key"), "still occurs" if hit else "no longer occurs"))
    return 1 if hit else 0

"""C35 — Clang-AST import yields a consistent program model.

Obligations
  theorems   Cppcheck.C35.* (Lean): line splitter round trip, address-keyed declaration map (uses before and after declarations),
             location tokens, AST setter discipline of the import, verified invariant checker
  C-split    real `splitString` (textual include of the working tree's lib/clangimport.cpp) == model, on clang-shaped and hostile lines
  C-data     real `clangimport::Data` driven with event sequences == model
  C-loc      real `AstNode::setLocations` on node trees == model
  C-import   real `clangimport::parseClangAstDump` on clang-14 dumps of generated C / C++ programs == model import (token list, links,
             AST operands, varIds, variable / function / enumerator links), for the node kinds the model supports
P_impl       on the real importer, for every generated program clang accepts:
             (1) AstStore invariant + symmetric, nested links on the imported token list (re-checked by the verified Lean checker),
             (2) every variable use is linked to the declaration clang's JSON dump names (`referencedDecl` / `referencedMemberDecl`),
             (3) no crash, no exception other than InternalError,
             (4) the line of every name token is the line clang means.
"""
import concurrent.futures, hashlib, json, os, re, subprocess
from .. import core, build_repo

ID = "C35"
LEVEL = "other"
RULE = ("cases = clang-14 text dumps of generated C and C++ programs (globals, structs, enums, typedefs, functions with parameters, "
        "locals, arrays, pointers, calls, member access, casts, sizeof, if/else, while, do, for, switch, goto; C++: classes with "
        "fields, constructors and methods, namespaces, references, new/delete, casts, bool/nullptr), every entity with a unique "
        "name, in a safe layout (one statement per line) and a free layout (line breaks inside headers and expressions); plus "
        "generated splitter lines, declaration-map event sequences and location trees; non-trivial = the program has a variable "
        "use that is linked (dump cases), the line has a grouped field (split), a use precedes its declaration (data), a relative "
        "location follows a line change (loc)")
EXPLANATION = ("Lean theorems: the importer's line splitter inverts clang's field joining for the field shapes clang emits; the "
               "address-keyed declaration map links every use to the declaration with the referenced address whatever the order of "
               "uses and declarations; location tokens resolve to clang's location exactly when the inherited line is clang's last "
               "printed line (the importer inherits from the parent node instead: counterexample theorem, finding F35a); the model "
               "import issues only astOperand1/astOperand2 calls, so C14's AstStore invariant holds for every imported token list; "
               "the invariant checker run on the real token list is proved sound. Tie: the real splitString/Data/setLocations and "
               "the real parseClangAstDump in-process against the compiled model. Level 'other': the property quantifies over all "
               "programs clang accepts; the model import covers the node kinds listed in Model/ClangDeclMap.lean `supported`; "
               "outside the model: scopes, types, value types, templates, range-for, out-of-line member definitions, never-crash "
               "for arbitrary programs (sampled only), ValueFlow and the checks after the import.")
THEOREMS = []
MODULES = []

CACHE = os.path.join(core.VERIF, ".build", "cache", "c35")
CLANG = "clang-14"


# ---------------------------------------------------------------------------------------------------------
# program generator
# ---------------------------------------------------------------------------------------------------------
class Gen:
    """Generates one translation unit.  Every declared entity gets a unique name (kind prefix + counter) so that a token of the
    imported list can be aligned with the source occurrence it stands for without trusting locations."""

    def __init__(self, rng, cpp, layout, stress=False):
        self.r, self.cpp, self.layout, self.stress = rng, cpp, layout, stress
        self.n = 0
        self.out = []
        self.globals = []      # (name, kind) kind: int | arr | ptr | struct:<S> | sptr:<S>
        self.structs = {}      # name -> [field names]
        self.funcs = []        # (name, nparams)
        self.enums = []        # enumerator names
        self.typedefs = []
        self.classes = {}      # name -> dict(fields, methods[(name, nparams)])
        self.features = set()
        self.ret = "int"

    def fresh(self, p):
        self.n += 1
        return "%s%d" % (p, self.n)

    # ---- layout ----
    def brk(self, ind, p=0.25):
        """optional line break inside a construct (free layout only)"""
        if self.layout == "free" and self.r.random() < p:
            self.features.add("linebreak")
            return "\n" + " " * (ind + 4)
        return " "

    # ---- expressions ----
    def ints(self, env):
        return [n for n, k in env if k in ("int", "num")]

    def args_for(self, kinds, env, ind, d):
        """argument expressions matching the parameter kinds of a callable, or None"""
        out = []
        for k in kinds:
            if k in ("int", "num"):
                out.append(self.expr(env, ind, d + 1))
            elif k == "ptr":
                ps = [n for n, kk in env if kk == "ptr"] + ["&" + n for n, kk in env if kk == "int" and "::" not in n]
                if not ps:
                    return None
                out.append(self.r.choice(ps))
            elif k.startswith("sptr:"):
                s = k.split(":")[1]
                ps = [n for n, kk in env if kk == "sptr:" + s] + ["&" + n for n, kk in env if kk == "struct:" + s]
                if not ps:
                    return None
                out.append(self.r.choice(ps))
            elif k.startswith("struct:"):
                ps = [n for n, kk in env if kk == k]
                if not ps:
                    return None
                out.append(self.r.choice(ps))
            else:
                return None
        return out

    def atom(self, env, ind):
        r = self.r
        c = r.random()
        iv = self.ints(env)
        if c < 0.45 and iv:
            return r.choice(iv)
        if c < 0.55:
            return str(r.choice([0, 1, 2, 3, 7, 10, 42, 100, 255]))
        if c < 0.60:
            return r.choice(["'a'", "'0'", "'\\n'", "'\\0'", "'z'"])
        if c < 0.68:
            arrs = [n for n, k in env if k == "arr"]
            if arrs:
                return "%s[%s]" % (r.choice(arrs), r.choice(iv) if iv and r.random() < 0.5 else str(r.randrange(3)))
        if c < 0.78:
            ss = [(n, k) for n, k in env if k.startswith("struct:") or k.startswith("sptr:")]
            if ss:
                n, k = r.choice(ss)
                fields = self.fields_of(k.split(":")[1])
                if fields:
                    self.features.add("member")
                    return "%s%s%s" % (n, "." if k.startswith("struct:") else "->", r.choice(fields))
        if c < 0.83:
            ps = [n for n, k in env if k == "ptr"]
            if ps:
                return "*" + r.choice(ps)
        if c < 0.88 and self.enums:
            self.features.add("enumuse")
            return r.choice(self.enums)
        if c < 0.91 and iv:
            return "sizeof(%s)" % r.choice(iv) if r.random() < 0.6 else "sizeof(int)"
        if c < 0.95 and self.cpp:
            return r.choice(["true", "false"])
        if iv:
            return r.choice(iv)
        return "1"

    def fields_of(self, s):
        if s in self.structs:
            return self.structs[s]
        if s in self.classes:
            return self.classes[s]["fields"]
        return []

    def expr(self, env, ind, d=0):
        r = self.r
        c = r.random()
        if d >= 3 or c < 0.35:
            return self.atom(env, ind)
        if c < 0.65:
            op = r.choice(["+", "-", "*", "/", "%", "<", ">", "<=", ">=", "==", "!=", "&&", "||", "&", "|", "^", "<<", ">>"])
            return "%s %s%s%s" % (self.expr(env, ind, d + 1), op, self.brk(ind, 0.12), self.expr(env, ind, d + 1))
        if c < 0.72:
            return "(%s)" % self.expr(env, ind, d + 1)
        if c < 0.78:
            return "%s%s" % (r.choice(["-", "!", "~"]), self.atom(env, ind))
        if c < 0.83:
            return "%s ?%s%s : %s" % (self.expr(env, ind, d + 1), self.brk(ind, 0.1), self.expr(env, ind, d + 1), self.expr(env, ind, d + 1))
        if c < 0.90:
            fs = [x for x in self.funcs if x[2] != "void"]
            if fs:
                f, kinds, ret = r.choice(fs)
                args = self.args_for(kinds, env, ind, d)
                if args is not None:
                    self.features.add("call")
                    return "%s(%s)" % (f, ("," + self.brk(ind, 0.2)).join(args))
        if c < 0.94:
            if self.cpp and r.random() < 0.5:
                return "static_cast<%s>(%s)" % (r.choice(["long", "int", "char"]), self.expr(env, ind, d + 1))
            return "(%s)%s" % (r.choice(["long", "int", "char", "unsigned"]), self.atom(env, ind))
        if c < 0.97:
            iv = self.ints(env)
            if iv:
                return r.choice(iv) + r.choice(["++", "--"])
        return self.atom(env, ind)

    def lvalue(self, env):
        r = self.r
        cands = [n for n, k in env if k in ("int", "num")]
        arrs = [n for n, k in env if k == "arr"]
        ss = [(n, k) for n, k in env if (k.startswith("struct:") or k.startswith("sptr:")) and self.fields_of(k.split(":")[1])]
        c = r.random()
        if c < 0.15 and arrs:
            return "%s[%d]" % (r.choice(arrs), r.randrange(3))
        if c < 0.35 and ss:
            n, k = r.choice(ss)
            return "%s%s%s" % (n, "." if k.startswith("struct:") else "->", r.choice(self.fields_of(k.split(":")[1])))
        if cands:
            return r.choice(cands)
        return None

    # ---- statements ----
    def local_decl(self, env, ind):
        r = self.r
        pad = " " * ind
        c = r.random()
        if c < 0.5:
            v = self.fresh("lv")
            init = " =%s%s" % (self.brk(ind, 0.15), self.expr(env, ind)) if r.random() < 0.7 else ""
            ty = r.choice(["int", "int", "int", "long", "unsigned", "char", "short"] + self.typedefs)
            kind = "int" if ty == "int" else "num"
            line = "%s%s %s%s" % (pad, ty, v, init)
            new = [(v, kind)]
            if r.random() < 0.2:
                v2 = self.fresh("lv")
                line += ", %s" % v2 + (" = %s" % self.atom(env, ind) if r.random() < 0.5 else "")
                new.append((v2, kind))
                self.features.add("multidecl")
            return line + ";", new
        if c < 0.62:
            v = self.fresh("la")
            if r.random() < 0.5:
                self.features.add("initlist")
                exact = [n for n, k in env if k == "int"] + ["1", "2", "42"]
                return "%sint %s[3] = {%s};" % (pad, v, ", ".join(r.choice(exact) for _ in range(3))), [(v, "arr")]
            return "%sint %s[3];" % (pad, v), [(v, "arr")]
        if c < 0.75 and (self.structs or self.classes):
            s = r.choice(list(self.structs) + [k for k in self.classes if not self.classes[k].get("ctorargs")])
            v = self.fresh("ls")
            kw = "struct " if (s in self.structs and (not self.cpp or r.random() < 0.5)) else ""
            return "%s%s%s %s;" % (pad, kw, s, v), [(v, "struct:" + s)]
        if c < 0.85:
            iv = [n for n, k in env if k == "int" and "::" not in n]
            if iv:
                v = self.fresh("lp")
                self.features.add("pointer")
                return "%sint *%s = &%s;" % (pad, v, r.choice(iv)), [(v, "ptr")]
        if c < 0.92:
            ss = [(n, k) for n, k in env if k.startswith("struct:")]
            if ss:
                n, k = r.choice(ss)
                s = k.split(":")[1]
                v = self.fresh("lq")
                kw = "struct " if s in self.structs and not self.cpp else ""
                return "%s%s%s *%s = &%s;" % (pad, kw, s, v, n), [(v, "sptr:" + s)]
        if self.stress and r.random() < 0.5:
            v = self.fresh("lv")
            self.features.add("staticlocal")
            return "%sstatic int %s = 0;" % (pad, v), [(v, "int")]
        v = self.fresh("lv")
        return "%sint %s = %s;" % (pad, v, self.expr(env, ind)), [(v, "int")]

    def block(self, env, ind, d, inloop, insw=False):
        """statements of a compound statement; returns list of lines"""
        lines = []
        env = list(env)
        for _ in range(self.r.randrange(1, 4 if d else 6)):
            ls, new = self.stmt(env, ind, d, inloop, insw)
            lines += ls
            env += new
        return lines

    def body(self, env, ind, d, inloop, head, insw=False):
        """`head {` … `}` in the current layout"""
        pad = " " * ind
        inner = self.block(env, ind + 2, d + 1, inloop, insw)
        if self.layout == "free" and self.r.random() < 0.3:
            self.features.add("brace-on-own-line")
            return [pad + head, pad + "{"] + inner + [pad + "}"]
        return [pad + head + " {"] + inner + [pad + "}"]

    def stmt(self, env, ind, d, inloop, insw=False):
        r = self.r
        pad = " " * ind
        c = r.random()
        if c < 0.22:
            l, new = self.local_decl(env, ind)
            return [l], new
        if c < 0.42:
            lv = self.lvalue(env)
            if lv:
                op = r.choice(["=", "=", "=", "+=", "-=", "*=", "|=", "&="])
                return ["%s%s %s%s%s;" % (pad, lv, op, self.brk(ind, 0.15), self.expr(env, ind))], []
        if c < 0.52 and d < 3:
            self.features.add("if")
            ls = self.body(env, ind, d, inloop, "if (%s)" % self.expr(env, ind), insw)
            if r.random() < 0.5:
                self.features.add("else")
                els = self.body(env, ind, d, inloop, "else", insw)
                if self.layout == "free" and r.random() < 0.6 and ls[-1].strip() == "}" and els[0].strip().startswith("else"):
                    self.features.add("cuddled-else")
                    els[0] = ls[-1] + " " + els[0].strip()
                    ls = ls[:-1]
                ls += els
            return ls, []
        if c < 0.57 and d < 3:
            lv = self.lvalue(env)
            if lv and r.random() < 0.5:
                self.features.add("if-nobrace")
                return ["%sif (%s)" % (pad, self.expr(env, ind)), "%s  %s = %s;" % (pad, lv, self.expr(env, ind))], []
        if c < 0.64 and d < 3:
            self.features.add("while")
            return self.body(env, ind, d, True, "while (%s)" % self.expr(env, ind)), []
        if c < 0.69 and d < 3:
            self.features.add("do")
            ls = self.body(env, ind, d, True, "do")
            ls[-1] += " while (%s);" % self.expr(env, ind)
            return ls, []
        if c < 0.78 and d < 3:
            self.features.add("for")
            iv = self.ints(env)
            if r.random() < 0.6 or not iv:
                v = self.fresh("li")
                env2 = env + [(v, "int")]
                init = "int %s = %s" % (v, self.atom(env, ind))
            else:
                v = r.choice(iv)
                env2 = env
                init = "%s = 0" % v if r.random() < 0.8 else ""
            cond = "%s < %s" % (v, self.atom(env2, ind)) if r.random() < 0.9 else ""
            inc = r.choice(["%s++" % v, "++%s" % v, "%s += 2" % v, ""])
            head = "for (%s;%s%s;%s%s)" % (init, self.brk(ind, 0.15), cond, self.brk(ind, 0.15), inc)
            return self.body(env2, ind, d, True, head), []
        if c < 0.82 and d < 2:
            self.features.add("switch")
            ls = [pad + "switch (%s) {" % self.expr(env, ind)]
            for k in range(r.randrange(1, 4)):
                ls.append(pad + "case %d:" % (k * 3 + 1))
                lv = self.lvalue(env)
                if lv:
                    ls.append("%s  %s = %s;" % (pad, lv, self.expr(env, ind)))
                if r.random() < 0.8:
                    ls.append(pad + "  break;")
            if r.random() < 0.6:
                ls.append(pad + "default:")
                ls.append(pad + "  break;")
            ls.append(pad + "}")
            return ls, []
        if c < 0.86 and inloop:
            return [pad + r.choice(["break;", "continue;"])], []
        if c < 0.90 and self.funcs:
            f, kinds, ret = r.choice(self.funcs)
            args = self.args_for(kinds, env, ind, 1)
            if args is not None:
                self.features.add("callstmt")
                return ["%s%s(%s);" % (pad, f, ("," + self.brk(ind, 0.25)).join(args))], []
        if c < 0.93:
            if self.ret == "void":
                return [pad + "return;"], []
            return ["%sreturn %s;" % (pad, self.expr(env, ind))], []
        if c < 0.95 and self.cpp:
            iv = self.ints(env)
            v = self.fresh("lp")
            self.features.add("new")
            return ["%sint *%s = new int;" % (pad, v), "%sdelete %s;" % (pad, v)], [(v, "ptr")]
        if c < 0.97 and d < 3:
            return [pad + "{"] + self.block(env, ind + 2, d + 1, inloop, insw) + [pad + "}"], []
        lv = self.lvalue(env)
        if lv:
            return ["%s%s = %s;" % (pad, lv, self.expr(env, ind))], []
        return [pad + ";"], []

    # ---- top level ----
    def params(self, n, ind=0):
        ps = []
        env = []
        for _ in range(n):
            p = self.fresh("pa")
            c = self.r.random()
            if c < 0.7:
                ty = self.r.choice(["int", "int", "long", "unsigned", "char"])
                ps.append("%s %s" % (ty, p)); env.append((p, "int" if ty == "int" else "num"))
            elif c < 0.8:
                ps.append("int *%s" % p); env.append((p, "ptr"))
            elif c < 0.9 and (self.structs or self.classes):
                s = self.r.choice(list(self.structs) + list(self.classes))
                kw = "struct " if s in self.structs and not self.cpp else ""
                if self.cpp and self.r.random() < 0.5:
                    ps.append("%s%s &%s" % (kw, s, p)); env.append((p, "struct:" + s))
                    self.features.add("reference")
                else:
                    ps.append("%s%s *%s" % (kw, s, p)); env.append((p, "sptr:" + s))
            else:
                ps.append("int %s" % p); env.append((p, "int"))
        sep = "," + ("\n" + " " * 8 if self.layout == "free" and self.r.random() < 0.4 and n > 1 else " ")
        if "\n" in sep:
            self.features.add("params-on-lines")
        return sep.join(ps) if ps else ("void" if not self.cpp else ""), env

    def function(self, name=None, ind=0, extra_env=(), ret=None, qual="", proto_ok=True):
        r = self.r
        f = name or self.fresh("fn")
        n = r.randrange(0, 4)
        ps, penv = self.params(n, ind)
        ret = ret or r.choice(["int", "int", "long", "void", "unsigned"])
        self.ret = ret
        pad = " " * ind
        lines = []
        static = "static " if (r.random() < 0.15 and not qual and ind == 0) else ""
        if self.stress and proto_ok and r.random() < 0.5:
            # a prototype first: parameter names are declared again in the definition (F35b/F35c)
            self.features.add("prototype")
            lines.append("%s%s%s %s(%s);" % (pad, static, ret, f, ps.replace("\n", " ")))
        env = self.globals + list(extra_env) + penv
        head = "%s%s %s(%s)%s" % (static, ret, f, ps, qual)
        if self.layout == "free" and r.random() < 0.25:
            self.features.add("brace-on-own-line")
            lines += [pad + head, pad + "{"]
        else:
            lines += [pad + head + " {"]
        lines += self.block(env, ind + 2, 0, False)
        if ret != "void":
            lines.append("%s  return %s;" % (pad, self.expr(env, ind + 2)))
        lines.append(pad + "}")
        return f, [k for _, k in penv], ret, lines

    def program(self):
        r = self.r
        out = []
        nglob = r.randrange(1, 5)
        for _ in range(nglob):
            c = r.random()
            if c < 0.4:
                g = self.fresh("gv")
                out.append("%sint %s%s;" % (r.choice(["", "", "static "]), g, " = %d" % r.randrange(50) if r.random() < 0.6 else ""))
                self.globals.append((g, "int"))
            elif c < 0.6:
                s = self.fresh("St")
                fs = [self.fresh("fm") for _ in range(r.randrange(1, 4))]
                if self.layout == "free" and r.random() < 0.5:
                    out.append("struct %s { %s };" % (s, " ".join("int %s;" % f for f in fs)))
                else:
                    out += ["struct %s {" % s] + ["  int %s;" % f for f in fs] + ["};"]
                self.structs[s] = fs
                if r.random() < 0.6:
                    g = self.fresh("gs")
                    out.append("struct %s %s;" % (s, g))
                    self.globals.append((g, "struct:" + s))
            elif c < 0.72:
                e = self.fresh("En")
                ks = [self.fresh("EK") for _ in range(r.randrange(1, 4))]
                out.append("enum %s { %s };" % (e, ", ".join(ks)))
                self.enums += ks
                self.features.add("enum")
            elif c < 0.8:
                t = self.fresh("Ty")
                out.append("typedef int %s;" % t)
                self.typedefs.append(t)
                self.features.add("typedef")
            elif c < 0.9:
                g = self.fresh("ga")
                out.append("int %s[4];" % g)
                self.globals.append((g, "arr"))
            else:
                g = self.fresh("gv")
                out.append("int %s = %d;" % (g, r.randrange(9)))
                self.globals.append((g, "int"))
        if self.cpp:
            for _ in range(r.randrange(0, 3)):
                out += self.klass()
            if r.random() < 0.4:
                ns = self.fresh("ns")
                g = self.fresh("gv")
                self.features.add("namespace")
                f, kinds, ret, ls = self.function(ind=2, proto_ok=False)
                out += ["namespace %s {" % ns, "  int %s = 2;" % g] + ls + ["}"]
                self.globals.append(("%s::%s" % (ns, g), "int"))
                self.funcs.append(("%s::%s" % (ns, f), kinds, ret))
        for _ in range(r.randrange(1, 4)):
            f, kinds, ret, ls = self.function()
            out += ls
            self.funcs.append((f, kinds, ret))
        return "\n".join(out) + "\n"

    def klass(self):
        r = self.r
        c = self.fresh("Cl")
        kw = r.choice(["class", "struct"])
        fs = [self.fresh("fm") for _ in range(r.randrange(1, 3))]
        lines = ["%s %s {" % (kw, c)]
        if kw == "class":
            lines.append("public:")
        lines += ["  int %s;" % f for f in fs]
        info = dict(fields=fs, methods=[])
        fenv = [(f, "int") for f in fs]
        if r.random() < 0.5:
            self.features.add("ctor")
            lines.append("  %s() : %s(0) { %s = 1; }" % (c, fs[0], fs[-1]))
        if r.random() < 0.25:
            lines.append("  ~%s() { }" % c)
            self.features.add("dtor")
        for _ in range(r.randrange(0, 3)):
            m = self.fresh("me")
            qual = " const" if r.random() < 0.25 else ""
            self.features.add("method")
            f, kinds, ret, ls = self.function(name=m, ind=2, extra_env=fenv if not qual else [], ret="int", qual=qual, proto_ok=False)
            lines += ls
            info["methods"].append((m, kinds))
        if kw == "class" and r.random() < 0.3:
            lines.append("private:")
            p = self.fresh("fm")
            lines.append("  int %s;" % p)
        lines.append("};")
        self.classes[c] = info
        return lines


def gen_program(rng, cpp, layout, stress=False):
    g = Gen(rng, cpp, layout, stress)
    text = g.program()
    return dict(lang="cpp" if cpp else "c", layout=layout, stress=stress, text=text, features=sorted(g.features))

"""C35 — Clang-AST import yields a consistent program model.

Obligations
  theorems   Cppcheck.C35.* (Lean): line splitter round trip, address-keyed declaration map (uses before and after declarations),
             location tokens, AST setter discipline of the import, verified invariant checker
  C-split    real `splitString` (textual include of the working tree's lib/clangimport.cpp) == model, on clang-shaped and hostile lines
  C-data     real `clangimport::Data` driven with event sequences == model
  C-loc      real `AstNode::setLocations` on node trees == model
  C-import   real `clangimport::parseClangAstDump` on clang-14 dumps of generated C / C++ programs == model import (token list, links,
             AST operands, varIds, variable / function / enumerator links), for the node kinds the model supports
P_impl       on the real importer, for every generated program clang accepts:
             (1) AstStore invariant + symmetric, nested links on the imported token list (re-checked by the verified Lean checker),
             (2) every variable use is linked to the declaration clang's JSON dump names (`referencedDecl` / `referencedMemberDecl`),
             (3) no crash, no exception other than InternalError,
             (4) the line of every name token is the line clang means.
"""
import concurrent.futures, hashlib, json, os, re, subprocess
from .. import core, build_repo

ID = "C35"
LEVEL = "other"
RULE = ("cases = clang-14 text dumps of generated C and C++ programs (globals, structs, enums, typedefs, functions with parameters, "
        "locals, arrays, pointers, calls, member access, casts, sizeof, if/else, while, do, for, switch, goto; C++: classes with "
        "fields, constructors and methods, namespaces, references, new/delete, casts, bool/nullptr), every entity with a unique "
        "name, in a safe layout (one statement per line) and a free layout (line breaks inside headers and expressions); plus "
        "generated splitter lines, declaration-map event sequences and location trees; non-trivial = the program has a variable "
        "use that is linked (dump cases), the line has a grouped field (split), a use precedes its declaration (data), a relative "
        "location follows a line change (loc)")
EXPLANATION = ("Lean theorems: the importer's line splitter inverts clang's field joining for the field shapes clang emits; the "
               "address-keyed declaration map links every use to the declaration with the referenced address whatever the order of "
               "uses and declarations; location tokens resolve to clang's location exactly when the inherited line is clang's last "
               "printed line (the importer inherits from the parent node instead: counterexample theorem, finding F35a); the model "
               "import issues only astOperand1/astOperand2 calls, so C14's AstStore invariant holds for every imported token list; "
               "the invariant checker run on the real token list is proved sound. Tie: the real splitString/Data/setLocations and "
               "the real parseClangAstDump in-process against the compiled model. Level 'other': the property quantifies over all "
               "programs clang accepts; the model import covers the node kinds listed in Model/ClangDeclMap.lean `supported`; "
               "outside the model: scopes, types, value types, templates, range-for, out-of-line member definitions, never-crash "
               "for arbitrary programs (sampled only), ValueFlow and the checks after the import.")
THEOREMS = []
MODULES = []

CACHE = os.path.join(core.VERIF, ".build", "cache", "c35")
CLANG = "clang-14"


# ---------------------------------------------------------------------------------------------------------
# program generator
# ---------------------------------------------------------------------------------------------------------
class Gen:
    """Generates one translation unit.  Every declared entity gets a unique name (kind prefix + counter) so that a token of the
    imported list can be aligned with the source occurrence it stands for without trusting locations."""

    def __init__(self, rng, cpp, layout, stress=False):
        self.r, self.cpp, self.layout, self.stress = rng, cpp, layout, stress
        self.n = 0
        self.out = []
        self.globals = []      # (name, kind) kind: int | arr | ptr | struct:<S> | sptr:<S>
        self.structs = {}      # name -> [field names]
        self.funcs = []        # (name, nparams)
        self.enums = []        # enumerator names
        self.typedefs = []
        self.classes = {}      # name -> dict(fields, methods[(name, nparams)])
        self.features = set()
        self.ret = "int"

    def fresh(self, p):
        self.n += 1
        return "%s%d" % (p, self.n)

    # ---- layout ----
    def brk(self, ind, p=0.25):
        """optional line break inside a construct (free layout only)"""
        if self.layout == "free" and self.r.random() < p:
            self.features.add("linebreak")
            return "\n" + " " * (ind + 4)
        return " "

    # ---- expressions ----
    def ints(self, env):
        return [n for n, k in env if k in ("int", "num")]

    def args_for(self, kinds, env, ind, d):
        """argument expressions matching the parameter kinds of a callable, or None"""
        out = []
        for k in kinds:
            if k in ("int", "num"):
                out.append(self.expr(env, ind, d + 1))
            elif k == "ptr":
                ps = [n for n, kk in env if kk == "ptr"] + ["&" + n for n, kk in env if kk == "int" and "::" not in n]
                if not ps:
                    return None
                out.append(self.r.choice(ps))
            elif k.startswith("sptr:"):
                s = k.split(":")[1]
                ps = [n for n, kk in env if kk == "sptr:" + s] + ["&" + n for n, kk in env if kk == "struct:" + s]
                if not ps:
                    return None
                out.append(self.r.choice(ps))
            elif k.startswith("struct:"):
                ps = [n for n, kk in env if kk == k]
                if not ps:
                    return None
                out.append(self.r.choice(ps))
            else:
                return None
        return out

    def atom(self, env, ind):
        r = self.r
        c = r.random()
        iv = self.ints(env)
        if c < 0.45 and iv:
            return r.choice(iv)
        if c < 0.55:
            return str(r.choice([0, 1, 2, 3, 7, 10, 42, 100, 255]))
        if c < 0.60:
            return r.choice(["'a'", "'0'", "'\\n'", "'\\0'", "'z'"])
        if c < 0.68:
            arrs = [n for n, k in env if k == "arr"]
            if arrs:
                return "%s[%s]" % (r.choice(arrs), r.choice(iv) if iv and r.random() < 0.5 else str(r.randrange(3)))
        if c < 0.78:
            ss = [(n, k) for n, k in env if k.startswith("struct:") or k.startswith("sptr:")]
            if ss:
                n, k = r.choice(ss)
                fields = self.fields_of(k.split(":")[1])
                if fields:
                    self.features.add("member")
                    return "%s%s%s" % (n, "." if k.startswith("struct:") else "->", r.choice(fields))
        if c < 0.83:
            ps = [n for n, k in env if k == "ptr"]
            if ps:
                return "*" + r.choice(ps)
        if c < 0.88 and self.enums:
            self.features.add("enumuse")
            return r.choice(self.enums)
        if c < 0.91 and iv:
            return "sizeof(%s)" % r.choice(iv) if r.random() < 0.6 else "sizeof(int)"
        if c < 0.95 and self.cpp:
            return r.choice(["true", "false"])
        if iv:
            return r.choice(iv)
        return "1"

    def fields_of(self, s):
        if s in self.structs:
            return self.structs[s]
        if s in self.classes:
            return self.classes[s]["fields"]
        return []

    def expr(self, env, ind, d=0):
        r = self.r
        c = r.random()
        if d >= 3 or c < 0.35:
            return self.atom(env, ind)
        if c < 0.65:
            op = r.choice(["+", "-", "*", "/", "%", "<", ">", "<=", ">=", "==", "!=", "&&", "||", "&", "|", "^", "<<", ">>"])
            return "%s %s%s%s" % (self.expr(env, ind, d + 1), op, self.brk(ind, 0.12), self.expr(env, ind, d + 1))
        if c < 0.72:
            return "(%s)" % self.expr(env, ind, d + 1)
        if c < 0.78:
            return "%s%s" % (r.choice(["-", "!", "~"]), self.atom(env, ind))
        if c < 0.83:
            return "%s ?%s%s : %s" % (self.expr(env, ind, d + 1), self.brk(ind, 0.1), self.expr(env, ind, d + 1), self.expr(env, ind, d + 1))
        if c < 0.90:
            fs = [x for x in self.funcs if x[2] != "void"]
            if fs:
                f, kinds, ret = r.choice(fs)
                args = self.args_for(kinds, env, ind, d)
                if args is not None:
                    self.features.add("call")
                    return "%s(%s)" % (f, ("," + self.brk(ind, 0.2)).join(args))
        if c < 0.94:
            if self.cpp and r.random() < 0.5:
                return "static_cast<%s>(%s)" % (r.choice(["long", "int", "char"]), self.expr(env, ind, d + 1))
            return "(%s)%s" % (r.choice(["long", "int", "char", "unsigned"]), self.atom(env, ind))
        if c < 0.97:
            iv = self.ints(env)
            if iv:
                return r.choice(iv) + r.choice(["++", "--"])
        return self.atom(env, ind)

    def lvalue(self, env):
        r = self.r
        cands = [n for n, k in env if k in ("int", "num")]
        arrs = [n for n, k in env if k == "arr"]
        ss = [(n, k) for n, k in env if (k.startswith("struct:") or k.startswith("sptr:")) and self.fields_of(k.split(":")[1])]
        c = r.random()
        if c < 0.15 and arrs:
            return "%s[%d]" % (r.choice(arrs), r.randrange(3))
        if c < 0.35 and ss:
            n, k = r.choice(ss)
            return "%s%s%s" % (n, "." if k.startswith("struct:") else "->", r.choice(self.fields_of(k.split(":")[1])))
        if cands:
            return r.choice(cands)
        return None

    # ---- statements ----
    def local_decl(self, env, ind):
        r = self.r
        pad = " " * ind
        c = r.random()
        if c < 0.5:
            v = self.fresh("lv")
            init = " =%s%s" % (self.brk(ind, 0.15), self.expr(env, ind)) if r.random() < 0.7 else ""
            ty = r.choice(["int", "int", "int", "long", "unsigned", "char", "short"] + self.typedefs)
            kind = "int" if ty == "int" else "num"
            line = "%s%s %s%s" % (pad, ty, v, init)
            new = [(v, kind)]
            if r.random() < 0.2:
                v2 = self.fresh("lv")
                line += ", %s" % v2 + (" = %s" % self.atom(env, ind) if r.random() < 0.5 else "")
                new.append((v2, kind))
                self.features.add("multidecl")
            return line + ";", new
        if c < 0.62:
            v = self.fresh("la")
            if r.random() < 0.5:
                self.features.add("initlist")
                exact = [n for n, k in env if k == "int"] + ["1", "2", "42"]
                return "%sint %s[3] = {%s};" % (pad, v, ", ".join(r.choice(exact) for _ in range(3))), [(v, "arr")]
            return "%sint %s[3];" % (pad, v), [(v, "arr")]
        if c < 0.75 and (self.structs or self.classes):
            s = r.choice(list(self.structs) + [k for k in self.classes if not self.classes[k].get("ctorargs")])
            v = self.fresh("ls")
            kw = "struct " if (s in self.structs and (not self.cpp or r.random() < 0.5)) else ""
            return "%s%s%s %s;" % (pad, kw, s, v), [(v, "struct:" + s)]
        if c < 0.85:
            iv = [n for n, k in env if k == "int" and "::" not in n]
            if iv:
                v = self.fresh("lp")
                self.features.add("pointer")
                return "%sint *%s = &%s;" % (pad, v, r.choice(iv)), [(v, "ptr")]
        if c < 0.92:
            ss = [(n, k) for n, k in env if k.startswith("struct:")]
            if ss:
                n, k = r.choice(ss)
                s = k.split(":")[1]
                v = self.fresh("lq")
                kw = "struct " if s in self.structs and not self.cpp else ""
                return "%s%s%s *%s = &%s;" % (pad, kw, s, v, n), [(v, "sptr:" + s)]
        if self.stress and r.random() < 0.5:
            v = self.fresh("lv")
            self.features.add("staticlocal")
            return "%sstatic int %s = 0;" % (pad, v), [(v, "int")]
        v = self.fresh("lv")
        return "%sint %s = %s;" % (pad, v, self.expr(env, ind)), [(v, "int")]

    def block(self, env, ind, d, inloop, insw=False):
        """statements of a compound statement; returns list of lines"""
        lines = []
        env = list(env)
        for _ in range(self.r.randrange(1, 4 if d else 6)):
            ls, new = self.stmt(env, ind, d, inloop, insw)
            lines += ls
            env += new
        return lines

    def body(self, env, ind, d, inloop, head, insw=False):
        """`head {` … `}` in the current layout"""
        pad = " " * ind
        inner = self.block(env, ind + 2, d + 1, inloop, insw)
        if self.layout == "free" and self.r.random() < 0.3:
            self.features.add("brace-on-own-line")
            return [pad + head, pad + "{"] + inner + [pad + "}"]
        return [pad + head + " {"] + inner + [pad + "}"]

    def stmt(self, env, ind, d, inloop, insw=False):
        r = self.r
        pad = " " * ind
        c = r.random()
        if c < 0.22:
            l, new = self.local_decl(env, ind)
            return [l], new
        if c < 0.42:
            lv = self.lvalue(env)
            if lv:
                op = r.choice(["=", "=", "=", "+=", "-=", "*=", "|=", "&="])
                return ["%s%s %s%s%s;" % (pad, lv, op, self.brk(ind, 0.15), self.expr(env, ind))], []
        if c < 0.52 and d < 3:
            self.features.add("if")
            ls = self.body(env, ind, d, inloop, "if (%s)" % self.expr(env, ind), insw)
            if r.random() < 0.5:
                self.features.add("else")
                els = self.body(env, ind, d, inloop, "else", insw)
                if self.layout == "free" and r.random() < 0.6 and ls[-1].strip() == "}" and els[0].strip().startswith("else"):
                    self.features.add("cuddled-else")
                    els[0] = ls[-1] + " " + els[0].strip()
                    ls = ls[:-1]
                ls += els
            return ls, []
        if c < 0.57 and d < 3:
            lv = self.lvalue(env)
            if lv and r.random() < 0.5:
                self.features.add("if-nobrace")
                return ["%sif (%s)" % (pad, self.expr(env, ind)), "%s  %s = %s;" % (pad, lv, self.expr(env, ind))], []
        if c < 0.64 and d < 3:
            self.features.add("while")
            return self.body(env, ind, d, True, "while (%s)" % self.expr(env, ind)), []
        if c < 0.69 and d < 3:
            self.features.add("do")
            ls = self.body(env, ind, d, True, "do")
            ls[-1] += " while (%s);" % self.expr(env, ind)
            return ls, []
        if c < 0.78 and d < 3:
            self.features.add("for")
            iv = self.ints(env)
            if r.random() < 0.6 or not iv:
                v = self.fresh("li")
                env2 = env + [(v, "int")]
                init = "int %s = %s" % (v, self.atom(env, ind))
            else:
                v = r.choice(iv)
                env2 = env
                init = "%s = 0" % v if r.random() < 0.8 else ""
            cond = "%s < %s" % (v, self.atom(env2, ind)) if r.random() < 0.9 else ""
            inc = r.choice(["%s++" % v, "++%s" % v, "%s += 2" % v, ""])
            head = "for (%s;%s%s;%s%s)" % (init, self.brk(ind, 0.15), cond, self.brk(ind, 0.15), inc)
            return self.body(env2, ind, d, True, head), []
        if c < 0.82 and d < 2:
            self.features.add("switch")
            ls = [pad + "switch (%s) {" % self.expr(env, ind)]
            for k in range(r.randrange(1, 4)):
                ls.append(pad + "case %d:" % (k * 3 + 1))
                lv = self.lvalue(env)
                if lv:
                    ls.append("%s  %s = %s;" % (pad, lv, self.expr(env, ind)))
                if r.random() < 0.8:
                    ls.append(pad + "  break;")
            if r.random() < 0.6:
                ls.append(pad + "default:")
                ls.append(pad + "  break;")
            ls.append(pad + "}")
            return ls, []
        if c < 0.86 and inloop:
            return [pad + r.choice(["break;", "continue;"])], []
        if c < 0.90 and self.funcs:
            f, kinds, ret = r.choice(self.funcs)
            args = self.args_for(kinds, env, ind, 1)
            if args is not None:
                self.features.add("callstmt")
                return ["%s%s(%s);" % (pad, f, ("," + self.brk(ind, 0.25)).join(args))], []
        if c < 0.93:
            if self.ret == "void":
                return [pad + "return;"], []
            return ["%sreturn %s;" % (pad, self.expr(env, ind))], []
        if c < 0.95 and self.cpp:
            iv = self.ints(env)
            v = self.fresh("lp")
            self.features.add("new")
            return ["%sint *%s = new int;" % (pad, v), "%sdelete %s;" % (pad, v)], [(v, "ptr")]
        if c < 0.97 and d < 3:
            return [pad + "{"] + self.block(env, ind + 2, d + 1, inloop, insw) + [pad + "}"], []
        lv = self.lvalue(env)
        if lv:
            return ["%s%s = %s;" % (pad, lv, self.expr(env, ind))], []
        return [pad + ";"], []

    # ---- top level ----
    def params(self, n, ind=0):
        ps = []
        env = []
        for _ in range(n):
            p = self.fresh("pa")
            c = self.r.random()
            if c < 0.7:
                ty = self.r.choice(["int", "int", "long", "unsigned", "char"])
                ps.append("%s %s" % (ty, p)); env.append((p, "int" if ty == "int" else "num"))
            elif c < 0.8:
                ps.append("int *%s" % p); env.append((p, "ptr"))
            elif c < 0.9 and (self.structs or self.classes):
                s = self.r.choice(list(self.structs) + list(self.classes))
                kw = "struct " if s in self.structs and not self.cpp else ""
                if self.cpp and self.r.random() < 0.5:
                    ps.append("%s%s &%s" % (kw, s, p)); env.append((p, "struct:" + s))
                    self.features.add("reference")
                else:
                    ps.append("%s%s *%s" % (kw, s, p)); env.append((p, "sptr:" + s))
            else:
                ps.append("int %s" % p); env.append((p, "int"))
        sep = "," + ("\n" + " " * 8 if self.layout == "free" and self.r.random() < 0.4 and n > 1 else " ")
        if "\n" in sep:
            self.features.add("params-on-lines")
        return sep.join(ps) if ps else ("void" if not self.cpp else ""), env

    def function(self, name=None, ind=0, extra_env=(), ret=None, qual="", proto_ok=True):
        r = self.r
        f = name or self.fresh("fn")
        n = r.randrange(0, 4)
        ps, penv = self.params(n, ind)
        ret = ret or r.choice(["int", "int", "long", "void", "unsigned"])
        self.ret = ret
        pad = " " * ind
        lines = []
        static = "static " if (r.random() < 0.15 and not qual and ind == 0) else ""
        if self.stress and proto_ok and r.random() < 0.5:
            # a prototype first: parameter names are declared again in the definition (F35b/F35c)
            self.features.add("prototype")
            lines.append("%s%s%s %s(%s);" % (pad, static, ret, f, ps.replace("\n", " ")))
        env = self.globals + list(extra_env) + penv
        head = "%s%s %s(%s)%s" % (static, ret, f, ps, qual)
        if self.layout == "free" and r.random() < 0.25:
            self.features.add("brace-on-own-line")
            lines += [pad + head, pad + "{"]
        else:
            lines += [pad + head + " {"]
        lines += self.block(env, ind + 2, 0, False)
        if ret != "void":
            lines.append("%s  return %s;" % (pad, self.expr(env, ind + 2)))
        lines.append(pad + "}")
        return f, [k for _, k in penv], ret, lines

    def program(self):
        r = self.r
        out = []
        nglob = r.randrange(1, 5)
        for _ in range(nglob):
            c = r.random()
            if c < 0.4:
                g = self.fresh("gv")
                out.append("%sint %s%s;" % (r.choice(["", "", "static "]), g, " = %d" % r.randrange(50) if r.random() < 0.6 else ""))
                self.globals.append((g, "int"))
            elif c < 0.6:
                s = self.fresh("St")
                fs = [self.fresh("fm") for _ in range(r.randrange(1, 4))]
                if self.layout == "free" and r.random() < 0.5:
                    out.append("struct %s { %s };" % (s, " ".join("int %s;" % f for f in fs)))
                else:
                    out += ["struct %s {" % s] + ["  int %s;" % f for f in fs] + ["};"]
                self.structs[s] = fs
                if r.random() < 0.6:
                    g = self.fresh("gs")
                    out.append("struct %s %s;" % (s, g))
                    self.globals.append((g, "struct:" + s))
            elif c < 0.72:
                e = self.fresh("En")
                ks = [self.fresh("EK") for _ in range(r.randrange(1, 4))]
                out.append("enum %s { %s };" % (e, ", ".join(ks)))
                self.enums += ks
                self.features.add("enum")
            elif c < 0.8:
                t = self.fresh("Ty")
                out.append("typedef int %s;" % t)
                self.typedefs.append(t)
                self.features.add("typedef")
            elif c < 0.9:
                g = self.fresh("ga")
                out.append("int %s[4];" % g)
                self.globals.append((g, "arr"))
            else:
                g = self.fresh("gv")
                out.append("int %s = %d;" % (g, r.randrange(9)))
                self.globals.append((g, "int"))
        if self.cpp:
            for _ in range(r.randrange(0, 3)):
                out += self.klass()
            if r.random() < 0.4:
                ns = self.fresh("ns")
                g = self.fresh("gv")
                self.features.add("namespace")
                f, kinds, ret, ls = self.function(ind=2, proto_ok=False)
                out += ["namespace %s {" % ns, "  int %s = 2;" % g] + ls + ["}"]
                self.globals.append(("%s::%s" % (ns, g), "int"))
                self.funcs.append(("%s::%s" % (ns, f), kinds, ret))
        for _ in range(r.randrange(1, 4)):
            f, kinds, ret, ls = self.function()
            out += ls
            self.funcs.append((f, kinds, ret))
        return "\n".join(out) + "\n"

    def klass(self):
        r = self.r
        c = self.fresh("Cl")
        kw = r.choice(["class", "struct"])
        fs = [self.fresh("fm") for _ in range(r.randrange(1, 3))]
        lines = ["%s %s {" % (kw, c)]
        if kw == "class":
            lines.append("public:")
        lines += ["  int %s;" % f for f in fs]
        info = dict(fields=fs, methods=[])
        fenv = [(f, "int") for f in fs]
        if r.random() < 0.5:
            self.features.add("ctor")
            lines.append("  %s() : %s(0) { %s = 1; }" % (c, fs[0], fs[-1]))
        if r.random() < 0.25:
            lines.append("  ~%s() { }" % c)
            self.features.add("dtor")
        for _ in range(r.randrange(0, 3)):
            m = self.fresh("me")
            qual = " const" if r.random() < 0.25 else ""
            self.features.add("method")
            f, kinds, ret, ls = self.function(name=m, ind=2, extra_env=fenv if not qual else [], ret="int", qual=qual, proto_ok=False)
            lines += ls
            info["methods"].append((m, kinds))
        if kw == "class" and r.random() < 0.3:
            lines.append("private:")
            p = self.fresh("fm")
            lines.append("  int %s;" % p)
        lines.append("};")
        self.classes[c] = info
        return lines


def gen_program(rng, cpp, layout, stress=False):
    g = Gen(rng, cpp, layout, stress)
    text = g.program()
    return dict(lang="cpp" if cpp else "c", layout=layout, stress=stress, text=text, features=sorted(g.features))


# ---------------------------------------------------------------------------------------------------------
# clang: text dump (what cppcheck --clang consumes) and JSON dump (ground truth), cached by program hash
# ---------------------------------------------------------------------------------------------------------
def src_name(lang):
    return "t.c" if lang == "c" else "t.cpp"


def linecol(text, off):
    line = text.count("\n", 0, off) + 1
    col = off - (text.rfind("\n", 0, off) + 1) + 1
    return line, col


VARKINDS = ("VarDecl", "ParmVarDecl", "FieldDecl")
FUNKINDS = ("FunctionDecl", "CXXMethodDecl")
DECLKINDS = VARKINDS + FUNKINDS + ("EnumConstantDecl",)


def truth_of(text, js):
    """from clang's JSON dump: declarations (by id) and uses (DeclRefExpr / MemberExpr) with the offsets of their identifiers"""
    decls, uses = {}, []

    def off(loc):
        if not isinstance(loc, dict):
            return None
        if "offset" in loc:
            return loc["offset"]
        for k in ("expansionLoc", "spellingLoc"):
            if k in loc and "offset" in loc[k]:
                return loc[k]["offset"]
        return None

    def walk(n, anc, func):
        k = n.get("kind")
        rng = n.get("range") or {}
        b = off(rng.get("begin"))
        e = off(rng.get("end"))
        if k in DECLKINDS and n.get("name") and not n.get("isImplicit") and off(n.get("loc")) is not None and b is not None:
            decls[n["id"]] = dict(kind=k, name=n["name"], off=off(n["loc"]), begin=b, prev=n.get("previousDecl"),
                                  func=func, anc=list(anc))
        if k == "DeclRefExpr" and n.get("referencedDecl") and e is not None:
            rd = n["referencedDecl"]
            uses.append(dict(target=rd.get("id"), name=rd.get("name"), tkind=rd.get("kind"), off=e, begin=b, anc=list(anc), via="ref"))
        if k == "MemberExpr" and n.get("referencedMemberDecl") and e is not None:
            uses.append(dict(target=n["referencedMemberDecl"], name=n.get("name"), tkind=None, off=e, begin=b, anc=list(anc), via="member"))
        anc2 = anc + [b] if b is not None else anc
        func2 = n["id"] if k in FUNKINDS + ("CXXConstructorDecl", "CXXDestructorDecl") else func
        for c in n.get("inner", []):
            walk(c, anc2, func2)

    walk(js, [], None)
    for u in uses:
        if u["tkind"] is None and u["target"] in decls:
            u["tkind"] = decls[u["target"]]["kind"]
    funcprev = {}
    for i, d in decls.items():
        if d["kind"] in FUNKINDS:
            funcprev[i] = bool(d["prev"])

    def lc(o):
        return list(linecol(text, o))

    out_d = {}
    for i, d in decls.items():
        out_d[i] = dict(kind=d["kind"], name=d["name"], off=d["off"], begin=lc(d["begin"]), prev=bool(d["prev"]),
                        funcprev=bool(d["func"] and funcprev.get(d["func"])), anclines=sorted(set(lc(a)[0] for a in d["anc"])))
    out_u = [dict(target=u["target"], name=u["name"], tkind=u["tkind"], off=u["off"], begin=lc(u["begin"]) if u["begin"] is not None else None,
                  via=u["via"], anclines=sorted(set(lc(a)[0] for a in u["anc"]))) for u in uses]
    return dict(decls=out_d, uses=out_u)


def clang_case(case):
    """fills case['dump'] (text dump) and case['truth']; cached"""
    key = hashlib.sha1((case["lang"] + "\0" + case["text"]).encode()).hexdigest()
    p = os.path.join(CACHE, key + ".json")
    if os.path.exists(p):
        try:
            d = json.load(open(p))
            case.update(dump=d["dump"], truth=d["truth"], clang_ok=d["clang_ok"], cached=True)
            return case
        except Exception:
            pass
    os.makedirs(CACHE, exist_ok=True)
    wd = os.path.join(CACHE, "w-" + key + "-%d" % os.getpid())
    os.makedirs(wd, exist_ok=True)
    try:
        fn = src_name(case["lang"])
        open(os.path.join(wd, fn), "w").write(case["text"])
        r1 = subprocess.run([CLANG, "-fsyntax-only", "-Xclang", "-ast-dump", "-fno-color-diagnostics", fn], cwd=wd, stdout=subprocess.PIPE,
                            stderr=subprocess.PIPE, text=True, errors="replace", timeout=120)
        r2 = subprocess.run([CLANG, "-fsyntax-only", "-Xclang", "-ast-dump=json", "-fno-color-diagnostics", fn], cwd=wd, stdout=subprocess.PIPE,
                            stderr=subprocess.PIPE, text=True, errors="replace", timeout=120)
        ok = r1.returncode == 0 and r2.returncode == 0
        truth = None
        if ok:
            try:
                truth = truth_of(case["text"], json.loads(r2.stdout))
            except Exception as ex:
                ok = False
        d = dict(dump=r1.stdout, truth=truth, clang_ok=ok, stderr=(r1.stderr or "")[-400:])
        tmp = p + ".tmp%d" % os.getpid()
        json.dump(d, open(tmp, "w"))
        os.replace(tmp, p)
        case.update(dump=d["dump"], truth=truth, clang_ok=ok, cached=False)
        return case
    finally:
        import shutil
        shutil.rmtree(wd, ignore_errors=True)


def clang_all(cases, workers=8):
    with concurrent.futures.ThreadPoolExecutor(workers) as ex:
        return list(ex.map(clang_case, cases))


# ---------------------------------------------------------------------------------------------------------
# running the line-protocol executables; a crash of the harness is an outcome of the op it happened on
# ---------------------------------------------------------------------------------------------------------
def run_robust(exe, ops, timeout=900):
    out = []
    i = 0
    while i < len(ops):
        rc, o, err = core.run_lines(exe, [], ops[i:], timeout=timeout)
        out += o
        i = len(out)
        if i < len(ops):
            out.append("CRASH rc=%s %s" % (rc, (err or "")[-200:].replace("\n", " | ")))
            i += 1
    return out


def parse_dump_line(line):
    """harness/driver `dump` output -> list of token dicts, or None when the import did not complete"""
    if not line.startswith("ok "):
        return None
    toks = []
    for f in line.split(" | ", 1)[1].split(" ") if " | " in line else []:
        q = f.split(":")

        def ix(s):
            return None if s == "-" else int(s)
        toks.append(dict(idx=int(q[0]), str=core.unhx(q[1]).decode("latin-1"), file=int(q[2]), line=int(q[3]), col=int(q[4]), link=ix(q[5]),
                         parent=ix(q[6]), op1=ix(q[7]), op2=ix(q[8]), varId=int(q[9]), varDef=ix(q[10]), funDef=ix(q[11]), enumDef=ix(q[12])))
    return toks


# ---------------------------------------------------------------------------------------------------------
# P_impl
# ---------------------------------------------------------------------------------------------------------
def inv_problems(toks):
    """(1) AstStore invariant (acyclic, operand's parent points back, a child is listed, op1 != op2) and links (symmetric, nested,
    an opening bracket before its closing bracket of the same kind, every bracket linked)"""
    n = len(toks)
    bad = []
    for t in toks:
        i = t["idx"]
        for k in ("op1", "op2"):
            c = t[k]
            if c is not None and toks[c]["parent"] != i:
                bad.append(("ast-opback", "token %d %r: %s=%d whose parent is %r" % (i, t["str"], k, c, toks[c]["parent"])))
        if t["op1"] is not None and t["op1"] == t["op2"]:
            bad.append(("ast-distinct", "token %d %r: op1 == op2" % (i, t["str"])))
        p = t["parent"]
        if p is not None and toks[p]["op1"] != i and toks[p]["op2"] != i:
            bad.append(("ast-listed", "token %d %r: parent %d does not list it" % (i, t["str"], p)))
        # acyclic
        seen, c = 0, t["parent"]
        while c is not None and seen <= n:
            c = toks[c]["parent"]
            seen += 1
        if seen > n:
            bad.append(("ast-cycle", "token %d %r is on a parent cycle" % (i, t["str"])))
    pairs = {"(": ")", "[": "]", "{": "}"}
    stack = []
    for t in toks:
        i, s, l = t["idx"], t["str"], t["link"]
        if l is not None and toks[l]["link"] != i:
            bad.append(("link-asym", "token %d %r links to %d which links to %r" % (i, s, l, toks[l]["link"])))
        if s in pairs:
            if l is None or l <= i or toks[l]["str"] != pairs[s]:
                bad.append(("link-kind", "opening %r at %d links to %r" % (s, i, l)))
            stack.append(i)
        elif s in pairs.values():
            if not stack or toks[stack[-1]]["link"] != i:
                bad.append(("link-nesting", "closing %r at %d does not close the innermost open bracket %r" % (s, i, stack[-1] if stack else None)))
            if stack:
                stack.pop()
        elif l is not None:
            bad.append(("link-nonbracket", "token %d %r has a link" % (i, s)))
    if stack:
        bad.append(("link-nesting", "unclosed brackets %r" % stack[:3]))
    return bad


ENTITY = re.compile(r"^(gv|gs|ga|lv|la|ls|lp|lq|li|pa|fm|fn|me|EK)\d+$")


def align(case, toks):
    """pair the k-th token spelled N with the k-th source occurrence (declaration name or use) of entity N.
    Returns (pairs, unaligned names).  pairs: list of (token, occ) with occ = dict(role 'D'|'U', id / target, ...)"""
    tr = case["truth"]
    occ = {}
    for i, d in tr["decls"].items():
        if ENTITY.match(d["name"] or ""):
            occ.setdefault(d["name"], []).append(dict(role="D", id=i, off=d["off"], d=d))
    for u in tr["uses"]:
        if u["name"] and ENTITY.match(u["name"]) and u["target"] in tr["decls"]:
            occ.setdefault(u["name"], []).append(dict(role="U", id=u["target"], off=u["off"], u=u))
    bystr = {}
    for t in toks:
        if ENTITY.match(t["str"]):
            bystr.setdefault(t["str"], []).append(t)
    pairs, unaligned = [], []
    for name, os_ in occ.items():
        os_.sort(key=lambda o: (o["off"], o["role"]))
        ts = bystr.get(name, [])
        if len(ts) != len(os_):
            unaligned.append((name, len(os_), len(ts)))
            continue
        pairs += list(zip(ts, os_))
    return pairs, unaligned


def link_problems(case, toks):
    """(2) every variable use is linked to the declaration clang names; (4) lines/columns of the aligned name tokens.
    Returns list of (key, text, detail dict)"""
    tr = case["truth"]
    pairs, unaligned = align(case, toks)
    tok_of_decl = {}
    for t, o in pairs:
        if o["role"] == "D":
            tok_of_decl[o["id"]] = t
    bad = []
    stats = dict(var_uses=0, var_uses_linked=0, func_uses=0, enum_uses=0, decls=0, unaligned=len(unaligned), line_checked=0)
    ids_seen = {}
    for t, o in pairs:
        d = tr["decls"][o["id"]]
        kind = d["kind"]
        where = "%s %r (source %d:%d)" % ("declaration of" if o["role"] == "D" else "use of", t["str"], *linecol(case["text"], o["off"]))
        # ---- locations: the node's begin as clang means it ----
        exp = d["begin"] if o["role"] == "D" else o["u"]["begin"]
        anclines = d["anclines"] if o["role"] == "D" else o["u"]["anclines"]
        if exp:
            stats["line_checked"] += 1
            if t["line"] != exp[0]:
                key = "loc-line-inherited" if (t["line"] in anclines or t["line"] < exp[0]) else "loc-line-other"
                bad.append((key, "%s: imported at line %d, clang: line %d" % (where, t["line"], exp[0]), dict(tok=t["idx"])))
            elif t["col"] != exp[1]:
                bad.append(("loc-col", "%s: imported at column %d, clang: column %d" % (where, t["col"], exp[1]), dict(tok=t["idx"])))
        # ---- links ----
        if kind in VARKINDS:
            if o["role"] == "D":
                stats["decls"] += 1
                if t["varDef"] != t["idx"] or t["varId"] == 0:
                    key = "param-of-redeclared-function" if (kind == "ParmVarDecl" and d["funcprev"]) else "decl-unlinked"
                    bad.append((key, "%s: varId=%d variable()->nameToken()=%r" % (where, t["varId"], t["varDef"]), dict(tok=t["idx"])))
                else:
                    if t["varId"] in ids_seen and ids_seen[t["varId"]] != o["id"]:
                        bad.append(("varid-shared", "%s: varId %d also names another declaration" % (where, t["varId"]), dict(tok=t["idx"])))
                    ids_seen[t["varId"]] = o["id"]
            else:
                stats["var_uses"] += 1
                td = tok_of_decl.get(o["id"])
                if td is None:
                    continue
                if t["varDef"] == td["idx"] and t["varId"] == td["varId"] and t["varId"] != 0:
                    stats["var_uses_linked"] += 1
                    continue
                if kind == "ParmVarDecl" and d["funcprev"] and t["varDef"] is None:
                    key = "param-of-redeclared-function"
                elif t["varDef"] is None and t["varId"] == td["varId"] and t["varId"] != 0 and in_sizeof(toks, t["idx"]):
                    key = "use-inside-sizeof"
                elif t["varDef"] is None:
                    key = "use-unlinked"
                else:
                    key = "use-wrong-decl"
                bad.append((key, "%s: clang: declaration at %d:%d; imported: varId=%d variable()->nameToken()=%s (expected token %d, varId %d)" %
                            (where, d["begin"][0], d["begin"][1], t["varId"],
                             "none" if t["varDef"] is None else "token %d %r" % (t["varDef"], toks[t["varDef"]]["str"]), td["idx"], td["varId"]),
                            dict(tok=t["idx"])))
        elif kind in FUNKINDS and o["role"] == "U":
            stats["func_uses"] += 1
            ok = t["funDef"] is not None and toks[t["funDef"]]["str"] == t["str"]
            if not ok:
                stats["func_uses_unlinked"] = stats.get("func_uses_unlinked", 0) + 1
        elif kind == "EnumConstantDecl" and o["role"] == "U":
            stats["enum_uses"] += 1
            td = tok_of_decl.get(o["id"])
            if td is not None and t["enumDef"] != td["idx"]:
                stats["enum_uses_unlinked"] = stats.get("enum_uses_unlinked", 0) + 1
    return bad, stats, unaligned


def in_sizeof(toks, i):
    """token i lies between `sizeof (` and the next `)`"""
    j = i - 1
    while j >= 1:
        if toks[j]["str"] == ")":
            return False
        if toks[j]["str"] == "(" and toks[j - 1]["str"] == "sizeof":
            return True
        j -= 1
    return False
